(* Net/PluginChain.v — the proxy plugin chains around the requests of one client connection.
   Definitions only (lemmas: PluginChainFacts.v).

   Python modelled, function for function (tree after fix: commits e1d01d6, 4e91153):
     proxy/common/plugins.py      Plugins.load                      -> bucket_add, load
     proxy/common/flag.py         auth_plugins / plugin list (143-204)-> auth_plugins, initialize_plugins
     proxy/http/proxy/server.py   HttpProxyPlugin.__init__          -> instantiate, plugin_values
                                  on_request_complete               -> on_request_complete
                                  connect_upstream                  -> connect_upstream, resolve_chain
                                  _queue_request_for_upstream       -> queue_request_for_upstream
                                  on_client_data                    -> on_client_data
                                  read_from_descriptors (275-293)   -> on_upstream_data
                                  on_client_connection_close        -> on_client_connection_close, access_log
     proxy/http/handler.py        handle_data (try/except)          -> handle_data_end
                                  shutdown                          -> shutdown
   Scope: --enable-conn-pool, --enable-proxy-protocol, --enable-events and TLS interception off.

   A plugin is a record of ARBITRARY Gallina functions, one per hook.  Every hook also receives
   the log of everything that happened on the connection so far ([seen]); so a hook may depend on
   any state a deterministic plugin can have accumulated from its earlier invocations.  What a hook
   cannot do in this model is act on the client/upstream connection objects behind the handler's
   back (e.g. queue bytes itself); such writes are outside the log.

   Everything observable goes to ONE chronological log: hook invocations with their argument,
   the upstream connect attempt, everything queued for the upstream and for the client, the
   teardown decision of handle_data, escaping exceptions, the default access log line and the
   close of both sockets. *)
From PM Require Import Lib.Bytes Lib.PyStr Net.Auth.
From Coq Require Import ZArith.

Inductive hook := BUC | DNS | HCR | HCD | HUC | OAL | OUCC.
(* before_upstream_connection, resolve_dns, handle_client_request, handle_client_data,
   handle_upstream_chunk, on_access_log, on_upstream_connection_close *)

Definition ctx := dict bytes.         (* access-log context: str key -> value *)

Inductive arg :=
| ARequest (r : request) | ABytes (b : bytes) | ACtx (c : ctx) | AHostPort (h : bytes) (p : N) | AUnit.

Inductive qkind := QRequest | QRaw.   (* a rebuilt request / bytes relayed verbatim *)

Inductive event :=
| Call (pid : N) (h : hook) (a : arg)
| Connect (addr : bytes) (port : N) (src : option bytes)     (* addr: the resolve_dns override if any, else the request host *)
| QueueUpstream (k : qkind) (b : bytes)
| QueueClient (b : bytes)
| Teardown                      (* handle_data returned True: no further reads; flush, then shutdown *)
| Escaped (code : N)            (* an exception left handle_events()/shutdown(); code = exn_code *)
| AccessLog (c : ctx)           (* HttpProxyPlugin.access_log: the default log line *)
| UpstreamClose
| ClientFlush                   (* threaded mode: shutdown() found output pending and ran _flush() first *)
| ClientShutdown                (* conn.shutdown(SHUT_WR) on the client socket was called (whatever it returned or raised) *)
| ClientClose.

Definition log := list event.

(* resolve_dns result: (upstream_ip, source_addr), or an exception *)
Definition dns_result := option (option bytes * option bytes).

Record plugin := mkPlugin {
  pid : N;                       (* identity, only used to label log entries *)
  pname : bytes;                 (* name() *)
  before_upstream_connection : log -> request -> outcome request;
  resolve_dns : log -> bytes -> N -> dns_result;
  handle_client_request : log -> request -> outcome request;
  handle_client_data : log -> bytes -> outcome bytes;
  handle_upstream_chunk : log -> bytes -> outcome bytes;
  on_access_log : log -> ctx -> outcome ctx;
  on_upstream_connection_close : log -> option exn        (* None: returns; Some e: raises e *)
}.

(* the defaults of HttpProxyBasePlugin (plugin.py) *)
Definition base_plugin (id : N) (name : bytes) : plugin :=
  mkPlugin id name (fun _ r => Pass r) (fun _ _ _ => Some (None, None)) (fun _ r => Pass r)
           (fun _ b => Pass b) (fun _ b => Pass b) (fun _ c => Pass c) (fun _ => None).

(* AuthPlugin: only before_upstream_connection is overridden *)
Definition AUTH_PID : N := 0.
Definition auth_plugin (agent : bytes) (auth_code : option bytes) : plugin :=
  mkPlugin AUTH_PID (bs "AuthPlugin")
           (fun _ r => AuthPlugin_before_upstream_connection agent auth_code r)
           (fun _ _ _ => Some (None, None)) (fun _ r => Pass r)
           (fun _ b => Pass b) (fun _ b => Pass b) (fun _ c => Pass c) (fun _ => None).

(* ------------------------------------------------------------------ loading order *)
(* a plugin class: identity, the abstract base class it derives from, what it instantiates to *)
Record klass := mkKlass { k_id : N; k_base : N; k_plugin : plugin }.
Definition PROXY_BASE : N := 0.        (* b'HttpProxyBasePlugin' *)
Definition same_klass (a c : klass) : bool := k_id a =? k_id c.

(* Plugins.load: p[base].append(klass) unless already there; buckets pre-created for the abc list *)
Fixpoint bucket_add (k : klass) (p : list (N * list klass)) : list (N * list klass) :=
  match p with
  | [] => []             (* `raise ValueError('... is NOT a valid plugin')`: not modelled, bases are always known *)
  | (b, ks) :: t =>
      if b =? k_base k then (b, if existsb (same_klass k) ks then ks else ks ++ [k]) :: t
      else (b, ks) :: bucket_add k t
  end.
Definition load (abc : list N) (plugins : list klass) : list (N * list klass) :=
  fold_left (fun p k => bucket_add k p) plugins (map (fun b => (b, [])) abc).
Fixpoint bucket (b : N) (p : list (N * list klass)) : list klass :=
  match p with
  | [] => []
  | (b', ks) :: t => if b =? b' then ks else bucket b t
  end.

(* flag.py 143-161: the auth plugin is loaded iff basic auth is given or a custom auth plugin is named *)
Definition auth_plugins (basic_auth : option bytes) (auth_klass : klass) (is_default_auth_plugin : bool) : list klass :=
  if truthy basic_auth || negb is_default_auth_plugin then [auth_klass] else [].
(* flag.py 194-204: Plugins.load(default_plugins + auth_plugins + requested_plugins) *)
Definition initialize_plugins (abc : list N) (defaults : list klass) (basic_auth : option bytes)
    (auth_klass : klass) (is_default_auth_plugin : bool) (requested : list klass) : list (N * list klass) :=
  load abc (defaults ++ auth_plugins basic_auth auth_klass is_default_auth_plugin ++ requested).

(* HttpProxyPlugin.__init__: self.plugins[instance.name()] = instance — an equal name OVERWRITES
   the earlier instance in place (same position, later plugin) *)
Definition instantiate (ks : list klass) : dict plugin :=
  fold_left (fun d k => dict_set (pname (k_plugin k)) (k_plugin k) d) ks [].
Definition plugin_values (d : dict plugin) : list plugin := map snd d.      (* self.plugins.values() *)
Definition proxy_plugins (p : list (N * list klass)) : list plugin := plugin_values (instantiate (bucket PROXY_BASE p)).

(* ------------------------------------------------------------------ the chains *)
(* `for plugin in self.plugins.values(): r = plugin.hook(x); if r is None: <stop>; x = r` *)
Inductive chain_end (A : Type) :=
| Done (x : A)                   (* every plugin returned a value; x is the last one *)
| Dropped (x : A)                (* some plugin returned None; x is the value it was given *)
| Rejected (x : A) (resp : option bytes) (* some plugin raised an HttpProtocolException (x: what it was given) *)
| Raised (x : A) (e : exn).              (* some plugin raised something else *)
Arguments Done {A} x.
Arguments Dropped {A} x.
Arguments Rejected {A} x resp.
Arguments Raised {A} x e.

Fixpoint chain {A} (hk : hook) (inj : A -> arg) (call : plugin -> log -> A -> outcome A)
    (ps : list plugin) (x : A) (l : log) : log * chain_end A :=
  match ps with
  | [] => (l, Done x)
  | p :: t =>
      let l1 := l ++ [Call (pid p) hk (inj x)] in
      match call p l x with
      | Pass y => chain hk inj call t y l1
      | Drop => (l1, Dropped x)
      | Reject r => (l1, Rejected x r)
      | Raise e => (l1, Raised x e)
      end
  end.

(* a plugin raising HttpProtocolException(k) "as another exception" is still a rejection without response *)
Definition norm_end {A} (e : chain_end A) : chain_end A :=
  match e with
  | Raised x (HttpProtocolException _) => Rejected x None
  | _ => e
  end.

(* ------------------------------------------------------------------ configuration and state *)
Record config := mkConfig {
  cf_agent : bytes;                 (* PROXY_AGENT_HEADER_VALUE *)
  cf_disable_headers : list bytes;  (* flags.disable_headers *)
  cf_final_flush : bool             (* `self.selector and self.work.has_buffer()` when shutdown() is entered: threaded mode with output
                                       still pending.  Not configuration but an input (when output gets flushed is outside this model);
                                       carried here so that every theorem quantifies over it *)
}.

Record pstate := mkState {
  st_request : request;             (* self.request as left by the chains *)
  st_upstream : bool;               (* self.upstream is not None *)
  st_pipeline : option request      (* a COMPLETE self.pipeline_request that was kept (its rq_buffer: bytes received after it) *)
}.

(* how a piece of handler code ended *)
Inductive fail := FReject (resp : option bytes) | FRaise (e : exn).

Definition fail_of_end {A} (e : chain_end A) : option fail :=
  match norm_end e with
  | Rejected _ r => Some (FReject r)
  | Raised _ x => Some (FRaise x)
  | _ => None
  end.

(* connect_upstream: resolve_dns loop, stops at the first plugin answering *)
Fixpoint resolve_chain (ps : list plugin) (host : bytes) (port : N) (l : log)
    : log * option (option bytes * option bytes) :=
  match ps with
  | [] => (l, Some (None, None))
  | p :: t =>
      let l1 := l ++ [Call (pid p) DNS (AHostPort host port)] in
      match resolve_dns p l host port with
      | None => (l1, None)                                   (* raised: caught by `except Exception` *)
      | Some (ip, src) =>
          match nonempty ip, src with
          | None, None => resolve_chain t host port l1
          | _, _ => (l1, Some (ip, src))                     (* `if upstream_ip or source_addr: break` *)
          end
      end
  end.

Definition connect_upstream (cf : config) (ps : list plugin) (r : request) (conn_ok : bool) (l : log)
    : log * option fail :=
  match nonempty (rq_host r), rq_port r with
  | Some host, Some zport =>
      if (zport =? 0)%Z then (l, Some (FReject None)) else        (* `if host and port` *)
      if negb ((0 <? zport)%Z && (zport <=? 65535)%Z) then (l, Some (FReject None)) else
                                                             (* `if not 0 < port <= 65535: raise HttpProtocolException` (fix f918c36) *)
      let port := Z.to_N zport in
      if negb (utf8_valid host) then (l, Some (FRaise UnicodeDecodeError)) else   (* text_(host), twice *)
      let '(l1, dns) := resolve_chain ps host port l in
      match dns with
      | None => (l1, Some (FReject (Some (BAD_GATEWAY_RESPONSE_PKT (cf_agent cf)))))
      | Some (ip, src) =>
          let l2 := l1 ++ [Connect (match nonempty ip with Some i => i | None => host end) port src] in
          if conn_ok then (l2, None)
          else (l2, Some (FReject (Some (BAD_GATEWAY_RESPONSE_PKT (cf_agent cf)))))   (* ProxyConnectionFailed *)
      end
  | _, _ => (l, Some (FReject None))                         (* HttpProtocolException('Both host and port must exist') *)
  end.

(* _queue_request_for_upstream (helper introduced by fix e1d01d6): scrub, Via, rebuild, queue *)
Definition scrub (cf : config) (conn_tunnel : bool) (r : request) : request :=
  let hs := del_headers [PROXY_AUTHORIZATION; PROXY_CONNECTION] (rq_headers r) in
  let hs := if conn_tunnel then hs
            else add_headers [(bs "Via", match dict_get (bs "via") hs with
                                         | Some (_, v) => v ++ bs ", " ++ bs "1.1 " ++ cf_agent cf     (* fix 64e4fe1: append to a received Via *)
                                         | None => bs "1.1 " ++ cf_agent cf
                                         end)] hs in
  set_headers r hs.

Definition queue_request_for_upstream (cf : config) (conn_tunnel : bool) (r : request) (l : log)
    : log * request * option fail :=
  let r' := scrub cf conn_tunnel r in
  match build (cf_disable_headers cf) r' with
  | Ok b => (l ++ [QueueUpstream QRequest b], r', None)
  | Err e => (l, r', Some (FRaise e))
  end.

(* result of one handler entry point *)
Inductive step_end := Continue (st : pstate) | Failed (st : pstate) (f : fail).

(* the part of on_request_complete after the (attempted or skipped) upstream connect *)
Definition after_connect (cf : config) (ps : list plugin) (connected : bool) (r1 : request) (l2 : log)
    : log * step_end :=
  let '(l3, e2) := chain HCR ARequest handle_client_request ps r1 l2 in
  match norm_end e2 with
  | Done r2 =>
      if connected then
        if rq_tunnel r2 then
          (l3 ++ [QueueClient PROXY_TUNNEL_ESTABLISHED_RESPONSE_PKT], Continue (mkState r2 true None))
        else
          let '(l4, r3, f) := queue_request_for_upstream cf (rq_tunnel r2) r2 l3 in
          match f with
          | None => (l4, Continue (mkState r3 true None))
          | Some f => (l4, Failed (mkState r3 true None) f)
          end
      else (l3, Continue (mkState r2 false None))
  | Dropped rx => (l3, Continue (mkState rx connected None))      (* `return False` *)
  | Rejected rx resp => (l3, Failed (mkState rx connected None) (FReject resp))
  | Raised rx x => (l3, Failed (mkState rx connected None) (FRaise x))
  end.

Definition on_request_complete (cf : config) (ps : list plugin) (r : request) (conn_ok : bool) (l : log)
    : log * step_end :=
  let '(l1, e1) := chain BUC ARequest before_upstream_connection ps r l in
  match norm_end e1 with
  | Done r1 =>
      let '(l2, f) := connect_upstream cf ps r1 conn_ok l1 in
      match f with
      | None => after_connect cf ps true r1 l2
      | Some f => (l2, Failed (mkState r1 false None) f)
      end
  | Dropped r1 => after_connect cf ps false r1 l1               (* do_connect = False *)
  | Rejected rx resp => (l1, Failed (mkState rx false None) (FReject resp))
  | Raised rx x => (l1, Failed (mkState rx false None) (FRaise x))
  end.

Definition is_connection_upgrade (r : request) : bool :=
  bytes_eqb (rq_version r) HTTP_1_1 && has_header r (bs "Connection") && has_header r (bs "Upgrade").

(* on_client_data / _on_client_data (tree after fix e222aa4: `while remainder is not None: remainder =
   self._on_client_data(remainder)`).  What the pipeline parser makes of the bytes is outside this model
   (C03/C04); it enters as the list [parses]: the k-th entry is the verdict of the k-th parse() of a NOT yet
   complete parser during this call — still incomplete, or complete with record r and `.buffer` = rem (the
   bytes that followed the request in the same piece; [] = None). *)
Inductive parse_result := PPartial | PComplete (r : request) (rem : bytes).

(* a complete later request goes through the handle_client_request chain and is rebuilt like the first
   one.  Third component: the remainder `_on_client_data` returns, i.e. the `.buffer` of the object the chain
   ended with — if a hook returned a NEW object the bytes that followed the request in the same piece are lost. *)
Definition run_later (cf : config) (ps : list plugin) (st : pstate) (pr : request) (l : log)
    : log * step_end * option bytes :=
  let '(l1, e) := chain HCR ARequest handle_client_request ps pr l in
  match norm_end e with
  | Done r1 =>
      let '(l2, r2, f) := queue_request_for_upstream cf (rq_tunnel (st_request st)) r1 l1 in
      match f with
      | None => (l2, Continue (mkState (st_request st) true (if is_connection_upgrade r2 then Some (set_buffer r2 []) else None)),
                 nonempty (Some (rq_buffer r2)))          (* remainder = buffer; buffer = None *)
      | Some f => (l2, Failed (mkState (st_request st) true (Some r2)) f, None)
      end
  | Dropped rx => (l1, Continue (mkState (st_request st) true (Some rx)), None)    (* `return None`: the complete parser is kept *)
  | Rejected rx resp => (l1, Failed (mkState (st_request st) true (Some rx)) (FReject resp), None)
  | Raised rx x => (l1, Failed (mkState (st_request st) true (Some rx)) (FRaise x), None)
  end.

(* the loop over a fresh / partially fed pipeline parser *)
Fixpoint client_loop (cf : config) (ps : list plugin) (st : pstate) (parses : list parse_result) (l : log)
    : log * step_end :=
  match parses with
  | [] | PPartial :: _ => (l, Continue st)                 (* not complete yet: `return None` *)
  | PComplete pr rem :: t =>
      match run_later cf ps st (set_buffer pr rem) l with
      | (l1, Continue st1, Some rem') =>                   (* forwarded; the bytes after it are further client data *)
          match st_pipeline st1 with
          | Some _ => (l1 ++ [QueueUpstream QRaw rem'], Continue st1)     (* an upgrade was forwarded: relayed verbatim *)
          | None => client_loop cf ps st1 t l1
          end
      | (l1, e, _) => (l1, e)
      end
  end.

Definition on_client_data (cf : config) (ps : list plugin) (st : pstate) (raw : bytes) (parses : list parse_result)
    (l : log) : log * step_end :=
  if negb (st_upstream st) then
    let '(l1, e) := chain HCD ABytes handle_client_data ps raw l in
    match fail_of_end e with
    | Some f => (l1, Failed st f)
    | None => (l1, Continue st)
    end
  else if rq_tunnel (st_request st) then (l ++ [QueueUpstream QRaw raw], Continue st)
  else
    match st_pipeline st with
    | Some pr =>
        if is_connection_upgrade pr then (l ++ [QueueUpstream QRaw raw], Continue st)
        else
          (* parse() on the kept COMPLETE parser only appends to its buffer; the chain runs again on the same request *)
          match run_later cf ps st (set_buffer pr (rq_buffer pr ++ raw)) l with
          | (l1, Continue st1, Some rem') =>
              match st_pipeline st1 with
              | Some _ => (l1 ++ [QueueUpstream QRaw rem'], Continue st1)
              | None => client_loop cf ps st1 parses l1
              end
          | (l1, e, _) => (l1, e)
          end
    | None => client_loop cf ps st parses l
    end.

(* read_from_descriptors, the part after a successful upstream recv (275-293).  The bookkeeping
   parse of the response (self.response.parse) is outside this model (C01). *)
Definition on_upstream_data (ps : list plugin) (st : pstate) (raw : bytes) (l : log) : log * step_end :=
  let '(l1, e) := chain HUC ABytes handle_upstream_chunk ps raw l in
  match e with
  | Done raw' => (l1 ++ [QueueClient raw'], Continue st)
  | Dropped _ => (l1, Continue st)
  | Rejected _ _ => (l1, Failed st (FRaise (HttpProtocolException 0)))    (* not under handle_data's try: escapes *)
  | Raised _ x => (l1, Failed st (FRaise x))
  end.

Definition is_oserror (e : exn) : bool := match e with OSError _ => true | _ => false end.

(* how the handler turns a failure into observable behaviour:
   - under handle_data's try (first request, later client data): HttpProtocolException -> queue
     e.response(request) if truthy, return True; an OSError is caught by handle_readables -> True;
     anything else escapes handle_events (the executor then shuts the work down)
   - in read_from_descriptors (upstream data) nothing is caught *)
Definition handle_data_end (f : fail) (l : log) : log :=
  match f with
  | FReject (Some (x :: t)) => l ++ [QueueClient (x :: t); Teardown]
  | FReject _ => l ++ [Teardown]
  | FRaise e => if is_oserror e then l ++ [Teardown] else l ++ [Escaped (exn_code e)]
  end.
Definition upstream_data_end (f : fail) (l : log) : log :=
  match f with
  | FReject _ => l ++ [Escaped (exn_code (HttpProtocolException 0))]
  | FRaise e => l ++ [Escaped (exn_code e)]
  end.

(* ------------------------------------------------------------------ teardown *)
Definition required_keys (tunnel : bool) : list bytes :=
  [bs "client_ip"; bs "client_port"; bs "request_method"; bs "server_host"; bs "server_port"]
  ++ (if tunnel then [] else [bs "request_path"; bs "response_code"; bs "response_reason"])
  ++ [bs "response_bytes"; bs "connection_time_ms"].

(* access_log: format_map(log_attrs) raises KeyError when a plugin removed a key the format uses *)
Definition access_log (tunnel : bool) (c : ctx) (l : log) : log * option exn :=
  if forallb (fun k => dict_has k c) (required_keys tunnel) then (l ++ [AccessLog c], None)
  else (l, Some KeyError).

Fixpoint close_chain (ps : list plugin) (l : log) : log * option exn :=
  match ps with
  | [] => (l, None)
  | p :: t =>
      let l1 := l ++ [Call (pid p) OUCC AUnit] in
      match on_upstream_connection_close p l with
      | None => close_chain t l1
      | Some e => (l1, Some e)
      end
  end.

(* the on_access_log loop of on_client_connection_close followed by the default access_log unless a plugin took over *)
Definition access_log_stage (ps : list plugin) (tunnel : bool) (c0 : ctx) (l : log) : log * option exn :=
  let '(l1, e) := chain OAL ACtx on_access_log ps c0 l in
  match e with
  | Done c => access_log tunnel c l1
  | Dropped _ => (l1, None)                                     (* log_handled = True *)
  | Rejected _ _ => (l1, Some (HttpProtocolException 0))
  | Raised _ x => (l1, Some x)
  end.

(* HttpProxyPlugin.on_client_connection_close; [c0] is the context dict built at its top
   (total since fix 4e91153) *)
Definition on_client_connection_close (ps : list plugin) (st : pstate) (c0 : ctx) (l : log) : log * option exn :=
  let '(l2, x) := access_log_stage ps (rq_tunnel (st_request st)) c0 l in
  match x with
  | Some x => (l2, Some x)
  | None =>
      let '(l3, y) := close_chain ps l2 in
      match y with
      | Some y => (l3, Some y)
      | None => (if st_upstream st then l3 ++ [UpstreamClose] else l3, None)
      end
  end.

(* HttpProtocolHandler.shutdown:
     try:     if self.plugin: self.plugin.on_client_connection_close()      <- FIRST
              conn.shutdown(socket.SHUT_WR)                                 <- then the client socket
     except OSError: pass
     finally: self.work.connection.close()
   The callbacks run before the socket call, so whatever conn.shutdown does (it raises ENOTCONN after a
   peer reset; any OSError is swallowed) has no influence on them: the outcome of that call is not even an
   input of the model.  An OSError raised by a callback skips conn.shutdown; another exception escapes
   after the close. *)
Definition shutdown_core (ps : list plugin) (st : option pstate) (c0 : ctx) (l : log) : log :=
  match st with
  | None => l ++ [ClientShutdown; ClientClose]
  | Some st =>
      let '(l1, x) := on_client_connection_close ps st c0 l in
      match x with
      | None => l1 ++ [ClientShutdown; ClientClose]
      | Some e => if is_oserror e then l1 ++ [ClientClose] else l1 ++ [ClientClose; Escaped (exn_code e)]
      end
  end.

(* the whole of shutdown(): in threaded mode pending output is flushed FIRST (`if self.selector and
   self.work.has_buffer(): self._flush()`).  Since fix faabfc0 _flush() tolerates every OSError of the send
   (BrokenPipeError, ConnectionResetError, EIO ...: "nobody left to flush to"), so whatever happens to the
   socket during that flush the callbacks below still run; before the fix a reset raised there was swallowed
   by shutdown()'s own `except OSError` and skipped them all. *)
Definition shutdown (ps : list plugin) (st : option pstate) (c0 : ctx) (final_flush : bool) (l : log) : log :=
  shutdown_core ps st c0 (if final_flush then l ++ [ClientFlush] else l).

(* ------------------------------------------------------------------ histories of one connection *)
Inductive step :=
| SFirst (r : request) (conn_ok : bool)              (* the first request became complete: HttpProxyPlugin is created, on_request_complete *)
| SClient (raw : bytes) (parses : list parse_result) (* later bytes from the client, and what the pipeline parser made of them *)
| SUpstream (raw : bytes).                           (* bytes received from upstream *)

(* does the failure leave handle_events() as an exception (the executor then shuts the work down at once)? *)
Definition escapes (f : fail) : bool := match f with FRaise e => negb (is_oserror e) | FReject _ => false end.

(* The steps are processed in order.  Whatever ends the connection without a decision of the
   handler (peer EOF or reset, idle timeout, executor shutdown) is the end of the list.
   A failure under handle_data ends the reading of the client in one of THREE ways, as in the Python:
   - a rejection (HttpProtocolException caught by handle_data, which returns True): BaseTcpServerHandler.
     handle_readables sets must_flush_before_shutdown while the client buffer still holds unflushed bytes
     (e.g. the rejection response); get_events no longer selects the client for reading, but
     HttpProtocolHandler.handle_events still calls HttpProxyPlugin.read_from_descriptors: bytes arriving
     from upstream before the flush completes still go through the handle_upstream_chunk chain and are
     queued for the client ([draining] = true);
   - an OSError raised by a hook leaves handle_data and BaseTcpServerHandler.handle_readables and is caught
     by HttpProtocolHandler.handle_readables (`except socket.error: ... return True`): handle_events sets
     reads_teared = True, NOT must_flush_before_shutdown.  From then on `if not self.reads_teared:` skips
     handle_readables AND plugin.read_from_descriptors: nothing is read from either socket any more, no hook
     of the request-handling chains runs, nothing is queued; pending client output is flushed and
     handle_events returns True.  Every further step is therefore without effect: the history ends here
     (the FRaise branch under `else` below);
   - any other exception escapes handle_events: the processing ends immediately.
   Returns the log and the plugin state (None: HttpProxyPlugin never created). *)
(* the three continuations of a failure under handle_data, as a vocabulary for the statements
   (PluginChainFacts.run_steps_first_fail / run_steps_client_fail say that run_steps follows it; run_steps itself
   keeps the older spelling `if escapes f ... else match f ...` so that proofs reducing it by name stay valid) *)
Inductive read_end := MustFlush | ReadsTeared | EscapesLoop.
Definition read_end_of (f : fail) : read_end :=
  match f with
  | FReject _ => MustFlush
  | FRaise e => if is_oserror e then ReadsTeared else EscapesLoop
  end.
Fixpoint run_steps (cf : config) (ps : list plugin) (st : option pstate) (draining : bool) (steps : list step) (l : log)
    : log * option pstate :=
  match steps with
  | [] => (l, st)
  | s :: t =>
      match st, s with
      | None, SFirst r c =>
          if draining then run_steps cf ps st draining t l else
          match on_request_complete cf ps r c l with
          | (l1, Continue st1) => run_steps cf ps (Some st1) false t l1
          | (l1, Failed st1 f) =>
              if escapes f then (handle_data_end f l1, Some st1)
              else match f with
                   | FRaise _ => (handle_data_end f l1, Some st1)        (* OSError: reads_teared, no step is processed any more *)
                   | FReject _ => run_steps cf ps (Some st1) true t (handle_data_end f l1)   (* must_flush_before_shutdown *)
                   end
          end
      | Some st0, SClient raw parses =>
          if draining then run_steps cf ps st draining t l else
          match on_client_data cf ps st0 raw parses l with
          | (l1, Continue st1) => run_steps cf ps (Some st1) false t l1
          | (l1, Failed st1 f) =>
              if escapes f then (handle_data_end f l1, Some st1)
              else match f with
                   | FRaise _ => (handle_data_end f l1, Some st1)        (* OSError: reads_teared, no step is processed any more *)
                   | FReject _ => run_steps cf ps (Some st1) true t (handle_data_end f l1)   (* must_flush_before_shutdown *)
                   end
          end
      | Some st0, SUpstream raw =>
          if st_upstream st0 then
            match on_upstream_data ps st0 raw l with
            | (l1, Continue st1) => run_steps cf ps (Some st1) draining t l1
            | (l1, Failed st1 f) => (upstream_data_end f l1, Some st1)
            end
          else run_steps cf ps st draining t l
      | _, _ => run_steps cf ps st draining t l             (* cannot happen: ignored *)
      end
  end.

(* one whole connection: the steps, then shutdown() exactly once (executor: C05/C10) *)
Definition run_conn (cf : config) (ps : list plugin) (c0 : ctx) (steps : list step) : log :=
  let '(l, st) := run_steps cf ps None false steps [] in
  shutdown ps st c0 (cf_final_flush cf) l.

(* ------------------------------------------------------------------ observations on logs *)
Definition is_call_of (hk : hook) (e : event) : bool :=
  match e with
  | Call _ h _ => match hk, h with
                  | BUC, BUC | DNS, DNS | HCR, HCR | HCD, HCD | HUC, HUC | OAL, OAL | OUCC, OUCC => true
                  | _, _ => false
                  end
  | _ => false
  end.
Definition is_connect (e : event) : bool := match e with Connect _ _ _ => true | _ => false end.
Definition is_queue_upstream (e : event) : bool := match e with QueueUpstream _ _ => true | _ => false end.
Definition is_queue_client (e : event) : bool := match e with QueueClient _ => true | _ => false end.
Definition is_access_log (e : event) : bool := match e with AccessLog _ => true | _ => false end.
Definition is_lifecycle (e : event) : bool :=
  is_call_of OAL e || is_call_of OUCC e || is_access_log e.
Definition connect_log (l : log) : log := filter is_connect l.
Definition upstream_queue (l : log) : log := filter is_queue_upstream l.
Definition client_queue (l : log) : log := filter is_queue_client l.
Definition calls_of (p : N) (l : log) : log :=
  filter (fun e => match e with Call q _ _ => q =? p | _ => false end) l.
(* request-handling hooks: everything except the two lifecycle callbacks *)
Definition is_request_hook (e : event) : bool :=
  match e with Call _ h _ => match h with OAL | OUCC => false | _ => true end | _ => false end.
