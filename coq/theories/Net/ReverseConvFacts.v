(* C12, later requests of a client connection — lemmas about Net/ReverseConv.v.
   The one-step lemma is Net/ReverseFacts.v's analysis of handle_request (plugins_loop_fired, build_forwarded,
   the proof of caf_ok) replayed from an ARBITRARY plugin state, with the complete successor state exposed;
   the connection-level statements are inductions over the list of later requests. *)
From PM Require Import Lib.Bytes Lib.BytesFacts Lib.PyStr Net.Reverse Net.ReverseFacts Net.ReverseConv.
From Coq Require Import Lia.
Open Scope N_scope.

(* ------------------------------------------------------------------ small list facts *)
Lemma nat_eqb_succ_app {A} (l : list A) x : Nat.eqb (length (l ++ [x])) (length l) = false.
Proof. apply PeanoNat.Nat.eqb_neq. rewrite app_length. cbn [length]. lia. Qed.

Lemma nth_error_app_l {A} (l m : list A) i x : nth_error l i = Some x -> nth_error (l ++ m) i = Some x.
Proof.
  intros H. rewrite nth_error_app1; [exact H|]. apply nth_error_Some. congruence.
Qed.

(* ------------------------------------------------------------------ the state a routed request leaves *)
(* plugin state after handle_request routed a request to [u] (host [h]) and queued [wire] on the new object *)
Definition routed_state (st : state) (u : url) (h wire : bytes) : state :=
  mkState (Some u) (Some (mkUp (h, upstream_port u) [wire] false true)) (client_queue st)
          (connect_log st ++ [(h, upstream_port u)])
          (wrap_log st ++ (if scheme_is u HTTPS_PROTO then [h] else []))
          (match upstream_ st with Some o => orphans st ++ [up_addr o] | None => orphans st end)
          (route_set st).

Definition add_client (st : state) (segs : list bytes) : state :=
  mkState (choice st) (upstream_ st) (client_queue st ++ segs) (connect_log st) (wrap_log st) (orphans st) (route_set st).

Lemma read_all_data segs : forall st, upstream_ st <> None ->
  read_all (map RData segs) st = (add_client st segs, Ok false).
Proof.
  induction segs as [|s segs IH]; intros st Hu.
  - cbn [map read_all]. unfold add_client. rewrite app_nil_r. destruct st; reflexivity.
  - cbn [map read_all]. unfold read_from_descriptors.
    destruct (upstream_ st) as [up|] eqn:E; [|contradiction]. cbn [negb].
    rewrite IH.
    + unfold add_client, client_queue_add.
      cbn [choice upstream_ client_queue connect_log wrap_log orphans route_set].
      rewrite <- app_assoc. reflexivity.
    + unfold client_queue_add. cbn [upstream_]. rewrite E. discriminate.
Qed.

Lemma read_all_reads a st :
  a_reads a = map RData (data_of (a_reads a)) -> upstream_ st <> None ->
  read_all (a_reads a) st = (add_client st (data_of (a_reads a)), Ok false).
Proof.
  intros Hreads Hne. pose proof (read_all_data (data_of (a_reads a)) st Hne) as X.
  rewrite <- Hreads in X. exact X.
Qed.

Lemma connect_and_forward_routed cfg req st u :
  choice st = Some u -> wf_url u = true -> wf_request req = true -> disable_headers cfg = [] ->
  exists h wire,
    u_hostname u = Some h /\
    connect_and_forward cfg ConnOk (Ok tt) req st = (routed_state st u h wire, Ok tt) /\
    ref_parse wire = Some (forwarded cfg u req).
Proof.
  intros Hc Hu Hreq Hd.
  destruct (build_forwarded cfg u req Hreq Hu Hd) as (wire & Hb & Hp).
  pose proof Hu as Hu'. unfold wf_url in Hu'. apply andb_true_iff in Hu' as [Hu' _].
  apply andb_true_iff in Hu' as [Hu' _]. apply andb_true_iff in Hu' as [Hu' _].
  apply andb_true_iff in Hu' as [Hu' _]. apply andb_true_iff in Hu' as [Ht Hutf].
  destruct (u_hostname u) as [h|] eqn:Eh; [|discriminate]. cbn [opt_bytes opt_truthy] in *.
  exists h, wire. split; [reflexivity|]. split; [|exact Hp].
  unfold connect_and_forward. rewrite Hc, Eh. cbn [opt_truthy opt_bytes]. rewrite Ht. cbn [negb].
  rewrite (text_valid h Hutf). unfold routed_state.
  destruct (scheme_is u HTTPS_PROTO); rewrite Hb;
    destruct st as [c up cq cl wl orp rsf]; destruct up as [o|];
    cbn [with_upstream log_connect mark_connected log_wrap upstream_queue
         choice upstream_ client_queue connect_log wrap_log orphans route_set up_addr up_buffer up_external up_connected app];
    cbn [choice] in Hc; subst c; rewrite ?app_nil_r; reflexivity.
Qed.

Section ConvFacts.
  Variable pattern : Type.
  Variable re_match : pattern -> bytes -> bool.

  (* ---------------------------------------------------------------- handle_request from an arbitrary state *)
  Lemma handle_request_routed cfg (pl : plugin pattern) req p rs r u st :
    r_path req = Some p -> utf8_valid p = true ->
    before_routing pl req = Some req ->
    first_match re_match p (p_routes pl) = Some r ->
    selects r req (hd O rs) u ->
    wf_url u = true -> wf_request req = true -> disable_headers cfg = [] ->
    exists h wire,
      u_hostname u = Some h /\
      handle_request re_match cfg [pl] ConnOk (Ok tt) req rs st = (routed_state st u h wire, draws_after r rs, Ok tt) /\
      ref_parse wire = Some (forwarded cfg u req).
  Proof.
    intros Hp Hutf Hbr Hfm Hsel Hu Hreq Hd.
    destruct (connect_and_forward_routed cfg req (with_choice st (Some u)) u eq_refl Hu Hreq Hd)
      as (h & wire & Eh & Ecaf & Epar).
    exists h, wire. split; [exact Eh|]. split; [|exact Epar].
    assert (Ers : routed_state (with_choice st (Some u)) u h wire = routed_state st u h wire) by reflexivity.
    rewrite Ers in Ecaf.
    unfold handle_request. cbn [before_routing_all]. rewrite Hbr.
    rewrite (plugins_loop_fired pattern re_match [pl] req p rs st false Hp Hutf).
    unfold fired. cbn [flat_map]. rewrite Hfm. cbn [app fire_all].
    destruct r as [pat urls|pat h0]; cbn [selects] in Hsel; cbn [fire draws_after].
    - rewrite Hsel. cbv beta iota. rewrite Ecaf. reflexivity.
    - rewrite Hsel, (url_str_ok u Hu). cbv beta iota. rewrite Ecaf. reflexivity.
  Qed.

  Lemma handle_request_no_route cfg (ps : list (plugin pattern)) co wo req p rs st :
    r_path req = Some p -> utf8_valid p = true ->
    (forall pl, In pl ps -> before_routing pl req = Some req) ->
    existsb (fun pat => re_match pat p) (routes ps) = false ->
    handle_request re_match cfg ps co wo req rs st = (st, rs, Ok tt).
  Proof.
    intros Hp Hutf Hbr Hn. unfold handle_request.
    rewrite (before_routing_default pattern ps req Hbr).
    rewrite (plugins_loop_fired pattern re_match ps req p rs st false Hp Hutf).
    rewrite (routes_none_fired pattern re_match p ps Hn). reflexivity.
  Qed.

  (* ---------------------------------------------------------------- bookkeeping of replaced objects *)
  Lemma absorb_same k : absorb k (k_rev k) = k.
  Proof.
    unfold absorb, replaced. rewrite PeanoNat.Nat.eqb_refl. cbn [negb].
    destruct k as [st rc dr]. cbn [k_rev with_rev k_received k_dropped]. destruct (upstream_ st); reflexivity.
  Qed.

  Lemma absorb_routed k u h wire :
    (upstream_ (k_rev k) = None -> k_received k = []) ->
    absorb k (routed_state (k_rev k) u h wire) =
    mkConn (routed_state (k_rev k) u h wire) []
           (k_dropped k ++ match upstream_ (k_rev k) with Some old => [(old, k_received k)] | None => [] end).
  Proof.
    intros Hinv. unfold absorb, replaced, routed_state. cbn [orphans].
    destruct (upstream_ (k_rev k)) as [old|] eqn:E.
    - rewrite nat_eqb_succ_app. reflexivity.
    - unfold with_rev. rewrite (Hinv eq_refl), app_nil_r. reflexivity.
  Qed.

  Lemma history_after_routed k u h wire rcv :
    (upstream_ (k_rev k) = None -> k_received k = []) ->
    upstream_history
      (mkConn (add_client (clear_up_buffer (routed_state (k_rev k) u h wire)) rcv) [wire]
              (k_dropped k ++ match upstream_ (k_rev k) with Some old => [(old, k_received k)] | None => [] end))
    = upstream_history k ++ [((h, upstream_port u), [wire])].
  Proof.
    intros Hinv. unfold upstream_history.
    cbn [k_rev k_dropped k_received add_client clear_up_buffer routed_state upstream_ up_addr].
    rewrite map_app. destruct (upstream_ (k_rev k)) as [old|]; cbn [map fst snd]; [reflexivity|].
    rewrite !app_nil_r. reflexivity.
  Qed.

  (* ---------------------------------------------------------------- one later request that matches a route *)
  (* the plugin state in which handle_request runs for a later request: ReverseProxy.on_client_data came first *)
  Definition pre_state (first : request) (a : arrival) (st : state) : state :=
    if is_websocket_upgrade first then upstream_queue st (a_raw a) else st.

  Lemma reverse_on_client_data_ok first a st :
    (is_websocket_upgrade first = true -> upstream_ st <> None) ->
    reverse_on_client_data first (a_raw a) st = (pre_state first a st, Ok tt).
  Proof.
    intros Hws. unfold reverse_on_client_data, pre_state.
    destruct (is_websocket_upgrade first); [|reflexivity].
    destruct (upstream_ st) eqn:E; [reflexivity|]. exfalso. now apply Hws.
  Qed.

  Lemma pre_state_frame first a st :
    route_set (pre_state first a st) = route_set st /\
    connect_log (pre_state first a st) = connect_log st /\
    wrap_log (pre_state first a st) = wrap_log st /\
    client_queue (pre_state first a st) = client_queue st /\
    orphans (pre_state first a st) = orphans st /\
    option_map up_addr (upstream_ (pre_state first a st)) = option_map up_addr (upstream_ st).
  Proof.
    unfold pre_state. destruct (is_websocket_upgrade first); [|repeat split; reflexivity].
    unfold upstream_queue. cbn [route_set connect_log wrap_log client_queue orphans upstream_].
    repeat split; try reflexivity. destruct (upstream_ st); reflexivity.
  Qed.

  Lemma later_request_routed cfg (pl : plugin pattern) first a t rs k :
    route_set (k_rev k) = true -> is_http_1_1_keep_alive first = true ->
    (is_websocket_upgrade first = true -> upstream_ (k_rev k) <> None) ->
    (upstream_ (k_rev k) = None -> k_received k = []) ->
    disable_headers cfg = [] ->
    is_http_1_1_keep_alive (a_req a) = true ->
    routed_one re_match pl a t rs ->
    exists h wire k',
      u_hostname (t_url t) = Some h /\
      later_request re_match cfg [pl] first a rs k = (k', draws_after (t_route t) rs, Ok false) /\
      route_set (k_rev k') = true /\
      upstream_ (k_rev k') = Some (mkUp (h, upstream_port (t_url t)) [] false true) /\
      k_received k' = [wire] /\
      upstream_history k' = upstream_history k ++ [((h, upstream_port (t_url t)), [wire])] /\
      connect_log (k_rev k') = connect_log (k_rev k) ++ [(h, upstream_port (t_url t))] /\
      wrap_log (k_rev k') = wrap_log (k_rev k) ++ (if scheme_is (t_url t) HTTPS_PROTO then [h] else []) /\
      client_queue (k_rev k') = client_queue (k_rev k) ++ data_of (a_reads a) /\
      ref_parse wire = Some (forwarded cfg (t_url t) (a_req a)).
  Proof.
    intros Hrs Hka Hws Hinv Hd Hka2 Hone.
    destruct Hone as ((p & Hp & _ & Hutf & Hfm) & Hbr & Hsel & Hu & Hreq & Hco & Hwo & Hreads).
    set (st1 := pre_state first a (k_rev k)).
    destruct (pre_state_frame first a (k_rev k)) as (F1 & F2 & F3 & F4 & F5 & F6). fold st1 in F1, F2, F3, F4, F5, F6.
    destruct (handle_request_routed cfg pl (a_req a) p rs (t_route t) (t_url t) st1 Hp Hutf Hbr Hfm Hsel Hu Hreq Hd)
      as (h & wire & Eh & Ehr & Epar).
    set (k1 := with_rev k st1).
    assert (Hinv1 : upstream_ (k_rev k1) = None -> k_received k1 = []).
    { cbn [k1 with_rev k_rev k_received]. intros E. apply Hinv.
      destruct (upstream_ (k_rev k)); [|reflexivity]. rewrite E in F6. discriminate. }
    pose proof (absorb_routed k1 (t_url t) h wire Hinv1) as Eab. cbn [k1 with_rev k_rev k_received k_dropped] in Eab.
    set (k2 := mkConn (add_client (clear_up_buffer (routed_state st1 (t_url t) h wire)) (data_of (a_reads a))) [wire]
                      (k_dropped k ++ match upstream_ st1 with Some old => [(old, k_received k)] | None => [] end)).
    exists h, wire, k2. split; [exact Eh|].
    split.
    { unfold later_request, web_on_client_data. rewrite Hrs. cbn [negb].
      rewrite (reverse_on_client_data_ok first a (k_rev k) Hws). fold st1. rewrite Hka.
      rewrite Hco, Hwo, Ehr, Hka2. fold k1. cbn [k1 with_rev] in *. rewrite Eab.
      unfold after_request, write_to_descriptors. cbn [k_rev routed_state upstream_ up_buffer k_received k_dropped app].
      rewrite (read_all_reads a _ Hreads); [|cbn [clear_up_buffer routed_state upstream_]; discriminate].
      reflexivity. }
    split; [cbn [k2 k_rev add_client clear_up_buffer routed_state route_set]; rewrite F1; exact Hrs|].
    split; [reflexivity|]. split; [reflexivity|].
    split.
    { pose proof (history_after_routed k1 (t_url t) h wire (data_of (a_reads a)) Hinv1) as Hh.
      cbn [k1 with_rev k_rev k_received k_dropped] in Hh. fold k2 in Hh. rewrite Hh.
      unfold upstream_history. cbn [k1 with_rev k_rev k_received k_dropped].
      f_equal. destruct (upstream_ st1) as [o1|], (upstream_ (k_rev k)) as [o|]; cbn [option_map] in F6;
        try discriminate; [|reflexivity]. inversion F6 as [F6']. rewrite F6'. reflexivity. }
    cbn [k2 k_rev add_client clear_up_buffer routed_state connect_log wrap_log client_queue].
    rewrite F2, F3, F4. repeat split; try reflexivity. exact Epar.
  Qed.

  (* ... and when that later request is not keep-alive (HTTP/1.0, Connection: close): it is routed and connected
     all the same and its rebuilt form is queued on the new upstream object, but on_client_data then raises
     HttpProtocolException, the handler tears the connection down, and nothing flushes the queue: the upstream's
     peer has received nothing.  (What the code does; stated, not judged.) *)
  Lemma later_request_routed_not_keep_alive cfg (pl : plugin pattern) first a t rs k :
    route_set (k_rev k) = true -> is_http_1_1_keep_alive first = true ->
    (is_websocket_upgrade first = true -> upstream_ (k_rev k) <> None) ->
    (upstream_ (k_rev k) = None -> k_received k = []) ->
    disable_headers cfg = [] ->
    is_http_1_1_keep_alive (a_req a) = false ->
    routed_one re_match pl a t rs ->
    exists h wire k',
      u_hostname (t_url t) = Some h /\
      later_request re_match cfg [pl] first a rs k = (k', draws_after (t_route t) rs, Err (HttpProtocolException 5)) /\
      connect_log (k_rev k') = connect_log (k_rev k) ++ [(h, upstream_port (t_url t))] /\
      upstream_ (k_rev k') = Some (mkUp (h, upstream_port (t_url t)) [wire] false true) /\
      k_received k' = [] /\
      client_queue (k_rev k') = client_queue (k_rev k) /\
      ref_parse wire = Some (forwarded cfg (t_url t) (a_req a)).
  Proof.
    intros Hrs Hka Hws Hinv Hd Hka2 Hone.
    destruct Hone as ((p & Hp & _ & Hutf & Hfm) & Hbr & Hsel & Hu & Hreq & Hco & Hwo & Hreads).
    set (st1 := pre_state first a (k_rev k)).
    destruct (pre_state_frame first a (k_rev k)) as (F1 & F2 & F3 & F4 & F5 & F6). fold st1 in F1, F2, F3, F4, F5, F6.
    destruct (handle_request_routed cfg pl (a_req a) p rs (t_route t) (t_url t) st1 Hp Hutf Hbr Hfm Hsel Hu Hreq Hd)
      as (h & wire & Eh & Ehr & Epar).
    set (k1 := with_rev k st1).
    assert (Hinv1 : upstream_ (k_rev k1) = None -> k_received k1 = []).
    { cbn [k1 with_rev k_rev k_received]. intros E. apply Hinv.
      destruct (upstream_ (k_rev k)); [|reflexivity]. rewrite E in F6. discriminate. }
    pose proof (absorb_routed k1 (t_url t) h wire Hinv1) as Eab. cbn [k1 with_rev k_rev k_received k_dropped] in Eab.
    exists h, wire. eexists. split; [exact Eh|].
    split.
    { unfold later_request, web_on_client_data. rewrite Hrs. cbn [negb].
      rewrite (reverse_on_client_data_ok first a (k_rev k) Hws). fold st1. rewrite Hka.
      rewrite Hco, Hwo, Ehr, Hka2. fold k1. cbn [k1 with_rev] in *. rewrite Eab. reflexivity. }
    cbn [k_rev k_received routed_state connect_log upstream_ client_queue]. rewrite F2, F4.
    repeat split; try reflexivity. exact Epar.
  Qed.

  (* ---------------------------------------------------------------- the list of later requests *)
  Lemma later_requests_routed cfg (pl : plugin pattern) first : forall l ts rs k,
    route_set (k_rev k) = true -> is_http_1_1_keep_alive first = true ->
    (is_websocket_upgrade first = true -> upstream_ (k_rev k) <> None) ->
    (upstream_ (k_rev k) = None -> k_received k = []) ->
    disable_headers cfg = [] ->
    Forall (fun a => is_http_1_1_keep_alive (a_req a) = true) l ->
    routed re_match pl l ts rs ->
    exists k' rs' hist,
      later_requests re_match cfg [pl] first l rs k = (k', rs', Ok false) /\
      upstream_history k' = upstream_history k ++ hist /\
      served_all cfg l ts hist /\
      connect_log (k_rev k') = connect_log (k_rev k) ++ map fst hist /\
      wrap_log (k_rev k') = wrap_log (k_rev k) ++ flat_map (fun t => wrap_of (t_url t)) ts /\
      client_queue (k_rev k') = client_queue (k_rev k) ++ flat_map (fun a => data_of (a_reads a)) l.
  Proof.
    induction l as [|a l IH]; intros ts rs k Hrs Hka Hws Hinv Hd Hall Hr.
    - destruct ts; [|contradiction]. exists k, rs, []. cbn [later_requests map flat_map served_all].
      rewrite !app_nil_r. repeat split; reflexivity.
    - destruct ts as [|t ts]; [contradiction|]. destruct Hr as [Hone Hr].
      inversion Hall as [|? ? Hka2 Hall']; subst.
      destruct (later_request_routed cfg pl first a t rs k Hrs Hka Hws Hinv Hd Hka2 Hone)
        as (h & wire & k1 & Eh & Estep & R1 & R2 & R3 & R4 & R5 & R6 & R7 & R8).
      destruct (IH ts (draws_after (t_route t) rs) k1 R1 Hka) as (k' & rs' & hist & Erun & H1 & H2 & H3 & H4 & H5).
      + intros _. rewrite R2. discriminate.
      + intros E. rewrite R2 in E. discriminate.
      + exact Hd.
      + exact Hall'.
      + exact Hr.
      + exists k', rs', (((h, upstream_port (t_url t)), [wire]) :: hist).
        split; [cbn [later_requests]; rewrite Estep; exact Erun|].
        split; [rewrite H1, R4, <- app_assoc; reflexivity|].
        split; [cbn [served_all]; split; [exists h, wire; auto|exact H2]|].
        split; [rewrite H3, R5, <- app_assoc; reflexivity|].
        split.
        * rewrite H4, R6, <- app_assoc. cbn [flat_map]. unfold wrap_of at 2. rewrite Eh. reflexivity.
        * rewrite H5, R7, <- app_assoc. reflexivity.
  Qed.

  (* ---------------------------------------------------------------- the first request, then the whole connection *)
  Lemma first_request_routed cfg (pl : plugin pattern) a t rs :
    disable_headers cfg = [] -> routed_one re_match pl a t rs ->
    exists h wire k',
      u_hostname (t_url t) = Some h /\
      on_request_complete re_match cfg [pl] (a_co a) (a_wo a) (a_req a) rs init_state
        = (routed_state (set_route init_state) (t_url t) h wire, draws_after (t_route t) rs, Ok false) /\
      after_request a (mkConn (routed_state (set_route init_state) (t_url t) h wire) [] []) = (k', Ok false) /\
      route_set (k_rev k') = true /\
      upstream_ (k_rev k') = Some (mkUp (h, upstream_port (t_url t)) [] false true) /\
      upstream_history k' = [((h, upstream_port (t_url t)), [wire])] /\
      connect_log (k_rev k') = [(h, upstream_port (t_url t))] /\
      wrap_log (k_rev k') = (if scheme_is (t_url t) HTTPS_PROTO then [h] else []) /\
      client_queue (k_rev k') = data_of (a_reads a) /\
      ref_parse wire = Some (forwarded cfg (t_url t) (a_req a)).
  Proof.
    intros Hd Hone.
    destruct Hone as ((p & Hp & Htp & Hutf & Hfm) & Hbr & Hsel & Hu & Hreq & Hco & Hwo & Hreads).
    destruct (handle_request_routed cfg pl (a_req a) p rs (t_route t) (t_url t) (set_route init_state)
                Hp Hutf Hbr Hfm Hsel Hu Hreq Hd) as (h & wire & Eh & Ehr & Epar).
    exists h, wire.
    eexists. split; [exact Eh|].
    split.
    { unfold on_request_complete. rewrite Hp. unfold or_slash. cbn [opt_truthy]. rewrite Htp.
      unfold try_route. rewrite (text_valid p Hutf).
      rewrite (first_match_routes pattern re_match p [pl] pl (t_route t) (or_introl eq_refl) Hfm).
      rewrite Hco, Hwo, Ehr. reflexivity. }
    split.
    { unfold after_request, write_to_descriptors. cbn [k_rev routed_state upstream_ up_buffer k_received k_dropped app].
      rewrite (read_all_reads a _ Hreads); [|cbn [clear_up_buffer routed_state upstream_]; discriminate].
      reflexivity. }
    cbn. repeat split; try reflexivity. exact Epar.
  Qed.

  Lemma served_all_nth cfg : forall (l : list arrival) (ts : list (target pattern)) hist i a t,
    served_all cfg l ts hist -> nth_error l i = Some a -> nth_error ts i = Some t ->
    exists e, nth_error hist i = Some e /\ served cfg a t e.
  Proof.
    induction l as [|a0 l IH]; intros ts hist i a t Hs Ha Ht.
    - destruct i; discriminate.
    - destruct ts as [|t0 ts]; [destruct hist; contradiction|]. destruct hist as [|e0 hist]; [contradiction|].
      destruct Hs as [Hs0 Hs]. destruct i as [|i]; cbn [nth_error] in *.
      + inversion Ha; inversion Ht; subst. exists e0. split; [reflexivity|exact Hs0].
      + exact (IH ts hist i a t Hs Ha Ht).
  Qed.

  Lemma served_all_addrs cfg : forall (l : list arrival) (ts : list (target pattern)) hist,
    served_all cfg l ts hist -> map fst hist = map (fun t => url_addr (t_url t)) ts /\ length hist = length l.
  Proof.
    induction l as [|a0 l IH]; intros ts hist Hs.
    - destruct ts, hist; try contradiction. split; reflexivity.
    - destruct ts as [|t0 ts]; [destruct hist; contradiction|]. destruct hist as [|e0 hist]; [contradiction|].
      destruct Hs as [(h & wire & Eh & Ee & _) Hs]. destruct (IH ts hist Hs) as [I1 I2].
      cbn [map length]. rewrite I1, I2. split; [|reflexivity]. f_equal.
      subst e0. unfold url_addr. rewrite Eh. reflexivity.
  Qed.

  (* every request of the connection is connected to and reaches the upstream of ITS OWN route *)
  Theorem later_requests_routed_conn cfg (pl : plugin pattern) a0 l ts rs :
    disable_headers cfg = [] ->
    routed re_match pl (a0 :: l) ts rs ->
    is_http_1_1_keep_alive (a_req a0) = true ->
    Forall (fun a => is_http_1_1_keep_alive (a_req a) = true) l ->
    exists k rs',
      conversation re_match cfg [pl] a0 l rs = (k, rs', Ok false) /\
      connect_log (k_rev k) = map (fun t => url_addr (t_url t)) ts /\
      wrap_log (k_rev k) = flat_map (fun t => wrap_of (t_url t)) ts /\
      client_queue (k_rev k) = flat_map (fun a => data_of (a_reads a)) (a0 :: l) /\
      length (upstream_history k) = length (a0 :: l) /\
      forall i a t, nth_error (a0 :: l) i = Some a -> nth_error ts i = Some t ->
        exists h wire,
          u_hostname (t_url t) = Some h /\
          nth_error (connect_log (k_rev k)) i = Some (h, upstream_port (t_url t)) /\
          nth_error (map socket_addr (connect_log (k_rev k))) i = Some (socket_host h, upstream_port (t_url t)) /\
          nth_error (upstream_history k) i = Some ((h, upstream_port (t_url t)), [wire]) /\
          ref_parse wire = Some (forwarded cfg (t_url t) (a_req a)).
  Proof.
    intros Hd Hr Hka Hall.
    destruct ts as [|t0 ts]; [contradiction|]. destruct Hr as [Hone Hr].
    destruct (first_request_routed cfg pl a0 t0 rs Hd Hone)
      as (h0 & wire0 & k1 & Eh0 & Eorc & Eaft & R1 & R2 & R4 & R5 & R6 & R7 & R8).
    destruct (later_requests_routed cfg pl (a_req a0) l ts (draws_after (t_route t0) rs) k1 R1 Hka)
      as (k & rs' & hist & Erun & H1 & H2 & H3 & H4 & H5).
    { intros _. rewrite R2. discriminate. }
    { intros E. rewrite R2 in E. discriminate. }
    { exact Hd. } { exact Hall. } { exact Hr. }
    assert (Hsall : served_all cfg (a0 :: l) (t0 :: ts) (((h0, upstream_port (t_url t0)), [wire0]) :: hist)).
    { cbn [served_all]. split; [exists h0, wire0; auto|exact H2]. }
    destruct (served_all_addrs cfg _ _ _ Hsall) as [Haddr Hlen].
    assert (Hhist : upstream_history k = ((h0, upstream_port (t_url t0)), [wire0]) :: hist) by (rewrite H1, R4; reflexivity).
    assert (Hlog : connect_log (k_rev k) = map fst (((h0, upstream_port (t_url t0)), [wire0]) :: hist))
      by (rewrite H3, R5; reflexivity).
    exists k, rs'. split.
    { unfold conversation. rewrite Eorc, Eaft. exact Erun. }
    split; [rewrite Hlog; exact Haddr|].
    split; [rewrite H4, R6; cbn [flat_map]; unfold wrap_of at 2; rewrite Eh0; reflexivity|].
    split; [rewrite H5, R7; reflexivity|].
    split; [rewrite Hhist; exact Hlen|].
    intros i a t Ha Ht.
    destruct (served_all_nth cfg _ _ _ i a t Hsall Ha Ht) as (e & He & (h & wire & Eh & Ee & Epar)).
    exists h, wire. split; [exact Eh|].
    assert (Hl : nth_error (connect_log (k_rev k)) i = Some (h, upstream_port (t_url t))).
    { rewrite Hlog. rewrite (map_nth_error fst i _ He). subst e. reflexivity. }
    split; [exact Hl|].
    split; [rewrite (map_nth_error socket_addr i _ Hl); reflexivity|].
    split; [rewrite Hhist, He, Ee; reflexivity|exact Epar].
  Qed.

  (* ---------------------------------------------------------------- a later request that matches no route *)
  Theorem later_no_route cfg (ps : list (plugin pattern)) first a rs k p :
    route_set (k_rev k) = true -> is_http_1_1_keep_alive first = true ->
    (is_websocket_upgrade first = true -> upstream_ (k_rev k) <> None) ->
    r_path (a_req a) = Some p -> utf8_valid p = true ->
    (forall pl, In pl ps -> before_routing pl (a_req a) = Some (a_req a)) ->
    existsb (fun pat => re_match pat p) (routes ps) = false ->
    web_on_client_data re_match cfg ps first a rs k
    = (with_rev k (pre_state first a (k_rev k)), rs,
       if is_http_1_1_keep_alive (a_req a) then Ok tt else Err (HttpProtocolException 5)).
  Proof.
    intros Hrs Hka Hws Hp Hutf Hbr Hn.
    unfold web_on_client_data. rewrite Hrs. cbn [negb].
    rewrite (reverse_on_client_data_ok first a (k_rev k) Hws), Hka.
    rewrite (handle_request_no_route cfg ps (a_co a) (a_wo a) (a_req a) p rs _ Hp Hutf Hbr Hn).
    pose proof (absorb_same (with_rev k (pre_state first a (k_rev k)))) as E. cbn [with_rev k_rev] in E.
    cbn [with_rev] in *. rewrite E.
    destruct (is_http_1_1_keep_alive (a_req a)); reflexivity.
  Qed.

  Lemma pre_state_observables first a k :
    let k' := with_rev k (pre_state first a (k_rev k)) in
    connect_log (k_rev k') = connect_log (k_rev k) /\ wrap_log (k_rev k') = wrap_log (k_rev k) /\
    client_queue (k_rev k') = client_queue (k_rev k) /\ upstream_history k' = upstream_history k /\
    (is_websocket_upgrade first = false -> k' = k).
  Proof.
    cbn zeta. destruct (pre_state_frame first a (k_rev k)) as (F1 & F2 & F3 & F4 & F5 & F6).
    cbn [with_rev k_rev]. repeat split; try assumption.
    - unfold upstream_history. cbn [with_rev k_rev k_dropped k_received].
      destruct (upstream_ (pre_state first a (k_rev k))) as [o1|], (upstream_ (k_rev k)) as [o|];
        cbn [option_map] in F6; try discriminate; [|reflexivity].
      inversion F6 as [F6']. rewrite F6'. reflexivity.
    - intros Hws. unfold pre_state. rewrite Hws. destruct k; reflexivity.
  Qed.
  (* the statement of Props/C12.v: exact result of on_client_data and what it leaves untouched *)
  Theorem later_no_route_spec cfg (ps : list (plugin pattern)) first a rs k p :
    route_set (k_rev k) = true -> is_http_1_1_keep_alive first = true ->
    (is_websocket_upgrade first = true -> upstream_ (k_rev k) <> None) ->
    r_path (a_req a) = Some p -> utf8_valid p = true ->
    (forall pl, In pl ps -> before_routing pl (a_req a) = Some (a_req a)) ->
    existsb (fun pat => re_match pat p) (routes ps) = false ->
    let k' := if is_websocket_upgrade first then with_rev k (upstream_queue (k_rev k) (a_raw a)) else k in
    web_on_client_data re_match cfg ps first a rs k
    = (k', rs, if is_http_1_1_keep_alive (a_req a) then Ok tt else Err (HttpProtocolException 5)) /\
    connect_log (k_rev k') = connect_log (k_rev k) /\ wrap_log (k_rev k') = wrap_log (k_rev k) /\
    client_queue (k_rev k') = client_queue (k_rev k) /\ upstream_history k' = upstream_history k.
  Proof.
    intros Hrs Hka Hws Hp Hutf Hbr Hn. cbn zeta.
    pose proof (later_no_route cfg ps first a rs k p Hrs Hka Hws Hp Hutf Hbr Hn) as E.
    destruct (pre_state_observables first a k) as (O1 & O2 & O3 & O4 & O5). cbn zeta in *.
    assert (Ek : with_rev k (pre_state first a (k_rev k))
                 = if is_websocket_upgrade first then with_rev k (upstream_queue (k_rev k) (a_raw a)) else k).
    { unfold pre_state in *. destruct (is_websocket_upgrade first); [reflexivity|]. apply O5. reflexivity. }
    rewrite Ek in *. auto.
  Qed.
End ConvFacts.

Lemma socket_host_brackets x : socket_host ([91] ++ x ++ [93]) = x.
Proof.
  unfold socket_host. cbn [app]. rewrite N.eqb_refl.
  assert (E : last (x ++ [93]) 0 = 93) by apply last_last.
  rewrite E, N.eqb_refl. cbn [andb]. apply removelast_last.
Qed.
