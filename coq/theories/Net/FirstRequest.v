(* Model of the FIRST-REQUEST path of a client connection, function by function:
     proxy/http/handler.py          HttpProtocolHandler.handle_data, _parse_first_request,
                                    _discover_plugin_klass, handle_readables, handle_writables,
                                    handle_events, get_events (via the base class)
     proxy/core/base/tcp_server.py  BaseTcpServerHandler.handle_readables / handle_writables / get_events
     proxy/core/connection/connection.py  TcpConnection.queue / flush / has_buffer
   and of what the executor does with the value or exception of handle_events
   (Threadless: `teardown = task.result()`, `except Exception: teardown = True`; threaded
   `run()`: `except Exception` + `finally: shutdown()`).

   The plugin is abstract: on_request_complete and on_client_data are Section variables that
   return what the hook queued for the client and how it ended (value / exception).
   Scope: --enable-proxy-protocol off; send() on the client socket does not fail (short writes
   are modelled, socket errors while flushing belong to C07); plugin constructors and
   klass.protocols() do not raise; the plugin's own descriptors are not ready in the events
   considered (write_to_descriptors / read_from_descriptors report no teardown).
   Definitions only. *)
From PM Require Import Lib.Bytes Lib.PyStr Http.Url Http.Chunk Http.Parser Net.Responses.
From Coq Require Import ZArith.

(* exceptions as the handler distinguishes them: HttpProtocolException (sub)classes, which carry
   a response() method, and everything else caught by `except Exception` *)
Inductive hexn := Proto (e : proto_exn) | Other (e : exn).
(* a bare HttpProtocolException coming from the result-typed parser model is the base class *)
Definition canon (e : hexn) : hexn :=
  match e with
  | Other (HttpProtocolException k) => Proto (PlainProtocol k)
  | _ => e
  end.

Inductive hres (A : Type) := HOk (a : A) | HErr (e : hexn).
Arguments HOk {A} a.
Arguments HErr {A} e.

(* how plugin.on_request_complete() ends *)
Inductive orc_outcome :=
| RetBool (b : bool)
| RetSocket            (* an ssl.SSLSocket: the handler swaps the client socket and goes on *)
| RetOther             (* neither: `assert isinstance(output, ssl.SSLSocket)` fails *)
| OrcRaise (e : hexn).
(* how plugin.on_client_data(raw) ends (its return value is ignored by handle_data) *)
Inductive ocd_outcome := OcdReturn | OcdRaise (e : hexn).

Definition hproto_eqb (x y : hproto) : bool :=
  match x, y with
  | UNKNOWN_PROTO, UNKNOWN_PROTO | WEB_SERVER, WEB_SERVER | HTTP_PROXY, HTTP_PROXY => true
  | _, _ => false
  end.

(* configuration the code reads *)
Record config := {
  agent : bytes;                                 (* PROXY_AGENT_HEADER_VALUE *)
  plugin_klasses : option (list (list hproto));  (* flags.plugins[b'HttpProtocolHandlerPlugin']: protocols() of each class; None = key absent *)
  max_send : N }.                                (* flags.max_sendbuf_size (> 0) *)

(* OSError(k): k = SSL_WANT_READ stands for ssl.SSLWantReadError, which
   HttpProtocolHandler.handle_readables treats as "try again later" *)
Definition SSL_WANT_READ : N := 2.

Record handler := {
  (* attributes of HttpProtocolHandler / BaseTcpServerHandler / TcpConnection *)
  request : parser;
  plugin : option N;            (* index of the instantiated plugin class *)
  buffer : list bytes;          (* work.buffer (has_buffer() <-> non-empty) *)
  must_flush : bool;            (* must_flush_before_shutdown *)
  reads_teared : bool;
  (* the environment *)
  torn : bool;                  (* the executor saw teardown: shutdown() ran, socket closed *)
  sent : bytes;                 (* bytes accepted by the client socket so far *)
  (* ghost history, never read by the code *)
  hq : list (bytes * option proto_exn);  (* packets queued by the handler itself, with the site:
                                            None = a BAD_REQUEST site, Some e = e.response() *)
  pq : list bytes;              (* packets queued by plugin hooks *)
  orc_calls : N;                (* number of on_request_complete invocations *)
  ocd : list bytes;             (* data handed to plugin.on_client_data, in order *)
  parse_calls : N;              (* number of request.parse invocations *)
  exc : option hexn;            (* exception that ended the connection without a response *)
  client_gone : bool }.         (* recv() reported EOF or a socket error *)

Definition mk (rq : parser) pl bf mf rt tn sn hq' pq' oc od pc ex cg : handler :=
  {| request := rq; plugin := pl; buffer := bf; must_flush := mf; reads_teared := rt; torn := tn;
     sent := sn; hq := hq'; pq := pq'; orc_calls := oc; ocd := od; parse_calls := pc; exc := ex;
     client_gone := cg |}.

Definition new_handler : handler :=
  mk (new_parser REQUEST_PARSER) None [] false false false [] [] [] 0 [] 0 None false.

Definition has_buffer (h : handler) : bool := negb (is_nil (buffer h)).

(* work.queue(pkt) by the handler itself *)
Definition queue_h (h : handler) (r : bytes) (site : option proto_exn) : handler :=
  mk (request h) (plugin h) (buffer h ++ [r]) (must_flush h) (reads_teared h) (torn h) (sent h)
     (hq h ++ [(r, site)]) (pq h) (orc_calls h) (ocd h) (parse_calls h) (exc h) (client_gone h).
(* client.queue(pkt) calls made inside a plugin hook *)
Definition queue_p (h : handler) (q : list bytes) : handler :=
  mk (request h) (plugin h) (buffer h ++ q) (must_flush h) (reads_teared h) (torn h) (sent h)
     (hq h) (pq h ++ q) (orc_calls h) (ocd h) (parse_calls h) (exc h) (client_gone h).
Definition set_request (h : handler) (p : parser) : handler :=
  mk p (plugin h) (buffer h) (must_flush h) (reads_teared h) (torn h) (sent h)
     (hq h) (pq h) (orc_calls h) (ocd h) (parse_calls h) (exc h) (client_gone h).
Definition note_parse (h : handler) : handler :=
  mk (request h) (plugin h) (buffer h) (must_flush h) (reads_teared h) (torn h) (sent h)
     (hq h) (pq h) (orc_calls h) (ocd h) (parse_calls h + 1) (exc h) (client_gone h).
Definition set_plugin (h : handler) (k : N) : handler :=
  mk (request h) (Some k) (buffer h) (must_flush h) (reads_teared h) (torn h) (sent h)
     (hq h) (pq h) (orc_calls h) (ocd h) (parse_calls h) (exc h) (client_gone h).
Definition note_orc (h : handler) : handler :=
  mk (request h) (plugin h) (buffer h) (must_flush h) (reads_teared h) (torn h) (sent h)
     (hq h) (pq h) (orc_calls h + 1) (ocd h) (parse_calls h) (exc h) (client_gone h).
Definition note_ocd (h : handler) (d : bytes) : handler :=
  mk (request h) (plugin h) (buffer h) (must_flush h) (reads_teared h) (torn h) (sent h)
     (hq h) (pq h) (orc_calls h) (ocd h ++ [d]) (parse_calls h) (exc h) (client_gone h).
Definition set_must_flush (h : handler) (b : bool) : handler :=
  mk (request h) (plugin h) (buffer h) b (reads_teared h) (torn h) (sent h)
     (hq h) (pq h) (orc_calls h) (ocd h) (parse_calls h) (exc h) (client_gone h).
Definition set_reads_teared (h : handler) (b : bool) : handler :=
  mk (request h) (plugin h) (buffer h) (must_flush h) b (torn h) (sent h)
     (hq h) (pq h) (orc_calls h) (ocd h) (parse_calls h) (exc h) (client_gone h).
Definition set_torn (h : handler) : handler :=
  mk (request h) (plugin h) (buffer h) (must_flush h) (reads_teared h) true (sent h)
     (hq h) (pq h) (orc_calls h) (ocd h) (parse_calls h) (exc h) (client_gone h).
Definition set_exc (h : handler) (e : hexn) : handler :=
  mk (request h) (plugin h) (buffer h) (must_flush h) (reads_teared h) (torn h) (sent h)
     (hq h) (pq h) (orc_calls h) (ocd h) (parse_calls h) (Some e) (client_gone h).
Definition set_client_gone (h : handler) : handler :=
  mk (request h) (plugin h) (buffer h) (must_flush h) (reads_teared h) (torn h) (sent h)
     (hq h) (pq h) (orc_calls h) (ocd h) (parse_calls h) (exc h) true.
Definition set_io (h : handler) (bf : list bytes) (sn : bytes) : handler :=
  mk (request h) (plugin h) bf (must_flush h) (reads_teared h) (torn h) sn
     (hq h) (pq h) (orc_calls h) (ocd h) (parse_calls h) (exc h) (client_gone h).

(* what recv() on the client socket yields when the socket is readable *)
Inductive recv_outcome :=
| Data (d : bytes)     (* non-empty *)
| Eof                  (* b'' : work.recv returns None *)
| RecvErr.             (* ConnectionResetError / TimeoutError / any other socket.error *)

(* one handle_events call as far as the client socket is concerned *)
Record event := {
  ev_w : option N;               (* client writable; send() accepts at most that many bytes *)
  ev_r : option recv_outcome }.  (* client readable; what recv() returns *)

Fixpoint find_index {A} (f : A -> bool) (l : list A) (i : N) : option N :=
  match l with
  | [] => None
  | x :: t => if f x then Some i else find_index f t (i + 1)
  end.

Section Handler.
  Variable cfg : config.
  (* plugin.on_request_complete(): (packets queued for the client, outcome), for plugin class k
     looking at the parsed request *)
  Variable on_request_complete : N -> parser -> list bytes * orc_outcome.
  (* plugin.on_client_data(raw): may depend on everything the plugin saw before *)
  Variable on_client_data : N -> parser -> list bytes -> bytes -> list bytes * ocd_outcome.

  Definition BAD_REQUEST : bytes := BAD_REQUEST_RESPONSE_PKT (agent cfg).

  (* HttpProtocolHandler._discover_plugin_klass *)
  Definition discover_plugin_klass (protocol : hproto) : option N :=
    match plugin_klasses cfg with
    | None => None
    | Some klasses => find_index (fun protos => existsb (hproto_eqb protocol) protos) klasses 0
    end.

  (* HttpProtocolHandler._parse_first_request *)
  Definition parse_first_request (h : handler) (data : bytes) : handler * hres bool :=
    match parse (request h) data with
    | Err (HttpProtocolException k) =>
        (* except HttpProtocolException as e: queue(BAD_REQUEST); raise e *)
        (queue_h (note_parse h) BAD_REQUEST None, HErr (Proto (PlainProtocol k)))
    | Err _ =>
        (* except Exception: queue(BAD_REQUEST); raise HttpProtocolException(...) *)
        (queue_h (note_parse h) BAD_REQUEST None, HErr (Proto (PlainProtocol 3)))
    | Ok p =>
        let h := set_request (note_parse h) p in
        if negb (is_complete p) then (h, HOk false) else
        match http_handler_protocol p with
        | UNKNOWN_PROTO => (queue_h h BAD_REQUEST None, HOk true)
        | proto =>
            match discover_plugin_klass proto with
            | None => (queue_h h BAD_REQUEST None, HOk true)
            | Some k =>
                let h := set_plugin h k in                    (* _initialize_plugin *)
                let '(q, out) := on_request_complete k p in
                let h := note_orc (queue_p h q) in
                match out with
                | RetBool b => (h, HOk b)
                | RetSocket => (h, HOk false)
                | RetOther => (h, HErr (Other AssertionError))
                | OrcRaise e => (h, HErr (canon e))
                end
            end
        end
    end.

  (* self.plugin.on_client_data(raw) for the existing plugin k *)
  Definition call_on_client_data (h : handler) (k : N) (raw : bytes) : handler * hres bool :=
    let '(q, out) := on_client_data k (request h) (ocd h) raw in
    let h1 := queue_p (note_ocd h raw) q in
    match out with
    | OcdReturn => (h1, HOk false)
    | OcdRaise e => (h1, HErr (canon e))
    end.

  (* (fix e222aa4) bytes received after the end of the first request belong to the plugin:
       if self.request.is_complete and self.plugin and self.request.buffer:
           remainder = self.request.buffer; self.request.buffer = None
           self.plugin.on_client_data(remainder) *)
  Definition hand_over_remainder (h : handler) : handler * hres bool :=
    if is_complete (request h) then
      match plugin h with
      | Some k =>
          match Parser.buffer (request h) with
          | Some (x :: t) =>
              let rq := set_buffer_size (request h) None (total_size (request h)) in
              call_on_client_data (set_request h rq) k (x :: t)
          | _ => (h, HOk false)
          end
      | None => (h, HOk false)
      end
    else (h, HOk false).

  (* HttpProtocolHandler.handle_data for data is not None; HOk b = `return b` *)
  Definition handle_data (h : handler) (data : bytes) : handler * hres bool :=
    let '(h1, r) :=
      if negb (is_complete (request h)) then
        match parse_first_request h data with
        | (h1, HOk true) => (h1, HOk true)          (* if self._parse_first_request(data): return True *)
        | (h1, HOk false) => hand_over_remainder h1
        | (h1, HErr e) => (h1, HErr e)
        end
      else
        match plugin h with
        | Some k => call_on_client_data h k data
        | None => (h, HOk false)
        end in
    match r with
    | HErr (Proto e) =>
        (* except HttpProtocolException as e: response = e.response(self.request);
           if response: self.work.queue(response); return True *)
        match exn_response (agent cfg) e with
        | Some (x :: t) => (queue_h h1 (x :: t) (Some e), HOk true)
        | _ =>
            (* no response: the connection is dropped.  (ghost) remembered as the reason of the
               close unless the 400 of _parse_first_request is already queued *)
            ((if is_nil (hq h1) then set_exc h1 (Proto e) else h1), HOk true)
        end
    | HErr (Other e) => (h1, HErr (Other e))
    | HOk b => (h1, HOk b)
    end.

  (* BaseTcpServerHandler.handle_readables once the client is known to be readable *)
  Definition base_handle_readables (h : handler) (r : recv_outcome) : handler * hres bool :=
    match r with
    | RecvErr => (set_client_gone h, HOk true)
    | Eof => (set_client_gone h, HOk true)
    | Data d =>
        match handle_data h d with
        | (h1, HOk true) =>
            if has_buffer h1 then (set_must_flush h1 true, HOk false) else (h1, HOk true)
        | (h1, HOk false) => (h1, HOk false)
        | (h1, HErr e) => (h1, HErr e)
        end
    end.

  (* HttpProtocolHandler.handle_readables *)
  Definition handle_readables (h : handler) (r : option recv_outcome) : handler * hres bool :=
    match r with
    | None => (h, HOk false)
    | Some r =>
        match base_handle_readables h r with
        | (h1, HErr (Other (OSError k))) =>
            if k =? SSL_WANT_READ then (h1, HOk false)             (* except ssl.SSLWantReadError *)
            else (set_exc h1 (Other (OSError k)), HOk true)        (* except socket.error *)
        | x => x
        end
    end.

  (* TcpConnection.flush(max_send_size) when send() accepts at most k bytes *)
  Definition flush (h : handler) (k : N) : handler :=
    match buffer h with
    | [] => h
    | mv :: t =>
        let offered := take (max_send cfg) mv in
        let n := N.min k (len offered) in
        if n =? len mv then set_io h t (sent h ++ take n mv)
        else set_io h (drop n mv :: t) (sent h ++ take n mv)
    end.

  (* HttpProtocolHandler.handle_writables + BaseTcpServerHandler.handle_writables *)
  Definition handle_writables (h : handler) (w : option N) : handler * bool :=
    match w with
    | Some k =>
        if has_buffer h then
          let h1 := flush h k in
          if must_flush h1 && negb (has_buffer h1) then (set_must_flush h1 false, true)
          else (h1, false)
        else (h, false)
    | None => (h, false)
    end.

  (* HttpProtocolHandler.handle_events *)
  Definition handle_events (h : handler) (ev : event) : handler * hres bool :=
    let '(h1, writes_teared) := handle_writables h (ev_w ev) in
    if writes_teared then (h1, HOk true) else
    if reads_teared h1 then (h1, HOk (negb (has_buffer h1))) else
    match handle_readables h1 (ev_r ev) with
    | (h2, HOk b) =>
        let h3 := set_reads_teared h2 b in
        (h3, HOk (b && negb (has_buffer h3)))
    | (h2, HErr e) => (h2, HErr e)
    end.

  (* get_events + the executor: the selector reports the client socket only for what was
     registered (READ unless must_flush_before_shutdown, WRITE when there is a buffer);
     a True result or an exception tears the work down *)
  Definition step (h : handler) (ev : event) : handler :=
    if torn h then h else
    let ev' := {| ev_w := if has_buffer h then ev_w ev else None;
                  ev_r := if must_flush h then None else ev_r ev |} in
    match handle_events h ev' with
    | (h1, HOk true) => set_torn h1
    | (h1, HOk false) => h1
    | (h1, HErr e) => set_torn (set_exc h1 e)
    end.

  Definition run (evs : list event) : handler := fold_left step evs new_handler.

  (* ---------------------------------------------------------------- the four outcomes (+ client gone) *)
  Definition is_none {A} (o : option A) : bool := match o with None => true | Some _ => false end.

  (* keeps waiting for the rest of an incomplete request: nothing queued, nothing sent, open *)
  Definition waiting (h : handler) : bool :=
    is_nil (hq h) && is_nil (pq h) && is_nil (buffer h) && is_nil (sent h) &&
    negb (torn h) && negb (must_flush h) && negb (reads_teared h) &&
    is_none (plugin h) && negb (is_complete (request h)) && (orc_calls h =? 0) && is_nil (ocd h) &&
    is_none (exc h) && negb (client_gone h).

  (* the request is complete, a plugin was created and its on_request_complete ran exactly once
     (the bytes behind the request, if any, were handed to on_client_data in the same call);
     the handler itself queued nothing *)
  Definition serving (h : handler) : bool :=
    negb (is_none (plugin h)) && is_complete (request h) && (orc_calls h =? 1) &&
    is_nil (hq h) && is_none (exc h).

  (* exactly one response queued by the handler, teardown requested *)
  Definition rejected (h : handler) : bool :=
    match hq h with [_] => true | _ => false end &&
    is_none (exc h) && (must_flush h || torn h).

  (* the connection ends without any response of the handler's making: a non-protocol
     exception after parsing, or a protocol exception whose response() is None *)
  Definition closed_no_response (h : handler) : bool :=
    negb (is_none (exc h)) && is_nil (hq h) && (torn h || must_flush h || reads_teared h).

  (* the client went away before its request was complete *)
  Definition client_closed (h : handler) : bool :=
    client_gone h && is_none (plugin h) && is_nil (hq h) && is_none (exc h) && torn h.

  Definition count_true (l : list bool) : nat := length (filter (fun b => b) l).
  Definition outcomes (h : handler) : list bool :=
    [waiting h; serving h; rejected h; closed_no_response h; client_closed h].

  (* the handler no longer reads from the client *)
  Definition no_read (h : handler) : bool := torn h || must_flush h || reads_teared h.

  (* the response of a rejection is the canned 400 or the one the raised exception chose *)
  Definition site_ok (x : bytes * option proto_exn) : Prop :=
    match snd x with
    | None => fst x = BAD_REQUEST
    | Some e => exn_response (agent cfg) e = Some (fst x)
    end.
End Handler.

(* the data events of a list of pieces *)
Definition recv_events (pieces : list bytes) : list event :=
  map (fun d => {| ev_w := None; ev_r := Some (Data d) |}) pieces.
