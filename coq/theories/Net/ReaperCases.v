(* Correspondence relations for C20: the real Threadless._run_forever / _cleanup_inactive loop and the real
   HttpProtocolHandler.run loop around one simulated connection, against Net/Reaper.v. *)
From PM Require Import Lib.Bytes Net.Conn Net.ConnCases Net.Handler Net.Tunnel Net.RelayCases Net.Reaper.
From Coq Require Import ZArith.

(* one loop iteration: the event this work got (if any) and the time (offset from t0) is_inactive() reads *)
(* I = iteration: event, time offset, were tasks left unfinished by _run_once (observed on the real loop) *)
Inductive cit := I (e : option cev) (off : N) (unfinished : bool).
Definition iter_of (t0 : Z) (x : cit) : loop_iter :=
  match x with
  | I e off u => mkIter (match e with Some e => Some (fst (ev_of t0 e)) | None => None end) (t0 + Z.of_N off) u
  end.

Definition pair_eqb (a b : bool * N) : bool := Bool.eqb (fst a) (fst b) && (snd a =? snd b).

Inductive reaper_case :=
(* threadless: per iteration (did the sweep run, fate afterwards); bytes at the client peer and its socket state at the end *)
| CReaperTL (tc : tcfg) (c : cfg) (t0 : Z) (its : list cit) (exp : list (bool * N)) (cout : bytes) (cclosed : bool)
(* threaded: per iteration the fate afterwards; the harness ends run() after the last iteration, so shutdown() always runs *)
| CReaperTH (c : cfg) (t0 : Z) (sel : list (option outcome)) (its : list cit) (exp : list N) (cout : bytes) (cclosed : bool).

Definition check_reaper_case (rc : reaper_case) : bool :=
  match rc with
  | CReaperTL tc c t0 its exp cout cclosed =>
      let '(os, st) := reaper_trace tc c (mkR (init t0) 0 Alive) (map (iter_of t0) its) in
      list_eqb pair_eqb os exp && bytes_eqb (sent (work (r_h st))) cout && Bool.eqb (closed (work (r_h st))) cclosed
  | CReaperTH c t0 sel its exp cout cclosed =>
      let '(os, st) := threaded_trace c sel (mkR (init t0) 0 Alive) (map (iter_of t0) its) in
      let h := match r_fate st with Alive => shutdown c sel (r_h st) | _ => r_h st end in
      list_eqb N.eqb os exp && bytes_eqb (sent (work h)) cout && Bool.eqb (closed (work h)) cclosed
  end.

Definition reaper_model_output (rc : reaper_case) :=
  match rc with
  | CReaperTL tc c t0 its exp cout cclosed =>
      let '(os, st) := reaper_trace tc c (mkR (init t0) 0 Alive) (map (iter_of t0) its) in
      (os, [], sent (work (r_h st)), closed (work (r_h st)))
  | CReaperTH c t0 sel its exp cout cclosed =>
      let '(os, st) := threaded_trace c sel (mkR (init t0) 0 Alive) (map (iter_of t0) its) in
      let h := match r_fate st with Alive => shutdown c sel (r_h st) | _ => r_h st end in
      ([], os, sent (work h), closed (work h))
  end.

Inductive c20_case := ZRelay (c : relay_case) | ZReaper (c : reaper_case).
Definition check_c20_case (c : c20_case) : bool :=
  match c with ZRelay c => check_relay_case c | ZReaper c => check_reaper_case c end.
