(* Net/ConnFacts.v — facts about the TcpConnection model (Conn.v):
   conservation (nothing lost, duplicated or reordered by queue/flush under every send outcome),
   progress and drain. *)
From PM Require Import Lib.Bytes Lib.BytesFacts Net.Conn.

Lemma eff_max_pos max : 0 < eff_max max.
Proof. unfold eff_max. destruct (max =? 0) eqn:E; [reflexivity|]. apply N.eqb_neq in E. lia. Qed.

Lemma take_take_min n m (l : bytes) : n <= m -> take n (take m l) = take n l.
Proof.
  intros H. rewrite !take_firstn. rewrite firstn_firstn. f_equal. lia.
Qed.

Lemma take_all n (l : bytes) : len l <= n -> take n l = l.
Proof. intros H. rewrite take_firstn. unfold len in *. apply firstn_all2. lia. Qed.

Lemma len_take n (l : bytes) : len (take n l) = N.min n (len l).
Proof. rewrite take_firstn. unfold len. rewrite firstn_length. lia. Qed.

Lemma len_app (x y : bytes) : len (x ++ y) = len x + len y.
Proof. unfold len. rewrite app_length. lia. Qed.

Lemma pending_queue mv c : pending (queue mv c) = pending c ++ mv.
Proof. unfold pending, queue; cbn [buffer]. rewrite concat_app. cbn. now rewrite app_nil_r. Qed.

(* the bytes accepted by one send call are a prefix of the head piece *)
Lemma accepted_is_prefix max k (mv : bytes) :
  let n := N.min k (len (take (eff_max max) mv)) in
  take n (take (eff_max max) mv) = take n mv /\ n <= len mv.
Proof.
  cbn zeta. rewrite len_take. split.
  - apply take_take_min. lia.
  - lia.
Qed.

(* ---- conservation *)
Theorem flush_conservation max o c c' r :
  flush max o c = (c', r) -> sent c' ++ pending c' = sent c ++ pending c.
Proof.
  unfold flush, pending. destruct (buffer c) as [|mv rest] eqn:Eb.
  - intros H; inversion H; subst. now rewrite Eb.
  - destruct o as [k| | |]; intros H; inversion H; subst; clear H; try (now rewrite Eb).
    cbn [buffer sent].
    destruct (accepted_is_prefix max k mv) as [Ht Hle]. cbn zeta in Ht, Hle. rewrite Ht.
    set (n := N.min k (len (take (eff_max max) mv))) in *.
    rewrite <- app_assoc. f_equal.
    destruct (n =? len mv) eqn:En.
    + apply N.eqb_eq in En. cbn [concat]. f_equal. apply take_all. lia.
    + cbn [concat]. rewrite app_assoc. f_equal. apply take_drop.
Qed.

Theorem queue_conservation mv c :
  sent (queue mv c) ++ pending (queue mv c) = (sent c ++ pending c) ++ mv.
Proof. rewrite pending_queue. cbn [queue sent]. now rewrite app_assoc. Qed.

Lemma queue_all_conservation mvs c :
  sent (queue_all mvs c) ++ pending (queue_all mvs c) = (sent c ++ pending c) ++ concat mvs.
Proof.
  revert c; induction mvs as [|mv t IH]; intros c; cbn [queue_all concat].
  - now rewrite app_nil_r.
  - rewrite IH, queue_conservation. now rewrite <- app_assoc.
Qed.

Lemma queue_sent mv c : sent (queue mv c) = sent c.
Proof. reflexivity. Qed.

Lemma queue_all_sent mvs c : sent (queue_all mvs c) = sent c.
Proof. revert c; induction mvs as [|mv t IH]; intros c; cbn [queue_all]; [reflexivity|]. now rewrite IH. Qed.

Lemma queue_closed mv c : closed (queue mv c) = closed c.
Proof. reflexivity. Qed.

Lemma queue_all_closed mvs c : closed (queue_all mvs c) = closed c.
Proof. revert c; induction mvs as [|mv t IH]; intros c; cbn [queue_all]; [reflexivity|]. now rewrite IH. Qed.

Lemma queue_all_buffer mvs c : buffer (queue_all mvs c) = buffer c ++ mvs.
Proof.
  revert c; induction mvs as [|mv t IH]; intros c; cbn [queue_all].
  - now rewrite app_nil_r.
  - rewrite IH. cbn [queue buffer]. now rewrite <- app_assoc.
Qed.

(* what has been sent only ever grows at the end, by exactly the returned count *)
Theorem flush_sent_extends max o c c' r :
  flush max o c = (c', r) ->
  exists d, sent c' = sent c ++ d /\
            match r with Flushed n => len d = n | _ => d = [] end.
Proof.
  unfold flush. destruct (buffer c) as [|mv rest] eqn:Eb.
  - intros H; inversion H; subst. exists []. now rewrite app_nil_r.
  - destruct o as [k| | |]; intros H; inversion H; subst; clear H;
      try (exists []; now rewrite app_nil_r).
    cbn [sent]. eexists; split; [reflexivity|].
    rewrite len_take. lia.
Qed.

Lemma flush_error_unchanged max o c c' r :
  flush max o c = (c', r) -> (forall n, r <> Flushed n) -> c' = c.
Proof.
  unfold flush. destruct (buffer c) as [|mv rest]; [intros H; now inversion H|].
  destruct o; intros H Hr; inversion H; subst; try reflexivity.
  exfalso. eapply Hr. reflexivity.
Qed.

Lemma flush_closed max o c c' r : flush max o c = (c', r) -> closed c' = closed c.
Proof.
  unfold flush. destruct (buffer c) as [|mv rest]; [intros H; now inversion H|].
  destruct o; intros H; inversion H; subst; reflexivity.
Qed.

Lemma flush_no_buffer max o c : has_buffer c = false -> flush max o c = (c, Flushed 0).
Proof. unfold has_buffer, flush. destruct (buffer c); [reflexivity|discriminate]. Qed.

(* result of flush is an error exactly when the send outcome is one and a send was attempted *)
Lemma flush_res_error max o c c' r :
  flush max o c = (c', r) ->
  (r = FlushBroken <-> (has_buffer c = true /\ o = Broken)) /\
  (r = FlushOsErr <-> (has_buffer c = true /\ o = OsErr)).
Proof.
  unfold flush, has_buffer. destruct (buffer c) as [|mv rest].
  - intros H; inversion H; subst. split; split; try discriminate; intros [? ?]; discriminate.
  - destruct o; intros H; inversion H; subst; split; split; try discriminate; try (intros [? ?]; discriminate); auto.
Qed.

(* ---- progress *)
Theorem flush_progress max k c c' r mv rest :
  buffer c = mv :: rest -> mv <> [] -> 0 < k ->
  flush max (Accept k) c = (c', r) ->
  (length (sent c) < length (sent c'))%nat.
Proof.
  intros Eb Hmv Hk. unfold flush. rewrite Eb. intros H; inversion H; subst; clear H.
  cbn [sent]. rewrite app_length.
  assert (Hl : 0 < len (take (N.min k (len (take (eff_max max) mv))) (take (eff_max max) mv))).
  { rewrite !len_take. pose proof (eff_max_pos max).
    assert (0 < len mv) by (unfold len; destruct mv; [contradiction|cbn; lia]). lia. }
  unfold len in *. lia.
Qed.

Lemma length_drop n (l : bytes) : length (drop n l) = (length l - N.to_nat n)%nat.
Proof. rewrite drop_skipn. apply skipn_length. Qed.

(* every effective flush strictly decreases bytes + pieces still queued *)
Theorem flush_backlog max o c c' r :
  effective o = true -> has_buffer c = true ->
  flush max o c = (c', r) -> (backlog c' < backlog c)%nat /\ exists n, r = Flushed n.
Proof.
  unfold effective, has_buffer, flush, backlog, pending.
  destruct (buffer c) as [|mv rest] eqn:Eb; [discriminate|].
  destruct o as [k| | |]; try discriminate. intros Hk _ H. apply N.ltb_lt in Hk.
  inversion H; subst; clear H. split; [|eauto]. cbn [buffer].
  set (n := N.min k (len (take (eff_max max) mv))).
  destruct (n =? len mv) eqn:En.
  - cbn [concat length]. rewrite !app_length. lia.
  - apply N.eqb_neq in En. cbn [concat length]. rewrite !app_length, length_drop.
    assert (0 < n).
    { unfold n. rewrite len_take. pose proof (eff_max_pos max).
      assert (len mv <> 0).
      { intros Z. apply En. unfold n. rewrite len_take, Z. lia. }
      lia. }
    assert (n <= len mv) by (unfold n; rewrite len_take; lia).
    unfold len in *. lia.
Qed.

Lemma backlog_zero c : backlog c = 0%nat -> buffer c = [].
Proof. unfold backlog. destruct (buffer c); [reflexivity|cbn; lia]. Qed.

Lemma has_buffer_false c : has_buffer c = false <-> buffer c = [].
Proof. unfold has_buffer. destruct (buffer c); split; congruence. Qed.

Lemma has_buffer_true c : has_buffer c = true <-> buffer c <> [].
Proof. unfold has_buffer. destruct (buffer c); split; congruence. Qed.

(* ---- drain: enough effective flushes empty the buffer, and everything that was queued has then been
   handed to the socket, in order *)
Theorem flush_many_drains max os c :
  forallb effective os = true -> (backlog c <= length os)%nat ->
  exists c', flush_many max os c = (c', Flushed 0) /\ buffer c' = [] /\ sent c' = sent c ++ pending c.
Proof.
  revert c; induction os as [|o t IH]; intros c Heff Hlen.
  - cbn in Hlen. exists c. cbn [flush_many]. split; [reflexivity|].
    assert (Hb : buffer c = []) by (apply backlog_zero; lia).
    split; [exact Hb|]. unfold pending. rewrite Hb. cbn. now rewrite app_nil_r.
  - cbn [forallb] in Heff. apply andb_true_iff in Heff as [Ho Ht]. cbn [flush_many].
    destruct (flush max o c) as [c1 r] eqn:Ef.
    destruct (has_buffer c) eqn:Hb.
    + destruct (flush_backlog _ _ _ _ _ Ho Hb Ef) as [Hlt [n ->]].
      cbn [length] in Hlen.
      destruct (IH c1 Ht ltac:(lia)) as [c' [H1 [H2 H3]]].
      exists c'. split; [exact H1|]. split; [exact H2|].
      rewrite H3. apply (flush_conservation _ _ _ _ _ Ef).
    + rewrite (flush_no_buffer _ _ _ Hb) in Ef. inversion Ef; subst.
      assert (Hbl : backlog c1 = 0%nat).
      { apply has_buffer_false in Hb. unfold backlog, pending. rewrite Hb. reflexivity. }
      destruct (IH c1 Ht ltac:(lia)) as [c' [H1 [H2 H3]]].
      exists c'. auto.
Qed.

(* flush_many in general: conservation, and if it returns normally nothing was lost *)
Theorem flush_many_conservation max os c c' r :
  flush_many max os c = (c', r) -> sent c' ++ pending c' = sent c ++ pending c.
Proof.
  revert c; induction os as [|o t IH]; intros c; cbn [flush_many].
  - intros H; inversion H; now subst.
  - destruct (flush max o c) as [c1 r1] eqn:Ef. pose proof (flush_conservation _ _ _ _ _ Ef) as Hc.
    destruct r1; intros H.
    + rewrite (IH _ H). exact Hc.
    + inversion H; subst. exact Hc.
    + inversion H; subst. exact Hc.
Qed.

(* ---- the op-list runner used by the correspondence: the invariant along every op list *)
Definition queued_by (ops : list conn_op) : bytes :=
  concat (map (fun op => match op with OQueue mv => mv | _ => [] end) ops).

Theorem conn_run_conservation ops c c' obs :
  conn_run c ops = (c', obs) -> sent c' ++ pending c' = (sent c ++ pending c) ++ queued_by ops.
Proof.
  revert c c' obs; induction ops as [|op t IH]; intros c c' obs; cbn [conn_run].
  - intros H; inversion H; subst. unfold queued_by; cbn. now rewrite app_nil_r.
  - destruct (conn_step c op) as [c1 o1] eqn:Es.
    destruct (conn_run c1 t) as [c2 os] eqn:Er. intros H; inversion H; subst; clear H.
    rewrite (IH _ _ _ Er). unfold queued_by; cbn [map concat]. fold (queued_by t).
    rewrite app_assoc. f_equal.
    destruct op as [mv|max o|]; cbn [conn_step] in Es.
    + inversion Es; subst. apply queue_conservation.
    + destruct (flush max o c) as [cf rf] eqn:Ef. inversion Es; subst.
      rewrite app_nil_r. apply (flush_conservation _ _ _ _ _ Ef).
    + inversion Es; subst. now rewrite app_nil_r.
Qed.
