(* C12, later requests of a client connection — connection-level model on top of Net/Reverse.v.
   Definitions only; lemmas are in ReverseConvFacts.v.

   Net/Reverse.v models what happens to the FIRST request of a client connection
   (HttpWebServerPlugin.on_request_complete -> ReverseProxy.handle_request).  Every later request of
   the same connection takes another way through the code:

     HttpProtocolHandler.handle_data            (http/handler.py)   self.plugin.on_client_data(data)
     HttpWebServerPlugin.on_client_data         (http/server/web.py)
        self.route.on_client_data(self.request, raw)                 ReverseProxy.on_client_data
        if self.request.is_complete and self.request.is_http_1_1_keep_alive and self.route is not None:
            self.pipeline_request.parse(data); if complete: self.route.handle_request(self.pipeline_request)
            if not self.pipeline_request.is_http_1_1_keep_alive: raise HttpProtocolException
     ReverseProxy.handle_request                (http/server/reverse.py)  THE SAME function as for the first request,
        now started in the state the previous request left: it calls initialize_upstream again, i.e.
        self.upstream = TcpServerConnection(host, port) REPLACES the previous upstream object, which is
        dropped without close() (recorded findings C04-reverse-followup / C10-reverse-upstream-replacement;
        modelled as it is, not judged here).
     TcpUpstreamConnectionHandler.write_to_descriptors / read_from_descriptors (core/base/tcp_upstream.py)
        only ever look at the CURRENT self.upstream.

   There is no _try_route for a later request: whatever its path, it is handed to self.route (the
   ReverseProxy); a later request that matches no route gets no 404 and no answer at all
   (finding C04-web-followup-route).

   What is data here (beside what Net/Reverse.v lists):
   * a later request arrives in ONE segment [a_raw] after the previous exchange is over, and
     HttpParser.parse makes the complete request [a_req] of it with nothing left over (the parser is
     modelled in Http/Parser.v; here its result is an input, as for the first request);
   * per request the outcome of the connect / TLS wrap it may cause and what the upstream's recv()
     returns afterwards;
   * every send to an upstream socket is accepted in full (short writes / send errors are C01's). *)
From PM Require Import Lib.Bytes Lib.PyStr Net.Reverse.
Open Scope N_scope.

(* ------------------------------------------------------------------ HttpParser properties used by web.py *)
Definition HTTP_1_1 : bytes := bs "HTTP/1.1".

(* parser.py is_http_1_1_keep_alive:
   version == HTTP_1_1 and (not has_header(b'Connection') or header(b'Connection').lower() == b'keep-alive')
   (has_header(k) is `k.lower() in self.headers`, header(k) is `self.headers[k.lower()][1]`) *)
Definition is_http_1_1_keep_alive (r : request) : bool :=
  bytes_eqb (r_version r) HTTP_1_1 &&
  match dict_get (bs "connection") (r_headers r) with
  | None => true
  | Some nv => bytes_eqb (lower (snd nv)) (bs "keep-alive")
  end.

(* parser.py is_connection_upgrade / is_websocket_upgrade *)
Definition is_connection_upgrade (r : request) : bool :=
  bytes_eqb (r_version r) HTTP_1_1 && dict_has (bs "connection") (r_headers r) && dict_has (bs "upgrade") (r_headers r).
Definition is_websocket_upgrade (r : request) : bool :=
  is_connection_upgrade r &&
  match dict_get (bs "upgrade") (r_headers r) with
  | Some nv => bytes_eqb (lower (snd nv)) (bs "websocket") || bytes_eqb (lower (snd nv)) (bs "derp")
  | None => false
  end.

(* ------------------------------------------------------------------ state of the connection *)
(* [k_rev] is the state of Net/Reverse.v (ReverseProxy.choice, .upstream = the CURRENT upstream object with the
   pieces queued on it and not yet sent, client queue log, connect log, wrap log, route_set).
   Added: what the peer of the current upstream object has received so far, and the upstream objects that
   initialize_upstream replaced — each as it was when it was dropped (address, unsent buffer, connected) together
   with what its peer had received.  Nothing in the code refers to a dropped object again: it is never flushed,
   read or closed. *)
Record conn := mkConn {
  k_rev : state;
  k_received : list bytes;
  k_dropped : list (upstream * list bytes) }.

Definition init_conn : conn := mkConn init_state [] [].
Definition with_rev (k : conn) (st : state) : conn := mkConn st (k_received k) (k_dropped k).

(* one later request of the connection and what follows it *)
Record arrival := mkArr {
  a_raw : bytes;                   (* the segment as handed to on_client_data *)
  a_req : request;                 (* what HttpParser.parse makes of it: a complete request, nothing left over *)
  a_co : conn_outcome;             (* outcome of the outbound connect this request may cause *)
  a_wo : result unit;              (* ... of the TLS wrap *)
  a_reads : list recv_outcome }.   (* what the upstream's recv() returns afterwards, one handle_events call each *)

(* TcpConnection.flush on the current upstream, repeated until has_buffer() is false (each call sends one queued
   piece; the descriptor stays in the writable set while has_buffer()): the buffer is emptied *)
Definition clear_up_buffer (st : state) : state :=
  mkState (choice st)
          (match upstream_ st with Some u => Some (mkUp (up_addr u) [] (up_external u) (up_connected u)) | None => None end)
          (client_queue st) (connect_log st) (wrap_log st) (orphans st) (route_set st).

(* TcpUpstreamConnectionHandler.write_to_descriptors; [ready] = the upstream descriptor is in the writable set *)
Definition write_to_descriptors (ready : bool) (k : conn) : conn :=
  match upstream_ (k_rev k) with
  | None => k
  | Some u =>
      match up_buffer u with
      | [] => k                                                      (* not has_buffer() *)
      | _ :: _ => if ready
                  then mkConn (clear_up_buffer (k_rev k)) (k_received k ++ up_buffer u) (k_dropped k)
                  else k
      end
  end.

(* Net/Reverse.v's with_upstream logs in [orphans] every replacement of an upstream object that nobody else
   refers to; [absorb k st'] files the replaced object (with what its peer had received) when the call that led
   from [k_rev k] to [st'] made such a replacement, and starts the new object's peer with nothing received *)
Definition replaced (st st' : state) : bool := negb (Nat.eqb (length (orphans st')) (length (orphans st))).

Definition absorb (k : conn) (st' : state) : conn :=
  match upstream_ (k_rev k) with
  | Some old => if replaced (k_rev k) st'
                then mkConn st' [] (k_dropped k ++ [(old, k_received k)])
                else with_rev k st'
  | None => with_rev k st'
  end.

(* ReverseProxy.on_client_data(request, raw) — [first] is self.request of the web plugin, the FIRST request *)
Definition reverse_on_client_data (first : request) (raw : bytes) (st : state) : state * result unit :=
  if is_websocket_upgrade first then
    match upstream_ st with
    | None => (st, Err AssertionError)                 (* assert self.upstream *)
    | Some _ => (upstream_queue st raw, Ok tt)         (* self.upstream.queue(raw) *)
    end
  else (st, Ok tt).

Section Conversation.
  Variable pattern : Type.
  Variable re_match : pattern -> bytes -> bool.

  (* HttpWebServerPlugin.on_client_data(raw) for a segment that is one complete request.
     switched_protocol stays None (ReverseProxy.do_upgrade is False).  The keep-alive test on the pipelined
     request is made AFTER route.handle_request; it reads version and headers only, which handle_request
     (request.path = ...) does not touch. *)
  Definition web_on_client_data (cfg : config) (ps : list (plugin pattern)) (first : request) (a : arrival)
             (rs : list nat) (k : conn) : conn * list nat * result unit :=
    if negb (route_set (k_rev k)) then (k, rs, Ok tt) else            (* self.route is None *)
    match reverse_on_client_data first (a_raw a) (k_rev k) with
    | (st1, Err e) => (with_rev k st1, rs, Err e)
    | (st1, Ok _) =>
        let k1 := with_rev k st1 in
        if is_http_1_1_keep_alive first then                          (* self.request.is_complete holds *)
          match handle_request re_match cfg ps (a_co a) (a_wo a) (a_req a) rs st1 with
          | (st2, rs2, Err e) => (absorb k1 st2, rs2, Err e)
          | (st2, rs2, Ok _) =>
              if is_http_1_1_keep_alive (a_req a) then (absorb k1 st2, rs2, Ok tt)
              else (absorb k1 st2, rs2, Err (HttpProtocolException 5))  (* 'Pipelined request is not keep-alive, ...' *)
          end
        else (k1, rs, Ok tt)                                          (* later bytes are not parsed at all *)
    end.

  (* the rest of an exchange: the request queued on the current upstream is flushed, then the upstream's
     answer is read (Net/Reverse.v read_all: every segment is queued to the client) *)
  Definition after_request (a : arrival) (k : conn) : conn * result bool :=
    let k1 := write_to_descriptors true k in
    let '(st', r) := read_all (a_reads a) (k_rev k1) in (with_rev k1 st', r).

  (* one later request; result Ok false = the connection goes on, Ok true = teardown requested.
     (HttpProtocolHandler.handle_data turns an HttpProtocolException into teardown; other exceptions escape) *)
  Definition later_request (cfg : config) (ps : list (plugin pattern)) (first : request) (a : arrival)
             (rs : list nat) (k : conn) : conn * list nat * result bool :=
    match web_on_client_data cfg ps first a rs k with
    | (k1, rs1, Err e) => (k1, rs1, Err e)
    | (k1, rs1, Ok _) => let '(k2, r) := after_request a k1 in (k2, rs1, r)
    end.

  Fixpoint later_requests (cfg : config) (ps : list (plugin pattern)) (first : request) (l : list arrival)
           (rs : list nat) (k : conn) : conn * list nat * result bool :=
    match l with
    | [] => (k, rs, Ok false)
    | a :: rest =>
        match later_request cfg ps first a rs k with
        | (k1, rs1, Ok false) => later_requests cfg ps first rest rs1 k1
        | other => other
        end
    end.

  (* a whole client connection: the first request through on_request_complete (Net/Reverse.v), then the later
     ones, each arriving after the previous exchange is over *)
  Definition conversation (cfg : config) (ps : list (plugin pattern)) (a0 : arrival) (l : list arrival)
             (rs : list nat) : conn * list nat * result bool :=
    match on_request_complete re_match cfg ps (a_co a0) (a_wo a0) (a_req a0) rs init_state with
    | (st, rs1, Ok false) =>
        match after_request a0 (mkConn st [] []) with
        | (k1, Ok false) => later_requests cfg ps (a_req a0) l rs1 k1
        | (k1, r) => (k1, rs1, r)
        end
    | (st, rs1, r) => (mkConn st [] [], rs1, r)
    end.
End Conversation.

Arguments web_on_client_data {pattern} re_match cfg ps first a rs k.
Arguments later_request {pattern} re_match cfg ps first a rs k.
Arguments later_requests {pattern} re_match cfg ps first l rs k.
Arguments conversation {pattern} re_match cfg ps a0 l rs.

(* ------------------------------------------------------------------ observables *)
(* every upstream object the connection has had, in creation order: its address and what its peer received *)
Definition upstream_history (k : conn) : list ((bytes * N) * list bytes) :=
  map (fun e => (up_addr (fst e), snd e)) (k_dropped k)
  ++ match upstream_ (k_rev k) with Some u => [(up_addr u, k_received k)] | None => [] end.

(* ... and, for the correspondence, the byte stream received by every upstream SOCKET (objects whose connect()
   succeeded, or that a plugin handed over connected), in creation order *)
Definition socket_streams (k : conn) : list bytes :=
  map (fun e => concat (snd e)) (filter (fun e => up_connected (fst e)) (k_dropped k))
  ++ match upstream_ (k_rev k) with
     | Some u => if up_connected u then [concat (k_received k)] else []
     | None => []
     end.

(* utils.py new_socket_connection, lines 268-270: IPv6 literals are bracketed in URLs (and in the address of the
   TcpServerConnection, which is what connect_log records) but not for the socket layer *)
Definition socket_host (h : bytes) : bytes :=
  match h with
  | x :: t => if (x =? 91) && (last t 0 =? 93) then removelast t else h
  | [] => h
  end.
Definition socket_addr (a : bytes * N) : bytes * N := (socket_host (fst a), snd a).

(* ------------------------------------------------------------------ specification side *)
(* what a request is routed to: the route that serves it and the upstream URL that route designates *)
Record target (pattern : Type) := mkTarget { t_route : route pattern; t_url : url }.
Arguments mkTarget {pattern} t_route t_url.
Arguments t_route {pattern} t.
Arguments t_url {pattern} t.

(* (host, port defaulted by scheme) of the URL, as handed to TcpServerConnection *)
Definition url_addr (u : url) : bytes * N := (opt_bytes (u_hostname u), upstream_port u).

(* the payloads of the RData entries of a read script *)
Definition data_of (os : list recv_outcome) : list bytes :=
  flat_map (fun o => match o with RData b => [b] | _ => [] end) os.

(* the upstream's TLS server name, when the URL's scheme is https *)
Definition wrap_of (u : url) : list bytes := if scheme_is u HTTPS_PROTO then [opt_bytes (u_hostname u)] else [].

(* Request [a], arriving when the draws left are [rs], is routed to target [t]: it has a decodable non-empty
   path, [t_route t] is the FIRST route of the table matching it and designates [t_url t] (for the draw that is
   next), URL and request are well-formed, the plugin keeps the default before_routing, the connect and the TLS
   wrap succeed, and what follows is the upstream's answer in any number of segments. *)
Definition routed_one {pattern} (re_match : pattern -> bytes -> bool) (pl : plugin pattern)
           (a : arrival) (t : target pattern) (rs : list nat) : Prop :=
  (exists p, r_path (a_req a) = Some p /\ truthy p = true /\ utf8_valid p = true /\
             first_match re_match p (p_routes pl) = Some (t_route t)) /\
  before_routing pl (a_req a) = Some (a_req a) /\
  selects (t_route t) (a_req a) (hd O rs) (t_url t) /\
  wf_url (t_url t) = true /\ wf_request (a_req a) = true /\
  a_co a = ConnOk /\ a_wo a = Ok tt /\ a_reads a = map RData (data_of (a_reads a)).

(* request k of the list (k = 0 is the first request of the connection) is routed to target k; the draws left
   are threaded through the list *)
Fixpoint routed {pattern} (re_match : pattern -> bytes -> bool) (pl : plugin pattern)
         (l : list arrival) (ts : list (target pattern)) (rs : list nat) : Prop :=
  match l, ts with
  | [], [] => True
  | a :: l', t :: ts' =>
      routed_one re_match pl a t rs /\ routed re_match pl l' ts' (draws_after (t_route t) rs)
  | _, _ => False
  end.

(* history entry [e] is the upstream that request [a], routed to [t], was served by: its address is (host, port
   defaulted by scheme) of the URL and its peer received exactly one packet, which a reference HTTP/1.1 reader
   sees as the client's request under the documented rewriting (Net/Reverse.v [forwarded]) *)
Definition served {pattern} (cfg : config) (a : arrival) (t : target pattern) (e : (bytes * N) * list bytes) : Prop :=
  exists h wire, u_hostname (t_url t) = Some h /\ e = ((h, upstream_port (t_url t)), [wire]) /\
                 ref_parse wire = Some (forwarded cfg (t_url t) (a_req a)).

Fixpoint served_all {pattern} (cfg : config) (l : list arrival) (ts : list (target pattern))
         (hist : list ((bytes * N) * list bytes)) : Prop :=
  match l, ts, hist with
  | [], [], [] => True
  | a :: l', t :: ts', e :: hist' => served cfg a t e /\ served_all cfg l' ts' hist'
  | _, _, _ => False
  end.
