(* Net/ConversationFacts.v — facts about the conversation model (Net/Conversation.v):
   1. parser level: headers only grow while a message is parsed; the relation "this parser needs
      exactly the bytes r to complete message m" ([Pending]) is kept by every way of cutting r;
   2. the pipelining loop shared by server.py and web.py serves every request of a stream of
      well-formed requests exactly once, in order, whatever the segment boundaries ([loop_segment]);
   3. the forward proxy and the web server under every packing and every interleaving with
      upstream data, for conversations whose requests all name the first request's origin / route;
   4. the specification of C04 in full ([C04_holds]) and the witnesses that refute it outside that
      class. *)
From PM Require Import Lib.Bytes Lib.BytesFacts Lib.PyStr Lib.PyStrFacts Http.Url Http.Chunk Http.Parser
  Http.ChunkFacts Http.ParserFacts Http.Builders Net.Conversation Net.ConversationCases.
From Coq Require Import ZArith Lia.

Notation AL := DEFAULT_ALLOWED_URL_SCHEMES (only parsing).

(* ======================================================================================
   1a. headers only grow
   ====================================================================================== *)
Definition hhas (p : parser) (k : bytes) : bool :=
  match headers p with Some d => dict_has k d | None => false end.

Lemma has_header_hhas p k : has_header p k = hhas p (lower k).
Proof. reflexivity. Qed.

Lemma dict_has_set {V} k k' (v : V) d : dict_has k (dict_set k' v d) = bytes_eqb k k' || dict_has k d.
Proof.
  unfold dict_has. destruct (bytes_eqb k k') eqn:E.
  - apply bytes_eqb_eq in E. subst k'. rewrite dict_get_set_same. reflexivity.
  - rewrite dict_get_set_other by exact E. reflexivity.
Qed.

Lemma dict_has_del_other {V} k k' (d : dict V) : bytes_eqb k k' = false -> dict_has k (dict_del k' d) = dict_has k d.
Proof.
  intros N. unfold dict_has. induction d as [|[k0 v0] t IH]; cbn [dict_del dict_get]; [reflexivity|].
  destruct (bytes_eqb k' k0) eqn:E.
  - apply bytes_eqb_eq in E. subst k0. rewrite N. reflexivity.
  - cbn [dict_get]. destruct (bytes_eqb k k0); [reflexivity|exact IH].
Qed.

Lemma hhas_add p key value ch ce k :
  hhas p k = true -> hhas (set_headers p (Some (add_header_d (headers p) key value)) ch ce) k = true.
Proof.
  unfold hhas. cbn [headers set_headers]. unfold add_header_d.
  destruct (headers p) as [d|]; [|discriminate]. intros H. rewrite dict_has_set, H. apply orb_true_r.
Qed.

Lemma process_header_mono p raw p' k : process_header p raw = Ok p' -> hhas p k = true -> hhas p' k = true.
Proof.
  rewrite process_header_eq. cbv zeta. intros H K.
  destruct (bytes_eqb _ CONTENT_LENGTH).
  - destruct (int10 _); cbn [bind] in H; [|discriminate]. inv_ok H. apply hhas_add, K.
  - destruct (_ && _); inv_ok H; apply hhas_add, K.
Qed.

Lemma hdr_step_mono p line p' k : hdr_step p line = Ok p' -> hhas p k = true -> hhas p' k = true.
Proof.
  unfold hdr_step. destruct (_ || _); [|intros H; inv_ok H; tauto].
  destruct (match strip line with [] => true | _ => false end).
  - intros H; inv_ok H. tauto.
  - intros H K. eapply process_header_mono; [exact H|exact K].
Qed.

Lemma PH_mono k : forall p raw, hhas p k = true ->
  match PH p raw with Ok (_, _, p') => hhas p' k = true | Err _ => True end.
Proof.
  apply (PH_ind (fun p raw res => hhas p k = true ->
    match res with Ok (_, _, p') => hhas p' k = true | Err _ => True end)).
  - intros; assumption.
  - intros; exact I.
  - intros p raw line rest p' _ Hp _ K. eapply hdr_step_mono; eassumption.
  - intros p raw line rest p' _ Hp _ _ IH K. apply IH. eapply hdr_step_mono; eassumption.
Qed.

Lemma maybe_complete_hhas p raw k : hhas (maybe_complete p raw) k = hhas p k.
Proof. unfold maybe_complete. destruct (_ && _); reflexivity. Qed.

Lemma proc_mono al p raw m r p' k : pinv p -> state p <> COMPLETE ->
  proc al p raw = Ok (m, r, p') -> hhas p k = true -> hhas p' k = true.
Proof.
  intros I N E K. destruct (state_cases p I N) as [S|[S|[S4 S6]]].
  - rewrite proc_line in E by exact S. apply process_line_result in E.
    inversion E; subst; exact K.
  - rewrite proc_headers in E by exact S. pose proof (PH_mono k p raw K) as H. rewrite E in H. exact H.
  - rewrite proc_body in E by exact S4. apply process_body_fields in E.
    destruct E as (_ & Hh & _). unfold hhas in *. rewrite Hh. exact K.
Qed.

Lemma PL_mono al k : forall m p raw, pinv p -> hhas p k = true ->
  match PL al m p raw with Ok (_, p') => hhas p' k = true | Err _ => True end.
Proof.
  apply (PL_ind al (fun m p raw res => hhas p k = true ->
    match res with Ok (_, p') => hhas p' k = true | Err _ => True end)).
  - intros; assumption.
  - intros; exact I.
  - intros p raw m' r p' I N E I' IH K. apply IH. rewrite maybe_complete_hhas.
    exact (proc_mono al p raw m' r p' k I N E K).
Qed.

(* HttpParser.parse never removes a header *)
Lemma parse_with_mono al p raw p' k : parser_inv p -> parse_with al p raw = Ok p' ->
  hhas p k = true -> hhas p' k = true.
Proof.
  intros (I & _) H K. rewrite parse_with_alt in H by exact I.
  pose proof (PL_mono al k (nz raw) p (bufb p ++ raw) I K) as M.
  destruct (PL al (nz raw) p (bufb p ++ raw)) as [[r q]|e]; cbn [bind] in H; [|discriminate].
  inv_ok H. exact M.
Qed.

(* ======================================================================================
   1b. a parser in the middle of a message
   ====================================================================================== *)
Definition is_req (m : message) : Prop := msg_type m = REQUEST_PARSER.

(* the request as parsed, nothing following it *)
Definition rq0 (m : message) : parser := expected m [].

Lemma expected_sbs m tail : expected m tail = set_buffer_size (rq0 m) (optb tail) (len (render m ++ tail)).
Proof. reflexivity. Qed.

Lemma render_nonempty m : render m <> [].
Proof.
  unfold render. intros H. apply app_eq_nil in H. destruct H as (_ & H). discriminate H.
Qed.

Lemma concat_render_nil ms : concat (map render ms) = [] -> ms = [].
Proof.
  destruct ms as [|m t]; [reflexivity|]. cbn [map concat]. intros H.
  apply app_eq_nil in H. destruct H as (H & _). exfalso. exact (render_nonempty m H).
Qed.

Lemma tail_ok_req m tail : is_req m -> tail_ok m tail.
Proof. unfold is_req, msg_type, tail_ok. destruct (m_start m); [intros _; destruct (m_framing m); exact I|discriminate]. Qed.

(* no header of the message is called Upgrade (any case) *)
Definition L_UPGRADE := lower K_UPGRADE.
Definition no_upgrade (m : message) : Prop :=
  Forall (fun nv : hdr => lower (fst nv) <> L_UPGRADE) (all_hdrs m).

Lemma dict_has_add_all k : forall hs h,
  dict_has k (unopt (add_all h hs)) = dict_has k (unopt h) || existsb (fun nv : hdr => bytes_eqb k (lower (fst nv))) hs.
Proof.
  induction hs as [|nv t IH]; intros h; cbn [add_all fold_left existsb].
  - rewrite orb_false_r. reflexivity.
  - change (fold_left _ t ?x) with (add_all x t). rewrite IH. cbn [unopt]. unfold add_header_d.
    rewrite dict_has_set. fold (unopt h). rewrite orb_assoc. f_equal. apply orb_comm.
Qed.

Lemma expected_no_upgrade m tail : no_upgrade m -> hhas (expected m tail) L_UPGRADE = false.
Proof.
  intros H. unfold hhas. rewrite expected_headers.
  change (match add_all None (all_hdrs m) with Some d => dict_has L_UPGRADE d | None => false end)
    with (match add_all None (all_hdrs m) with Some d => dict_has L_UPGRADE d | None => false end).
  assert (G : dict_has L_UPGRADE (unopt (add_all None (all_hdrs m))) = false).
  { rewrite dict_has_add_all. cbn [unopt dict_has dict_get orb].
    unfold no_upgrade in H. induction H as [|nv t Hn _ IH]; [reflexivity|]. cbn [existsb]. rewrite IH, orb_false_r.
    destruct (bytes_eqb L_UPGRADE (lower (fst nv))) eqn:E; [|reflexivity].
    apply bytes_eqb_eq in E. exfalso. apply Hn. symmetry. exact E. }
  destruct (add_all None (all_hdrs m)); [exact G|reflexivity].
Qed.

(* [Pending p m r]: p is a request parser in the middle of message m; exactly the bytes r are
   missing; whatever follows them is left in the buffer *)
Definition Pending (p : parser) (m : message) (r : bytes) : Prop :=
  r <> [] /\ parser_inv p /\ state p <> COMPLETE /\ hhas p L_UPGRADE = false /\
  forall tail, parse p (r ++ tail) = Ok (expected m tail).

Lemma Pending_new m : message_ok AL m -> is_req m -> Pending (new_parser REQUEST_PARSER) m (render m).
Proof.
  intros Hm Hr. split; [apply render_nonempty|]. split; [apply parser_inv_new|].
  split; [discriminate|]. split; [reflexivity|].
  intros tail. unfold parse. rewrite <- Hr. apply complete_at_end; [exact Hm|apply tail_ok_req, Hr].
Qed.

Lemma Pending_short p m a r' : no_upgrade m -> Pending p m (a ++ r') -> r' <> [] ->
  exists p', parse p a = Ok p' /\ Pending p' m r'.
Proof.
  intros NU (_ & PI & NC & NH & W) Hr.
  pose proof (W []) as W0. rewrite app_nil_r in W0. unfold parse in W0.
  pose proof (two_piece_gen AL p a r' _ PI W0 (framed_expected m [])) as L.
  unfold parse. destruct (parse_with AL p a) as [p1|e] eqn:E; cbn [bind] in L; [|discriminate].
  exists p1. split; [reflexivity|].
  assert (PI1 : parser_inv p1) by (eapply parse_with_inv; eassumption).
  split; [exact Hr|]. split; [exact PI1|]. split.
  - intros C. rewrite (parse_with_complete_absorbs AL p1 r' PI1 C) in L.
    apply (f_equal (fun x => match x with Ok q => buffer q | Err _ => None end)) in L.
    cbn [buffer set_buffer_size] in L. rewrite expected_buffer in L. cbn [optb] in L.
    destruct (bufb p1 ++ r') eqn:X; [apply app_eq_nil in X; tauto|discriminate].
  - split.
    + destruct (hhas p1 L_UPGRADE) eqn:K; [|reflexivity].
      pose proof (parse_with_mono AL p1 r' _ L_UPGRADE PI1 L K) as M.
      rewrite (expected_no_upgrade m [] NU) in M. discriminate.
    + intros tail. pose proof (W tail) as Wt. rewrite <- app_assoc in Wt. unfold parse in Wt.
      pose proof (two_piece_gen AL p a (r' ++ tail) _ PI Wt (framed_expected m tail)) as Lt.
      rewrite E in Lt. cbn [bind] in Lt. unfold parse. exact Lt.
Qed.

(* a segment against a parser in the middle of m: either m stays incomplete, or it completes and
   the rest of the segment [l] is left in the buffer *)
Lemma pending_split p m r seg rest X : no_upgrade m -> Pending p m r -> seg ++ rest = r ++ X ->
  (exists p' r', parse p seg = Ok p' /\ Pending p' m r' /\ rest = r' ++ X /\ r = seg ++ r') \/
  (exists l, parse p seg = Ok (expected m l) /\ X = l ++ rest /\ seg = r ++ l).
Proof.
  intros NU Pd E. apply app_eq_app in E. destruct E as (l & [(E1 & E2)|(E1 & E2)]).
  - right. exists l. subst seg. destruct Pd as (_ & _ & _ & _ & W). split; [apply W|]. split; [exact E2|reflexivity].
  - destruct l as [|y l'].
    + right. exists []. rewrite app_nil_r in E1. subst r. destruct Pd as (_ & _ & _ & _ & W).
      pose proof (W []) as W0. rewrite app_nil_r in W0. split; [exact W0|]. split; [cbn; symmetry; exact E2|].
      rewrite app_nil_r. reflexivity.
    + left. subst r. destruct (Pending_short p m seg (y :: l') NU Pd) as (p' & Ea & Pd'); [discriminate|].
      exists p', (y :: l'). split; [exact Ea|]. split; [exact Pd'|]. split; [exact E2|reflexivity].
Qed.

(* ======================================================================================
   2. the pipelining loop over a stream of well-formed requests
   ====================================================================================== *)
Lemma set_pipeline_twice a b s : set_pipeline a (set_pipeline b s) = set_pipeline a s.
Proof. reflexivity. Qed.

Lemma is_complete_expected m tail : is_complete (expected m tail) = true.
Proof. unfold is_complete. rewrite expected_state. reflexivity. Qed.

Lemma not_complete_false p : state p <> COMPLETE -> is_complete p = false.
Proof. intros H. unfold is_complete. apply N.eqb_neq. exact H. Qed.

(* what is still to come on the connection: [ms] are the requests not yet served, the first of them
   possibly half received by the parser [po]; [stream] are the bytes the client has yet to send *)
Definition Carry (po : option parser) (ms : list message) (stream : bytes) : Prop :=
  match po with
  | None => stream = concat (map render ms)
  | Some p => exists m ms' r, ms = m :: ms' /\ Pending p m r /\ stream = r ++ concat (map render ms')
  end.

Lemma Carry_end po ms : Carry po ms [] -> po = None /\ ms = [].
Proof.
  destruct po as [p|]; cbn [Carry].
  - intros (m & ms' & r & _ & (Hr & _) & E). symmetry in E. apply app_eq_nil in E. tauto.
  - intros E. split; [reflexivity|]. apply concat_render_nil. symmetry. exact E.
Qed.

Section PipelineLoop.
  Variable round : hstate -> bytes -> hstate * result (option bytes).
  Variable oc : hstate -> parser -> hstate * result (option parser).
  Variable okm : message -> Prop.
  Variable act : hstate -> message -> hstate.
  Variable G : hstate -> Prop.

  Hypothesis round_eq : forall s raw, G s ->
    (forall p, pipeline_request s = Some p -> hhas p L_UPGRADE = false) ->
    round s raw = pipeline_round oc s raw.
  Hypothesis oc_spec : forall s m tail, G s -> okm m -> oc s (expected m tail) = (act s m, Ok None).
  Hypothesis G_act : forall s m, G s -> okm m -> G (act s m).
  Hypothesis G_pipe : forall s po, G s -> G (set_pipeline po s).
  Hypothesis act_pipe : forall s po m, act (set_pipeline po s) m = set_pipeline po (act s m).

  Definition msg_ok (m : message) : Prop := message_ok AL m /\ is_req m /\ no_upgrade m /\ okm m.

  Lemma fold_act_pipe l : forall s po, fold_left act l (set_pipeline po s) = set_pipeline po (fold_left act l s).
  Proof. induction l as [|m t IH]; intros s po; cbn [fold_left]; [reflexivity|]. rewrite act_pipe. apply IH. Qed.

  Lemma G_fold l : forall s, G s -> Forall msg_ok l -> G (fold_left act l s).
  Proof.
    induction l as [|m t IH]; intros s Gs F; cbn [fold_left]; [exact Gs|].
    inversion F as [|? ? (_ & _ & _ & Hm) Ft]; subst. apply IH; [apply G_act; assumption|exact Ft].
  Qed.

  (* one segment, cut anywhere: every request that ends inside the segment is served, in order,
     and the parser is left in the middle of the next one (or absent at a request boundary) *)
  Lemma loop_segment : forall ms fuel s seg after,
    Forall msg_ok ms -> G s -> Carry (pipeline_request s) ms (seg ++ after) -> seg <> [] ->
    (length seg < fuel)%nat ->
    exists done ms' po', ms = done ++ ms' /\
      pipeline_loop fuel round s seg = (set_pipeline po' (fold_left act done s), Ok tt) /\
      Carry po' ms' after.
  Proof.
    induction ms as [|m ms IH]; intros fuel s seg after F Gs C Hseg Hf.
    { exfalso. destruct (pipeline_request s) as [p|]; cbn [Carry] in C.
      - destruct C as (? & ? & ? & E & _). discriminate E.
      - cbn in C. apply app_eq_nil in C. tauto. }
    inversion F as [|? ? (Hm & Hq & Hu & Hk) Ft]; subst.
    (* the parser the round will use, and what it is waiting for *)
    assert (P : exists p r,
      match pipeline_request s with Some q => q | None => new_parser REQUEST_PARSER end = p /\
      Pending p m r /\ seg ++ after = r ++ concat (map render ms)).
    { destruct (pipeline_request s) as [q|] eqn:Eq; cbn [Carry] in C.
      - destruct C as (m0 & ms0 & r & E & Pd & St). inversion E; subst. exists q, r. auto.
      - exists (new_parser REQUEST_PARSER), (render m). split; [reflexivity|]. split; [apply Pending_new; assumption|exact C]. }
    destruct P as (p & r & Ep & Pd & St).
    assert (NUp : forall q, pipeline_request s = Some q -> hhas q L_UPGRADE = false).
    { intros q Eq. rewrite Eq in Ep. subst q. destruct Pd as (_ & _ & _ & H & _). exact H. }
    destruct fuel as [|f]; [lia|]. cbn [pipeline_loop]. rewrite (round_eq s seg Gs NUp).
    unfold pipeline_round. rewrite Ep.
    apply app_eq_app in St. destruct St as (l & [(E1 & E2)|(E1 & E2)]).
    - (* the segment reaches the end of m: seg = r ++ l *)
      subst seg. destruct Pd as (Hr & PI & NC & NH & W). rewrite (W l).
      rewrite is_complete_expected, (oc_spec s m l Gs Hk). rewrite expected_buffer.
      destruct l as [|x t].
      + cbn [optb]. exists [m], ms, None. split; [reflexivity|]. split; [reflexivity|]. cbn [Carry]. symmetry. exact E2.
      + cbn [optb].
        assert (G1 : G (set_pipeline None (act s m))) by (apply G_pipe, G_act; assumption).
        destruct (IH f (set_pipeline None (act s m)) (x :: t) after Ft G1) as (done & ms' & po' & Ed & El & Cd).
        * cbn [Carry pipeline_request set_pipeline]. symmetry. exact E2.
        * discriminate.
        * rewrite app_length in Hf. destruct r; [contradiction|]. cbn [length] in *. lia.
        * exists (m :: done), ms', po'. split; [cbn; f_equal; exact Ed|]. split; [|exact Cd].
          rewrite El. cbn [fold_left]. rewrite fold_act_pipe. reflexivity.
    - (* r = seg ++ l *)
      destruct l as [|x t].
      + (* exactly at the end of m *)
        rewrite app_nil_r in E1. subst r. destruct Pd as (Hr & PI & NC & NH & W).
        pose proof (W []) as W0. rewrite app_nil_r in W0. rewrite W0.
        rewrite is_complete_expected, (oc_spec s m [] Gs Hk). rewrite expected_buffer. cbn [optb].
        exists [m], ms, None. split; [reflexivity|]. split; [reflexivity|]. cbn [Carry]. exact E2.
      + (* m is still incomplete after the segment *)
        subst r. destruct (Pending_short p m seg (x :: t) Hu Pd) as (p' & Ea & Pd'); [discriminate|].
        rewrite Ea. destruct Pd' as (Hr' & PI' & NC' & NH' & W').
        rewrite (not_complete_false p' NC').
        exists [], (m :: ms), (Some p'). split; [reflexivity|]. split; [reflexivity|].
        cbn [Carry]. exists m, ms, (x :: t). split; [reflexivity|]. split; [|exact E2].
        exact (conj Hr' (conj PI' (conj NC' (conj NH' W')))).
  Qed.
End PipelineLoop.

(* ======================================================================================
   3a. requests as parsed: independence of what follows them
   ====================================================================================== *)
Lemma del_header_sbs p k b s : del_header (set_buffer_size p b s) k = set_buffer_size (del_header p k) b s.
Proof.
  unfold del_header. cbn [headers set_buffer_size].
  destruct (headers p) as [[|e t]|]; try reflexivity. destruct (dict_has (lower k) (e :: t)); reflexivity.
Qed.

Lemma add_header_sbs p k v b s : add_header (set_buffer_size p b s) k v = set_buffer_size (add_header p k v) b s.
Proof. reflexivity. Qed.

Lemma build_sbs ua p dh fp ho b s : build ua (set_buffer_size p b s) dh fp ho = build ua p dh fp ho.
Proof. reflexivity. Qed.

Lemma rebuild_sbs c t p b s :
  rebuild_for_upstream c t (set_buffer_size p b s) =
  (set_buffer_size (fst (rebuild_for_upstream c t p)) b s, snd (rebuild_for_upstream c t p)).
Proof.
  unfold rebuild_for_upstream. rewrite !del_header_sbs. destruct t; cbn [fst snd].
  - rewrite build_sbs. reflexivity.
  - change (via_for c (set_buffer_size (del_header (del_header p PROXY_AUTHORIZATION) PROXY_CONNECTION) b s))
      with (via_for c (del_header (del_header p PROXY_AUTHORIZATION) PROXY_CONNECTION)).
    rewrite add_header_sbs, build_sbs. reflexivity.
Qed.

Lemma hhas_del_false p k u : hhas p u = false -> hhas (del_header p k) u = false.
Proof.
  unfold hhas, del_header. destruct (headers p) as [[|e t]|] eqn:E; rewrite ?E; try tauto.
  destruct (dict_has (lower k) (e :: t)); cbn [headers set_headers]; rewrite ?E; [|tauto].
  generalize (e :: t). intros d. unfold dict_has. induction d as [|[k0 v0] d IH]; cbn [dict_del dict_get]; [tauto|].
  destruct (bytes_eqb (lower k) k0); cbn [dict_get]; destruct (bytes_eqb u k0); try tauto; discriminate.
Qed.

Lemma hhas_add_header p k v u : hhas (add_header p k v) u = bytes_eqb u (lower k) || hhas p u.
Proof.
  unfold hhas, add_header. cbn [headers set_headers]. unfold add_header_d. rewrite dict_has_set.
  destruct (headers p); reflexivity.
Qed.

Lemma upgrade_false p : hhas p L_UPGRADE = false -> is_connection_upgrade p = false.
Proof.
  intros H. unfold is_connection_upgrade. rewrite (has_header_hhas p K_UPGRADE). fold L_UPGRADE. rewrite H.
  apply andb_false_r.
Qed.

Lemma rebuilt_no_upgrade c t p : hhas p L_UPGRADE = false ->
  is_connection_upgrade (fst (rebuild_for_upstream c t p)) = false.
Proof.
  intros H. apply upgrade_false. unfold rebuild_for_upstream. cbn [fst].
  assert (D : hhas (del_header (del_header p PROXY_AUTHORIZATION) PROXY_CONNECTION) L_UPGRADE = false)
    by (apply hhas_del_false, hhas_del_false, H).
  destruct t; [exact D|]. rewrite hhas_add_header, D. reflexivity.
Qed.

(* the address HttpProxyPlugin.connect_upstream connects to for a request (None: it raises) *)
Definition origin_of (p : parser) : option (bytes * Z) :=
  match host p, port p with
  | Some (hx :: ht), Some pt =>
      if (pt =? 0)%Z then None else
      if negb ((0 <? pt)%Z && (pt <=? 65535)%Z) then None else
      match text_ (hx :: ht) with Ok h => Some (h, pt) | Err _ => None end
  | _, _ => None
  end.

Lemma connect_upstream_origin s h pt : origin_of (request s) = Some (h, pt) ->
  connect_upstream s =
  (set_upstream (Some (length (conns s))) (set_conns (conns s ++ [mkUp h pt [] O false]) s), Ok tt).
Proof.
  unfold origin_of, connect_upstream.
  destruct (host (request s)) as [[|hx ht]|]; try discriminate.
  destruct (port (request s)) as [p0|]; try discriminate.
  destruct (p0 =? 0)%Z; try discriminate.
  destruct (negb _); try discriminate.
  destruct (text_ (hx :: ht)); try discriminate.
  intros H; inversion H; subst. reflexivity.
Qed.

(* the bytes the proxy sends upstream for request m (first or later request of a plain-HTTP exchange) *)
Definition fwd_bytes (c : cfg) (m : message) : result bytes := snd (rebuild_for_upstream c false (rq0 m)).
Definition fwd (c : cfg) (m : message) : bytes := match fwd_bytes c m with Ok x => x | Err _ => [] end.

(* the route a request names: what HttpWebServerPlugin._try_route finds for its path *)
Definition route_of (c : cfg) (p : parser) : result (option nat) :=
  try_route c (if truthy (path p) then or_empty (path p) else [SLASH]).

(* schedules of the theorem: non-empty client segments, non-empty data from connection 0 — but
   not before the client has sent [need] more bytes (an origin cannot speak on a connection that
   has not been opened) —, flushes; nobody closes *)
Fixpoint sched_ok (need : nat) (evs : list event) : Prop :=
  match evs with
  | [] => True
  | EClient seg :: t => seg <> [] /\ sched_ok (need - length seg) t
  | EUp k raw :: t => need = O /\ k = O /\ raw <> [] /\ sched_ok need t
  | EFlush :: t => sched_ok need t
  | _ :: _ => False
  end.

(* what connection 0 emits, piece by piece *)
Fixpoint ups (evs : list event) : list bytes :=
  match evs with
  | [] => []
  | EUp O raw :: t => raw :: ups t
  | _ :: t => ups t
  end.


(* ======================================================================================
   4. the property in full
   ====================================================================================== *)

(* what ReverseProxy.handle_request does with a request on a fresh connection: the upstream it
   connects to and the bytes it sends there (None: no route matches / it raises) *)
Definition reverse_names (c : cfg) (rplugins : list (list (bytes * list bytes))) (p : parser)
  : option (bytes * Z * bytes) :=
  match reverse_handle_request c rplugins (init []) p with
  | (s, Ok _) =>
      match conns s with
      | [u] => match up_queued u with [b] => Some (up_host u, up_port u, b) | _ => None end
      | _ => None
      end
  | _ => None
  end.

(* what a request NAMES: an origin (with the bytes that origin is to receive) or a local route *)
Inductive target := TOrigin (h : bytes) (pt : Z) (sent : bytes) | TLocal (j : nat) | TNone.

Definition names (c : cfg) (m : message) : target :=
  let p := rq0 m in
  match http_handler_protocol p with
  | HTTP_PROXY =>
      if has_proxy c then
        match origin_of p, fwd_bytes c m with Some (h, pt), Ok b => TOrigin h pt b | _, _ => TNone end
      else TNone
  | WEB_SERVER =>
      if has_web c then
        match route_of c p with
        | Ok (Some j) =>
            match nth_error (web_plugins c) j with
            | Some (WLocal _) => TLocal j
            | Some (WReverse rp) =>
                match reverse_names c rp p with Some (h, pt, b) => TOrigin h pt b | None => TNone end
            | None => TNone
            end
        | _ => TNone
        end
      else TNone
  | UNKNOWN_PROTO => TNone
  end.

(* the world: the origin (h, pt) answers the request bytes b with [answers h pt b] *)
Definition world := bytes -> Z -> bytes -> bytes.

(* the response the client must get for request m *)
Definition expected_answer (c : cfg) (answers : world) (m : message) : bytes :=
  match names c m with
  | TOrigin h pt b => answers h pt b
  | TLocal j => match nth_error (web_plugins c) j with
                | Some (WLocal respond) => concat (respond (rq0 m))
                | _ => []
                end
  | TNone => []
  end.

(* conversations the property speaks about: keep-alive requests of one kind (all through the
   forward proxy or all to the web server), each well-formed and naming something *)
Definition wf_request (c : cfg) (m : message) : Prop :=
  message_ok AL m /\ is_req m /\ no_upgrade m /\
  is_http_1_1_keep_alive (rq0 m) = true /\ is_https_tunnel (rq0 m) = false /\ names c m <> TNone.

Definition wf_conversation (c : cfg) (reqs : list message) : Prop :=
  match reqs with
  | [] => False
  | m1 :: _ => Forall (wf_request c) reqs /\
               Forall (fun m => http_handler_protocol (rq0 m) = http_handler_protocol (rq0 m1)) reqs
  end.

(* schedules: nobody closes, nothing is empty, and a socket is only readable once it exists *)
Fixpoint quiet (c : cfg) (s : hstate) (evs : list event) : Prop :=
  match evs with
  | [] => True
  | ev :: t =>
      match ev with
      | EClient seg => seg <> []
      | EUp k raw => raw <> [] /\ (k < length (conns s))%nat
      | EFlush => True
      | EClientEof | EUpEof _ => False
      end /\ quiet c (step c s ev) t
  end.

(* at the end nothing waits to be written to the upstream in use *)
Definition settled (s : hstate) : Prop :=
  forall k u, registered s k = true -> nth_error (conns s) k = Some u -> up_nsent u = length (up_queued u).

(* every origin connection has, by the end, emitted exactly one answer per request it received *)
Definition origins_answer (answers : world) (evs : list event) (s : hstate) : Prop :=
  forall k u, nth_error (conns s) k = Some u ->
    up_bytes k evs = concat (map (answers (up_host u) (up_port u)) (firstn (up_nsent u) (up_queued u))).

(* C04 for one conversation: for every world, every packing of the request bytes into segments
   and every interleaving with what the origins emit, the client receives exactly one response per
   request, in request order, each the answer of what that request names, and the connection is
   still open and idle *)
Definition C04_holds (c : cfg) (reqs : list message) : Prop :=
  forall (answers : world) ds evs,
    quiet c (init ds) evs -> client_bytes evs = concat (map render reqs) ->
    let s := run c (init ds) evs in
    settled s -> origins_answer answers evs s ->
    stat s = Alive /\ pending_request s = false /\
    client_stream s = concat (map (expected_answer c answers) reqs).

Definition C04_statement : Prop := forall c reqs, wf_conversation c reqs -> C04_holds c reqs.

(* ---- the proved class is an instance of it ---- *)
Lemma concat_ups evs : concat (ups evs) = up_bytes O evs.
Proof.
  induction evs as [|ev t IH]; [reflexivity|]. destruct ev as [seg| |k raw|k|]; cbn [ups up_bytes]; try exact IH.
  destruct k; cbn [Nat.eqb concat]; [rewrite IH; reflexivity|exact IH].
Qed.


(* ======================================================================================
   3b. the forward proxy
   ====================================================================================== *)
Section Forward.
  Variable c : cfg.
  Variable h : bytes.
  Variable pt : Z.

  (* a request of the class: well-formed, no Upgrade header, not CONNECT, names the origin (h, pt),
     can be rebuilt *)
  Definition fwd_class (m : message) : Prop :=
    message_ok AL m /\ is_req m /\ no_upgrade m /\
    is_https_tunnel (rq0 m) = false /\ origin_of (rq0 m) = Some (h, pt) /\ exists x, fwd_bytes c m = Ok x.

  Definition fwd_okm (m : message) : Prop := exists x, fwd_bytes c m = Ok x.

  Definition pstate (rqX : parser) (po : option parser) (relayed : list bytes) (q : list bytes) (n : nat) (ds : list nat) : hstate :=
    mkH rqX PProxy (Some O) po None relayed [mkUp h pt q n false] ds Alive.

  Definition G_proxy (s : hstate) : Prop :=
    exists rqX po relayed q n ds, s = pstate rqX po relayed q n ds /\
      is_complete rqX = true /\ is_https_tunnel rqX = false.

  Definition fwd_act (s : hstate) (m : message) : hstate := up_queue O (fwd c m) s.

  Lemma fwd_round_eq s raw : G_proxy s ->
    (forall p, pipeline_request s = Some p -> hhas p L_UPGRADE = false) ->
    proxy_round c s raw = pipeline_round (proxy_forward c O) s raw.
  Proof.
    intros (rqX & po & relayed & q & n & ds & -> & Hc & Ht) NU.
    unfold proxy_round, pstate. cbn [upstream conn_closed conns nth_error up_closed request pipeline_request].
    rewrite Hc, Ht. cbn [negb andb].
    destruct po as [pr|]; [|reflexivity].
    rewrite (upgrade_false pr (NU pr eq_refl)), andb_false_r. reflexivity.
  Qed.

  Lemma fwd_oc_spec s m tail : G_proxy s -> fwd_okm m -> no_upgrade m ->
    proxy_forward c O s (expected m tail) = (fwd_act s m, Ok None).
  Proof.
    intros (rqX & po & relayed & q & n & ds & -> & Hc & Ht) (x & Hx) NU.
    unfold proxy_forward, pstate. cbn [request]. rewrite Ht.
    rewrite expected_sbs, rebuild_sbs. fold (fwd_bytes c m). rewrite Hx.
    assert (U : is_connection_upgrade
                  (set_buffer_size (fst (rebuild_for_upstream c false (rq0 m))) (optb tail) (len (render m ++ tail))) = false).
    { change (is_connection_upgrade (fst (rebuild_for_upstream c false (rq0 m))) = false).
      apply rebuilt_no_upgrade. apply expected_no_upgrade, NU. }
    rewrite U. unfold fwd_act, fwd. rewrite Hx. reflexivity.
  Qed.

  Definition fwd_okm' (m : message) : Prop := fwd_okm m /\ no_upgrade m.

  Lemma fwd_G_act s m : G_proxy s -> fwd_okm' m -> G_proxy (fwd_act s m).
  Proof.
    intros (rqX & po & relayed & q & n & ds & -> & Hc & Ht) _.
    exists rqX, po, relayed, (q ++ [fwd c m]), n, ds. split; [reflexivity|split; assumption].
  Qed.

  Lemma fwd_G_pipe s po : G_proxy s -> G_proxy (set_pipeline po s).
  Proof.
    intros (rqX & po0 & relayed & q & n & ds & -> & Hc & Ht).
    exists rqX, po, relayed, q, n, ds. split; [reflexivity|split; assumption].
  Qed.

  Lemma fwd_act_pipe s po m : fwd_act (set_pipeline po s) m = set_pipeline po (fwd_act s m).
  Proof. reflexivity. Qed.

  Lemma fold_fwd_act done : forall rqX po relayed q n ds,
    fold_left fwd_act done (pstate rqX po relayed q n ds) = pstate rqX po relayed (q ++ map (fwd c) done) n ds.
  Proof.
    induction done as [|m t IH]; intros; cbn [fold_left map].
    - rewrite app_nil_r. reflexivity.
    - change (fwd_act (pstate rqX po relayed q n ds) m) with (pstate rqX po relayed (q ++ [fwd c m]) n ds).
      rewrite IH, <- app_assoc. reflexivity.
  Qed.

  Lemma fwd_class_msg_ok m : fwd_class m -> msg_ok fwd_okm' m.
  Proof. intros (A & B & C & _ & _ & D). exact (conj A (conj B (conj C (conj D C)))). Qed.

  (* the pipelining loop of the forward proxy on one segment *)
  Lemma fwd_segment rqX po relayed q n ds todo seg after :
    is_complete rqX = true -> is_https_tunnel rqX = false ->
    Forall fwd_class todo -> Carry po todo (seg ++ after) -> seg <> [] ->
    exists done ms' po', todo = done ++ ms' /\
      pipeline_loop (loop_fuel (pstate rqX po relayed q n ds) seg) (proxy_round c) (pstate rqX po relayed q n ds) seg =
        (pstate rqX po' relayed (q ++ map (fwd c) done) n ds, Ok tt) /\
      Carry po' ms' after.
  Proof.
    intros Hc Ht F C Hs.
    assert (Gs : G_proxy (pstate rqX po relayed q n ds)) by (exists rqX, po, relayed, q, n, ds; auto).
    destruct (loop_segment (proxy_round c) (proxy_forward c O) fwd_okm' fwd_act G_proxy
                fwd_round_eq
                (fun s m tail Gs' K => fwd_oc_spec s m tail Gs' (proj1 K) (proj2 K))
                fwd_G_act fwd_G_pipe fwd_act_pipe
                todo (loop_fuel (pstate rqX po relayed q n ds) seg) (pstate rqX po relayed q n ds) seg after)
      as (done & ms' & po' & E & L & C').
    - eapply Forall_impl; [|exact F]. apply fwd_class_msg_ok.
    - exact Gs.
    - exact C.
    - exact Hs.
    - unfold loop_fuel. lia.
    - exists done, ms', po'. split; [exact E|]. split; [|exact C'].
      rewrite L, fold_fwd_act. reflexivity.
  Qed.

  Ltac hn := cbv beta iota delta [set_request set_plugin set_upstream set_pipeline set_route set_client_q set_conns
                  set_draws set_status client_queue client_queue_all up_queue up_add upd_nth
                  request plugin upstream pipeline_request route client_q conns draws stat
                  up_host up_port up_queued up_nsent up_closed];
             cbn [app length].
  Ltac hs := cbn [request plugin upstream pipeline_request route client_q conns draws stat
                  set_request set_plugin set_upstream set_pipeline set_route set_client_q set_conns set_draws
                  set_status client_queue client_queue_all up_queue up_add upd_nth pstate length app
                  conn_closed nth_error up_closed up_queued up_nsent up_host up_port fst snd].

  Lemma rebuild_state t p : state (fst (rebuild_for_upstream c t p)) = state p.
  Proof.
    unfold rebuild_for_upstream. cbn [fst].
    assert (D : forall q k, state (del_header q k) = state q).
    { intros q k. unfold del_header. destruct (headers q) as [[|e l]|]; try reflexivity.
      destruct (dict_has (lower k) (e :: l)); reflexivity. }
    destruct t; [rewrite !D; reflexivity|]. unfold add_header. cbn [state set_headers]. rewrite !D. reflexivity.
  Qed.

  Lemma rebuild_tunnel t p : is_https_tunnel (fst (rebuild_for_upstream c t p)) = is_https_tunnel p.
  Proof.
    unfold rebuild_for_upstream. cbn [fst].
    assert (D : forall q k, is_https_tunnel (del_header q k) = is_https_tunnel q).
    { intros q k. unfold del_header. destruct (headers q) as [[|e l]|]; try reflexivity.
      destruct (dict_has (lower k) (e :: l)); reflexivity. }
    destruct t; [rewrite !D; reflexivity|]. unfold add_header. cbn [is_https_tunnel set_headers]. rewrite !D. reflexivity.
  Qed.

  Variable m1 : message.
  Variable ms : list message.
  Hypothesis has_proxy_c : has_proxy c = true.
  Hypothesis class_all : Forall fwd_class (m1 :: ms).
  Hypothesis first_proto : http_handler_protocol (rq0 m1) = HTTP_PROXY.

  (* before the first request is complete *)
  Definition PhaseA (s : hstate) (rest : bytes) (need : nat) : Prop :=
    exists p r ds, s = mkH p PNone None None None [] [] ds Alive /\ Pending p m1 r /\
                   rest = r ++ concat (map render ms) /\ need = length r.

  (* afterwards: [done] have been forwarded, [todo] are still to come *)
  Definition PhaseB (s : hstate) (rest : bytes) (relayed : list bytes) : Prop :=
    exists rqX po n ds done todo,
      s = pstate rqX po relayed (map (fwd c) done) n ds /\
      is_complete rqX = true /\ is_https_tunnel rqX = false /\
      done ++ todo = m1 :: ms /\ done <> [] /\ Carry po todo rest.

  Lemma class_todo done todo : done ++ todo = m1 :: ms -> Forall fwd_class todo.
  Proof. intros E. pose proof class_all as F. rewrite <- E in F. apply Forall_app in F. tauto. Qed.

  Lemma phaseB_client s seg rest relayed : PhaseB s (seg ++ rest) relayed -> seg <> [] ->
    PhaseB (step c s (EClient seg)) rest relayed.
  Proof.
    intros (rqX & po & n & ds & done & todo & -> & Hc & Ht & E & Hd & C) Hs.
    destruct (fwd_segment rqX po relayed (map (fwd c) done) n ds todo seg rest Hc Ht (class_todo _ _ E) C Hs)
      as (done' & ms' & po' & E' & L & C').
    unfold step. cbn [stat pstate]. destruct seg as [|x t]; [contradiction|].
    unfold handle_data, handle_data_try. cbn [request pstate]. rewrite Hc. cbn [negb].
    unfold plugin_on_client_data. cbn [plugin pstate].
    change (mkH rqX PProxy (Some O) po None relayed [mkUp h pt (map (fwd c) done) n false] ds Alive)
      with (pstate rqX po relayed (map (fwd c) done) n ds).
    rewrite L.
    exists rqX, po', n, ds, (done ++ done'), ms'. split; [rewrite map_app; reflexivity|].
    split; [exact Hc|]. split; [exact Ht|]. split; [rewrite <- app_assoc, <- E'; exact E|].
    split; [destruct done; [contradiction|discriminate]|exact C'].
  Qed.

  Lemma phaseB_up s raw rest relayed : PhaseB s rest relayed -> raw <> [] ->
    PhaseB (step c s (EUp O raw)) rest (relayed ++ [raw]).
  Proof.
    intros (rqX & po & n & ds & done & todo & -> & Hc & Ht & E & Hd & C) Hr.
    unfold step. cbn [stat pstate]. unfold registered. cbn [plugin upstream conn_closed conns nth_error up_closed Nat.eqb negb andb].
    destruct raw as [|x t]; [contradiction|].
    exists rqX, po, n, ds, done, todo. repeat split; assumption.
  Qed.

  Lemma phaseB_flush s rest relayed : PhaseB s rest relayed -> PhaseB (step c s EFlush) rest relayed.
  Proof.
    intros (rqX & po & n & ds & done & todo & -> & Hc & Ht & E & Hd & C).
    unfold step. cbn [stat pstate upstream]. unfold registered. cbn [plugin upstream conn_closed conns nth_error up_closed Nat.eqb negb andb].
    exists rqX, po, (length (map (fwd c) done)), ds, done, todo. repeat split; assumption.
  Qed.

  Lemma phaseA_flush s rest need : PhaseA s rest need -> step c s EFlush = s.
  Proof. intros (p & r & ds & -> & _). reflexivity. Qed.

  Lemma first_fwd : exists x, fwd_bytes c m1 = Ok x.
  Proof. pose proof class_all as F. inversion F as [|? ? (_ & _ & _ & _ & _ & H) _]. exact H. Qed.

  Lemma phaseA_client s seg rest need : PhaseA s (seg ++ rest) need -> seg <> [] ->
    PhaseA (step c s (EClient seg)) rest (need - length seg) \/
    (PhaseB (step c s (EClient seg)) rest [] /\ (need - length seg = 0)%nat).
  Proof.
    intros (p & r & ds & -> & Pd & St & Hn) Hs.
    pose proof class_all as F. inversion F as [|? ? (Hm & Hq & Hu & Htn & Ho & (x & Hx)) Ft]; subst.
    unfold step. cbn [stat]. destruct seg as [|s0 st] eqn:Eseg; [contradiction|]. rewrite <- Eseg in *. clear Eseg.
    unfold handle_data, handle_data_try. cbn [request].
    assert (NCp : is_complete p = false) by (apply not_complete_false; destruct Pd as (_ & _ & H & _); exact H).
    rewrite NCp. cbn [negb]. unfold parse_first_request. cbn [request].
    destruct (pending_split p m1 r seg rest _ Hu Pd St) as [(p' & r' & Ea & Pd' & Er & Err)|(l & Ea & Er & Esl)].
    - (* the first request is still incomplete *)
      rewrite Ea. pose proof Pd' as (_ & _ & NC' & _). rewrite (not_complete_false p' NC'). cbn [negb].
      hn. left. exists p', r', ds. split; [reflexivity|]. split; [exact Pd'|]. split; [exact Er|].
      rewrite Err, app_length. lia.
    - (* it completes inside this segment; l follows it *)
      right. split; [|rewrite Esl, app_length; lia].
      rewrite Ea, is_complete_expected. cbn [negb].
      change (http_handler_protocol (expected m1 l)) with (http_handler_protocol (rq0 m1)).
      rewrite first_proto, has_proxy_c.
      unfold proxy_on_request_complete.
      rewrite (connect_upstream_origin _ h pt) by exact Ho.
      hn.
      change (is_https_tunnel (expected m1 l)) with (is_https_tunnel (rq0 m1)). rewrite Htn.
      rewrite expected_sbs, rebuild_sbs. fold (fwd_bytes c m1). rewrite Hx. hn.
      set (rqF0 := fst (rebuild_for_upstream c false (rq0 m1))).
      assert (CF : is_complete rqF0 = true)
        by (unfold is_complete, rqF0; rewrite rebuild_state; apply (is_complete_expected m1 [])).
      assert (TF : is_https_tunnel rqF0 = false) by (unfold rqF0; rewrite rebuild_tunnel; exact Htn).
      assert (Fx : fwd c m1 = x) by (unfold fwd; rewrite Hx; reflexivity).
      cbn [buffer set_buffer_size].
      destruct l as [|y l']; cbn [optb].
      + exists (set_buffer_size rqF0 None (len (render m1 ++ []))), None, O, ds, [m1], ms.
        split; [cbn [map]; rewrite Fx; reflexivity|]. split; [exact CF|]. split; [exact TF|].
        split; [reflexivity|]. split; [discriminate|]. cbn [Carry]. symmetry. exact Er.
      + change (is_complete (set_buffer_size rqF0 (Some (y :: l')) (len (render m1 ++ y :: l')))) with (is_complete rqF0).
        rewrite CF. unfold plugin_on_client_data. hn.
        pose (rqC := clear_buffer (set_buffer_size rqF0 (Some (y :: l')) (len (render m1 ++ y :: l')))).
        match goal with |- context [loop_fuel ?a _] => change a with (pstate rqC None [] [x] O ds) end.
        destruct (fwd_segment rqC None [] [x] O ds ms (y :: l') rest CF TF Ft) as (done' & ms' & po' & E' & L & C');
          [cbn [Carry]; symmetry; exact Er|discriminate|].
        rewrite L.
        exists rqC, po', O, ds, (m1 :: done'), ms'.
        split; [cbn [map app]; rewrite Fx; reflexivity|]. split; [exact CF|]. split; [exact TF|].
        split; [cbn [app]; rewrite <- E'; reflexivity|]. split; [discriminate|exact C'].
  Qed.

  Definition FInv (s : hstate) (rest : bytes) (relayed : list bytes) (need : nat) : Prop :=
    (PhaseA s rest need /\ relayed = []) \/ (PhaseB s rest relayed /\ need = O).

  Lemma forward_run : forall evs s rest relayed need,
    FInv s rest relayed need -> sched_ok need evs -> client_bytes evs = rest ->
    exists need', FInv (run c s evs) [] (relayed ++ ups evs) need'.
  Proof.
    induction evs as [|ev t IH]; intros s rest relayed need I S E.
    - cbn in E. subst rest. cbn [run fold_left ups]. rewrite app_nil_r. exists need. exact I.
    - unfold run. cbn [fold_left]. fold (run c (step c s ev) t).
      destruct ev as [seg| |k raw|k|]; cbn [sched_ok] in S; try contradiction.
      + destruct S as (Hs & S). cbn [client_bytes] in E. subst rest. cbn [ups].
        destruct I as [(A & ->)|(B & ->)].
        * destruct (phaseA_client s seg (client_bytes t) need A Hs) as [A'|B'].
          -- apply (IH _ (client_bytes t) [] (need - length seg)%nat); [left; auto|exact S|reflexivity].
          -- apply (IH _ (client_bytes t) [] (need - length seg)%nat); [right; exact B'|exact S|reflexivity].
        * apply (IH _ (client_bytes t) relayed (0 - length seg)%nat); [right; split; [apply phaseB_client; assumption|reflexivity]|exact S|reflexivity].
      + destruct S as (Hn & -> & Hr & S). cbn [client_bytes] in E. cbn [ups].
        destruct I as [(A & ->)|(B & _)].
        * exfalso. destruct A as (p & r & ds & _ & (Hne & _) & _ & Hl). subst need.
          destruct r; [contradiction|discriminate].
        * replace (relayed ++ raw :: ups t) with ((relayed ++ [raw]) ++ ups t) by (rewrite <- app_assoc; reflexivity).
          apply (IH _ rest (relayed ++ [raw]) need); [right; split; [apply phaseB_up; assumption|exact Hn]|exact S|exact E].
      + cbn [client_bytes] in E. cbn [ups].
        destruct I as [(A & ->)|(B & Hn)].
        * rewrite (phaseA_flush s rest need A). apply (IH _ rest [] need); [left; auto|exact S|exact E].
        * apply (IH _ rest relayed need); [right; split; [apply phaseB_flush; exact B|exact Hn]|exact S|exact E].
  Qed.

  (* THE FORWARD PROXY, every packing, every interleaving: each request is forwarded exactly once,
     in order, on the one connection to the origin all of them name; everything that connection
     emits reaches the client in order; the connection stays open with no request pending *)
  Theorem forward_partial ds evs :
    sched_ok (length (render m1)) evs -> client_bytes evs = concat (map render (m1 :: ms)) ->
    let s := run c (init ds) evs in
    stat s = Alive /\ pipeline_request s = None /\ pending_request s = false /\ connect_log s = [(h, pt)] /\
    (exists n, conns s = [mkUp h pt (map (fwd c) (m1 :: ms)) n false]) /\
    client_q s = ups evs /\ registered s O = true.
  Proof.
    intros S E. cbv zeta.
    assert (I0 : FInv (init ds) (concat (map render (m1 :: ms))) [] (length (render m1))).
    { left. split; [|reflexivity]. exists (new_parser REQUEST_PARSER), (render m1), ds.
      split; [reflexivity|]. split; [|split; reflexivity].
      pose proof class_all as F. inversion F as [|? ? (Hm & Hq & _) _]. apply Pending_new; assumption. }
    destruct (forward_run evs _ _ _ _ I0 S E) as (need' & [(A & _)|(B & _)]).
    - exfalso. destruct A as (p & r & ds' & _ & (Hne & _) & Er & _). symmetry in Er. apply app_eq_nil in Er. tauto.
    - destruct B as (rqX & po & n & ds' & done & todo & -> & Hc & Ht & Ed & Hd & C).
      apply Carry_end in C. destruct C as (-> & ->). rewrite app_nil_r in Ed. subst done.
      cbn [app]. unfold pstate, connect_log, pending_request, registered.
      cbn [stat pipeline_request plugin conns map up_host up_port client_q upstream conn_closed nth_error up_closed Nat.eqb negb andb].
      repeat split. exists n. reflexivity.
  Qed.


  (* "a socket is only readable once it exists" implies the model-independent schedule condition *)
  Lemma quiet_sched : forall evs s rest relayed need,
    FInv s rest relayed need -> quiet c s evs -> client_bytes evs = rest -> sched_ok need evs.
  Proof.
    induction evs as [|ev t IH]; intros s rest relayed need I Q E; [exact Logic.I|].
    cbn [quiet] in Q. destruct Q as (Qe & Q).
    destruct ev as [seg| |k raw|k|]; try contradiction; cbn [sched_ok client_bytes] in *.
    - split; [exact Qe|]. subst rest. destruct I as [(A & ->)|(B & ->)].
      + destruct (phaseA_client s seg (client_bytes t) need A Qe) as [A'|B'].
        * apply (IH _ (client_bytes t) [] _ (or_introl (conj A' eq_refl)) Q eq_refl).
        * apply (IH _ (client_bytes t) [] _ (or_intror B') Q eq_refl).
      + apply (IH _ (client_bytes t) relayed _ (or_intror (conj (phaseB_client s seg _ relayed B Qe) eq_refl)) Q eq_refl).
    - destruct Qe as (Hr & Hk). destruct I as [(A & ->)|(B & Hn)].
      + exfalso. destruct A as (p & r & ds & -> & _). cbn in Hk. lia.
      + pose proof B as (rqX & po & n & ds & done & todo & -> & _). cbn in Hk.
        assert (k = O) by lia. subst k. split; [exact Hn|]. split; [reflexivity|]. split; [exact Hr|].
        apply (IH _ rest (relayed ++ [raw]) need (or_intror (conj (phaseB_up _ raw rest relayed B Hr) Hn)) Q E).
    - destruct I as [(A & ->)|(B & Hn)].
      + rewrite (phaseA_flush s rest need A) in Q. apply (IH _ rest [] need (or_introl (conj A eq_refl)) Q E).
      + apply (IH _ rest relayed need (or_intror (conj (phaseB_flush s rest relayed B) Hn)) Q E).
  Qed.

  Hypothesis proto_all : Forall (fun m => http_handler_protocol (rq0 m) = HTTP_PROXY) (m1 :: ms).

  Lemma fwd_expected_answer answers m : In m (m1 :: ms) -> expected_answer c answers m = answers h pt (fwd c m).
  Proof.
    intros Hin. pose proof class_all as F. rewrite Forall_forall in F. destruct (F m Hin) as (_ & _ & _ & _ & Ho & (x & Hx)).
    pose proof proto_all as P. rewrite Forall_forall in P. specialize (P m Hin).
    unfold expected_answer, names. rewrite P, has_proxy_c, Ho, Hx. unfold fwd. rewrite Hx. reflexivity.
  Qed.

  (* the class is an instance of the full statement *)
  Theorem forward_holds : C04_holds c (m1 :: ms).
  Proof.
    intros answers ds evs Q E. cbv zeta. intros Hset Hans.
    assert (I0 : FInv (init ds) (concat (map render (m1 :: ms))) [] (length (render m1))).
    { left. split; [|reflexivity]. exists (new_parser REQUEST_PARSER), (render m1), ds.
      split; [reflexivity|]. split; [|split; reflexivity].
      pose proof class_all as F. inversion F as [|? ? (Hm & Hq & _) _]. apply Pending_new; assumption. }
    pose proof (quiet_sched evs _ _ _ _ I0 Q E) as S.
    destruct (forward_partial ds evs S E) as (H1 & H2 & H3 & H4 & (n & H5) & H6 & H7).
    split; [exact H1|]. split; [exact H3|].
    unfold client_stream. rewrite H6, concat_ups.
    rewrite (Hans O _ ltac:(rewrite H5; reflexivity)).
    pose proof (Hset O _ H7 ltac:(rewrite H5; reflexivity)) as Hn. cbn [up_nsent up_queued] in Hn.
    cbn [up_host up_port up_nsent up_queued]. rewrite Hn, firstn_all, map_map. f_equal. apply map_ext_in. intros m Hin. symmetry. apply fwd_expected_answer, Hin.
  Qed.
End Forward.
(* ======================================================================================
   3c. the web server (a local route plugin)
   ====================================================================================== *)
Section Web.
  Variable c : cfg.
  Variable j : nat.
  Variable respond : parser -> list bytes.
  Hypothesis has_web_c : has_web c = true.
  Hypothesis plugin_j : nth_error (web_plugins c) j = Some (WLocal respond).
  (* the plugin's answer does not depend on the bytes that FOLLOW the request in its segment *)
  Hypothesis respond_stable : forall p b s, respond (set_buffer_size p b s) = respond p.

  Ltac hn := cbv beta iota delta [set_request set_plugin set_upstream set_pipeline set_route set_client_q set_conns
                  set_draws set_status client_queue client_queue_all up_queue up_add upd_nth
                  request plugin upstream pipeline_request route client_q conns draws stat
                  up_host up_port up_queued up_nsent up_closed];
             cbn [app length].

  Definition web_class (m : message) : Prop :=
    message_ok AL m /\ is_req m /\ no_upgrade m /\
    is_http_1_1_keep_alive (rq0 m) = true /\ route_of c (rq0 m) = Ok (Some j).

  Definition resp (m : message) : list bytes := respond (rq0 m).
  Definition web_okm (m : message) : Prop := is_http_1_1_keep_alive (rq0 m) = true.

  Definition wstate (rqX : parser) (po : option parser) (q : list bytes) (ds : list nat) : hstate :=
    mkH rqX PWeb None po (Some j) q [] ds Alive.

  Definition G_web (s : hstate) : Prop :=
    exists rqX po q ds, s = wstate rqX po q ds /\ is_complete rqX = true /\ is_http_1_1_keep_alive rqX = true.

  Definition web_act (s : hstate) (m : message) : hstate := client_queue_all (resp m) s.

  Lemma web_oc_spec s m tail : G_web s -> web_okm m ->
    web_dispatch c j s (expected m tail) = (web_act s m, Ok None).
  Proof.
    intros _ K. unfold web_dispatch, web_handle_request. rewrite plugin_j.
    change (is_http_1_1_keep_alive (expected m tail)) with (is_http_1_1_keep_alive (rq0 m)). rewrite K.
    unfold web_act, resp. rewrite expected_sbs, respond_stable. reflexivity.
  Qed.

  Lemma web_G_act s m : G_web s -> web_okm m -> G_web (web_act s m).
  Proof.
    intros (rqX & po & q & ds & -> & Hc & Hk) _. exists rqX, po, (q ++ resp m), ds.
    split; [reflexivity|split; assumption].
  Qed.

  Lemma web_G_pipe s po : G_web s -> G_web (set_pipeline po s).
  Proof.
    intros (rqX & po0 & q & ds & -> & Hc & Hk). exists rqX, po, q, ds. split; [reflexivity|split; assumption].
  Qed.

  Lemma fold_web_act done : forall rqX po q ds,
    fold_left web_act done (wstate rqX po q ds) = wstate rqX po (q ++ concat (map resp done)) ds.
  Proof.
    induction done as [|m t IH]; intros; cbn [fold_left map concat].
    - rewrite app_nil_r. reflexivity.
    - change (web_act (wstate rqX po q ds) m) with (wstate rqX po (q ++ resp m) ds).
      rewrite IH, <- app_assoc. reflexivity.
  Qed.

  Lemma web_class_msg_ok m : web_class m -> msg_ok web_okm m.
  Proof. intros (A & B & C & D & _). exact (conj A (conj B (conj C D))). Qed.

  Lemma web_segment rqX po q ds todo seg after :
    is_complete rqX = true -> is_http_1_1_keep_alive rqX = true ->
    Forall web_class todo -> Carry po todo (seg ++ after) -> seg <> [] ->
    exists done ms' po', todo = done ++ ms' /\
      web_on_client_data c (wstate rqX po q ds) seg = (wstate rqX po' (q ++ concat (map resp done)) ds, Ok tt) /\
      Carry po' ms' after.
  Proof.
    intros Hc Hk F C Hs.
    assert (Gs : G_web (wstate rqX po q ds)) by (exists rqX, po, q, ds; auto).
    destruct (loop_segment (pipeline_round (web_dispatch c j)) (web_dispatch c j) web_okm web_act G_web
                (fun s raw _ _ => eq_refl) web_oc_spec web_G_act web_G_pipe (fun s po m => eq_refl)
                todo (loop_fuel (wstate rqX po q ds) seg) (wstate rqX po q ds) seg after)
      as (done & ms' & po' & E & L & C').
    - eapply Forall_impl; [|exact F]. apply web_class_msg_ok.
    - exact Gs.
    - exact C.
    - exact Hs.
    - unfold loop_fuel. lia.
    - exists done, ms', po'. split; [exact E|]. split; [|exact C'].
      unfold web_on_client_data. cbn [route wstate request]. rewrite Hc, Hk. cbn [andb].
      change (mkH rqX PWeb None po (Some j) q [] ds Alive) with (wstate rqX po q ds).
      rewrite L, fold_web_act. reflexivity.
  Qed.

  Variable m1 : message.
  Variable ms : list message.
  Hypothesis class_all : Forall web_class (m1 :: ms).
  Hypothesis first_proto : http_handler_protocol (rq0 m1) = WEB_SERVER.

  Definition WPhaseA (s : hstate) (rest : bytes) : Prop :=
    exists p r ds, s = mkH p PNone None None None [] [] ds Alive /\ Pending p m1 r /\
                   rest = r ++ concat (map render ms).

  Definition WPhaseB (s : hstate) (rest : bytes) : Prop :=
    exists rqX po ds done todo,
      s = wstate rqX po (concat (map resp done)) ds /\
      is_complete rqX = true /\ is_http_1_1_keep_alive rqX = true /\
      done ++ todo = m1 :: ms /\ done <> [] /\ Carry po todo rest.

  Lemma wclass_todo done todo : done ++ todo = m1 :: ms -> Forall web_class todo.
  Proof. intros E. pose proof class_all as F. rewrite <- E in F. apply Forall_app in F. tauto. Qed.

  Lemma wphaseB_client s seg rest : WPhaseB s (seg ++ rest) -> seg <> [] -> WPhaseB (step c s (EClient seg)) rest.
  Proof.
    intros (rqX & po & ds & done & todo & -> & Hc & Hk & E & Hd & C) Hs.
    destruct (web_segment rqX po (concat (map resp done)) ds todo seg rest Hc Hk (wclass_todo _ _ E) C Hs)
      as (done' & ms' & po' & E' & L & C').
    unfold step. cbn [stat wstate]. destruct seg as [|x t]; [contradiction|].
    unfold handle_data, handle_data_try. cbn [request wstate]. rewrite Hc. cbn [negb].
    unfold plugin_on_client_data. cbn [plugin wstate].
    change (mkH rqX PWeb None po (Some j) (concat (map resp done)) [] ds Alive)
      with (wstate rqX po (concat (map resp done)) ds).
    rewrite L.
    exists rqX, po', ds, (done ++ done'), ms'. split; [rewrite map_app, concat_app; reflexivity|].
    split; [exact Hc|]. split; [exact Hk|]. split; [rewrite <- app_assoc, <- E'; exact E|].
    split; [destruct done; [contradiction|discriminate]|exact C'].
  Qed.

  (* nothing else moves the web server: there is no upstream *)
  Lemma wphase_other s ev : (exists rest, WPhaseA s rest \/ WPhaseB s rest) ->
    match ev with EClient _ | EClientEof => False | _ => True end -> step c s ev = s.
  Proof.
    intros (rest & [(p & r & ds & -> & _)|(rqX & po & ds & done & todo & -> & _)]) H;
      destruct ev; try contradiction; reflexivity.
  Qed.

  Lemma wphaseA_client s seg rest : WPhaseA s (seg ++ rest) -> seg <> [] ->
    WPhaseA (step c s (EClient seg)) rest \/ WPhaseB (step c s (EClient seg)) rest.
  Proof.
    intros (p & r & ds & -> & Pd & St) Hs.
    pose proof class_all as F. inversion F as [|? ? (Hm & Hq & Hu & Hk & Hro) Ft]; subst.
    unfold step. cbn [stat]. destruct seg as [|s0 st] eqn:Eseg; [contradiction|]. rewrite <- Eseg in *. clear Eseg.
    unfold handle_data, handle_data_try. cbn [request].
    assert (NCp : is_complete p = false) by (apply not_complete_false; destruct Pd as (_ & _ & H & _); exact H).
    rewrite NCp. cbn [negb]. unfold parse_first_request. cbn [request].
    destruct (pending_split p m1 r seg rest _ Hu Pd St) as [(p' & r' & Ea & Pd' & Er & Err)|(l & Ea & Er & Esl)].
    - rewrite Ea. pose proof Pd' as (_ & _ & NC' & _). rewrite (not_complete_false p' NC'). cbn [negb].
      hn. left. exists p', r', ds. split; [reflexivity|]. split; [exact Pd'|exact Er].
    - right. rewrite Ea, is_complete_expected. cbn [negb].
      change (http_handler_protocol (expected m1 l)) with (http_handler_protocol (rq0 m1)).
      rewrite first_proto, has_web_c.
      unfold web_on_request_complete. hn.
      assert (WS : is_websocket_upgrade (expected m1 l) = false).
      { unfold is_websocket_upgrade. rewrite (upgrade_false _ (expected_no_upgrade m1 l Hu)). reflexivity. }
      rewrite WS.
      change (path (expected m1 l)) with (path (rq0 m1)). fold (route_of c (rq0 m1)). rewrite Hro.
      unfold web_handle_request. rewrite plugin_j. hn.
      assert (CF : is_complete (expected m1 l) = true) by apply is_complete_expected.
      assert (KF : is_http_1_1_keep_alive (expected m1 l) = true) by exact Hk.
      assert (RF : respond (expected m1 l) = resp m1) by (unfold resp; rewrite expected_sbs, respond_stable; reflexivity).
      rewrite RF, expected_buffer.
      destruct l as [|y l']; cbn [optb].
      + exists (expected m1 []), None, ds, [m1], ms.
        split; [cbn [map concat]; rewrite app_nil_r; reflexivity|]. split; [exact CF|]. split; [exact KF|].
        split; [reflexivity|]. split; [discriminate|]. cbn [Carry]. symmetry. exact Er.
      + rewrite CF. unfold plugin_on_client_data. hn.
        pose (rqC := clear_buffer (expected m1 (y :: l'))).
        match goal with |- context [web_on_client_data c ?a _] => change a with (wstate rqC None (resp m1) ds) end.
        destruct (web_segment rqC None (resp m1) ds ms (y :: l') rest CF KF Ft) as (done' & ms' & po' & E' & L & C');
          [cbn [Carry]; symmetry; exact Er|discriminate|].
        rewrite L.
        exists rqC, po', ds, (m1 :: done'), ms'.
        split; [reflexivity|]. split; [exact CF|]. split; [exact KF|].
        split; [cbn [app]; rewrite <- E'; reflexivity|]. split; [discriminate|exact C'].
  Qed.

  (* schedules: non-empty client segments; anything else except a close by the client *)
  Fixpoint wsched_ok (evs : list event) : Prop :=
    match evs with
    | [] => True
    | EClient seg :: t => seg <> [] /\ wsched_ok t
    | EClientEof :: _ => False
    | _ :: t => wsched_ok t
    end.

  Lemma web_run : forall evs s rest,
    WPhaseA s rest \/ WPhaseB s rest -> wsched_ok evs -> client_bytes evs = rest ->
    WPhaseA (run c s evs) [] \/ WPhaseB (run c s evs) [].
  Proof.
    induction evs as [|ev t IH]; intros s rest I S E.
    - cbn in E. subst rest. exact I.
    - unfold run. cbn [fold_left]. fold (run c (step c s ev) t).
      destruct ev as [seg| |k raw|k|]; cbn [wsched_ok] in S; try contradiction.
      + destruct S as (Hs & S). cbn [client_bytes] in E. subst rest.
        apply (IH _ (client_bytes t)); [|exact S|reflexivity].
        destruct I as [A|B]; [apply wphaseA_client; assumption|right; apply wphaseB_client; assumption].
      + rewrite (wphase_other s (EUp k raw)); [|exists rest; exact I|exact Logic.I]. apply (IH _ rest I S E).
      + rewrite (wphase_other s (EUpEof k)); [|exists rest; exact I|exact Logic.I]. apply (IH _ rest I S E).
      + rewrite (wphase_other s EFlush); [|exists rest; exact I|exact Logic.I]. apply (IH _ rest I S E).
  Qed.

  (* THE WEB SERVER, every packing: each request is answered exactly once, in order, by the plugin
     whose route all of them name; the connection stays open with no request pending *)
  Theorem web_partial ds evs :
    wsched_ok evs -> client_bytes evs = concat (map render (m1 :: ms)) ->
    let s := run c (init ds) evs in
    stat s = Alive /\ pipeline_request s = None /\ pending_request s = false /\ conns s = [] /\
    client_q s = concat (map resp (m1 :: ms)).
  Proof.
    intros S E. cbv zeta.
    assert (I0 : WPhaseA (init ds) (concat (map render (m1 :: ms))) \/ WPhaseB (init ds) (concat (map render (m1 :: ms)))).
    { left. exists (new_parser REQUEST_PARSER), (render m1), ds. split; [reflexivity|]. split; [|reflexivity].
      pose proof class_all as F. inversion F as [|? ? (Hm & Hq & _) _]. apply Pending_new; assumption. }
    destruct (web_run evs _ _ I0 S E) as [A|B].
    - exfalso. destruct A as (p & r & ds' & _ & (Hne & _) & Er). symmetry in Er. apply app_eq_nil in Er. tauto.
    - destruct B as (rqX & po & ds' & done & todo & -> & Hc & Hk & Ed & Hd & C).
      apply Carry_end in C. destruct C as (-> & ->). rewrite app_nil_r in Ed. subst done.
      unfold wstate, pending_request. cbn [stat pipeline_request plugin conns client_q]. repeat split.
  Qed.

  Lemma quiet_wsched : forall evs s, quiet c s evs -> wsched_ok evs.
  Proof.
    induction evs as [|ev t IH]; intros s Q; [exact Logic.I|]. cbn [quiet] in Q. destruct Q as (Qe & Q).
    destruct ev; cbn [wsched_ok]; try contradiction; try (apply (IH _ Q)). split; [exact Qe|apply (IH _ Q)].
  Qed.

  Hypothesis proto_all : Forall (fun m => http_handler_protocol (rq0 m) = WEB_SERVER) (m1 :: ms).

  Lemma web_expected_answer answers m : In m (m1 :: ms) -> expected_answer c answers m = concat (resp m).
  Proof.
    intros Hin. pose proof class_all as F. rewrite Forall_forall in F. destruct (F m Hin) as (_ & _ & _ & _ & Hro).
    pose proof proto_all as P. rewrite Forall_forall in P. specialize (P m Hin).
    unfold expected_answer, names. rewrite P, has_web_c, Hro, plugin_j, plugin_j. reflexivity.
  Qed.

  (* the class is an instance of the full statement *)
  Theorem web_holds : C04_holds c (m1 :: ms).
  Proof.
    intros answers ds evs Q E. cbv zeta. intros _ _.
    destruct (web_partial ds evs (quiet_wsched evs _ Q) E) as (H1 & H2 & H3 & H4 & H5).
    split; [exact H1|]. split; [exact H3|].
    unfold client_stream. rewrite H5. generalize (m1 :: ms) (web_expected_answer answers).
    intros l Hl. induction l as [|m t IH]; [reflexivity|]. cbn [map concat]. rewrite concat_app.
    rewrite (Hl m (or_introl eq_refl)). f_equal. apply IH. intros m' Hin. apply Hl. right. exact Hin.
  Qed.
End Web.

(* ======================================================================================
   5. decidable versions of the hypotheses of C04_holds (for the concrete witnesses)
   ====================================================================================== *)
Fixpoint all_conns (P : nat -> upconn -> bool) (k : nat) (l : list upconn) : bool :=
  match l with [] => true | u :: t => P k u && all_conns P (S k) t end.

Lemma all_conns_sound P : forall l k0, all_conns P k0 l = true ->
  forall k u, nth_error l k = Some u -> P (k0 + k)%nat u = true.
Proof.
  induction l as [|x t IH]; intros k0 H k u E; [destruct k; discriminate|].
  cbn [all_conns] in H. apply andb_true_iff in H. destruct H as (H1 & H2). destruct k as [|k]; cbn [nth_error] in E.
  - inversion E; subst. rewrite Nat.add_0_r. exact H1.
  - rewrite <- plus_n_Sm. apply (IH (S k0) H2 k u E).
Qed.

Definition settledb (s : hstate) : bool :=
  all_conns (fun k u => negb (registered s k) || Nat.eqb (up_nsent u) (length (up_queued u))) O (conns s).

Lemma settledb_sound s : settledb s = true -> settled s.
Proof.
  intros H k u R E. pose proof (all_conns_sound _ _ _ H k u E) as X. cbn [plus] in X.
  rewrite R in X. cbn [negb orb] in X. apply Nat.eqb_eq. exact X.
Qed.

Definition origins_answerb (answers : world) (evs : list event) (s : hstate) : bool :=
  all_conns (fun k u => bytes_eqb (up_bytes k evs)
                          (concat (map (answers (up_host u) (up_port u)) (firstn (up_nsent u) (up_queued u))))) O (conns s).

Lemma origins_answerb_sound answers evs s : origins_answerb answers evs s = true -> origins_answer answers evs s.
Proof.
  intros H k u E. pose proof (all_conns_sound _ _ _ H k u E) as X. cbn [plus] in X. apply bytes_eqb_eq. exact X.
Qed.

Fixpoint quietb (c : cfg) (s : hstate) (evs : list event) : bool :=
  match evs with
  | [] => true
  | ev :: t =>
      match ev with
      | EClient seg => nz seg
      | EUp k raw => nz raw && Nat.ltb k (length (conns s))
      | EFlush => true
      | EClientEof | EUpEof _ => false
      end && quietb c (step c s ev) t
  end.

Lemma quietb_sound c : forall evs s, quietb c s evs = true -> quiet c s evs.
Proof.
  induction evs as [|ev t IH]; intros s H; [exact I|]. cbn [quietb] in H. apply andb_true_iff in H.
  destruct H as (H1 & H2). cbn [quiet]. split; [|apply IH, H2].
  destruct ev as [seg| |k raw|k|]; try discriminate; try exact I.
  - apply nz_true. exact H1.
  - apply andb_true_iff in H1. destruct H1 as (A & B). split; [apply nz_true, A|apply Nat.ltb_lt, B].
Qed.

(* no header is called Upgrade, decidably *)
Definition no_upgradeb (m : message) : bool :=
  forallb (fun nv : hdr => negb (bytes_eqb (lower (fst nv)) L_UPGRADE)) (all_hdrs m).

Lemma no_upgradeb_sound m : no_upgradeb m = true -> no_upgrade m.
Proof.
  unfold no_upgradeb, no_upgrade. rewrite forallb_forall, Forall_forall. intros H nv Hin E.
  specialize (H nv Hin). rewrite E, bytes_eqb_refl in H. discriminate.
Qed.

Ltac msg_ok_tac :=
  unfold message_ok; cbn [m_start m_hs1 m_framing m_hs2 start_ok framing_ok];
  split; [|split; [|split]];
  [ unfold tok; repeat split; try (apply mem_byte_false; vm_compute; reflexivity)
  | repeat constructor; (apply other_ok_dec; [apply hdr_ok_dec|..]; vm_compute; reflexivity)
  | try exact I
  | repeat constructor; (apply other_ok_dec; [apply hdr_ok_dec|..]; vm_compute; reflexivity) ].

(* ======================================================================================
   6. concrete conversations: the witnesses that refute C04_statement outside the proved class,
      and a non-trivial conversation inside it
   ====================================================================================== *)
Definition no_url : url :=
  {| u_scheme := None; u_username := None; u_password := None; u_hostname := None; u_port := None; u_remainder := None |}.
Definition url_of (target : bytes) : url :=
  match from_bytes AL target with Ok u => u | Err _ => no_url end.

Definition mk_req (method target : bytes) (hs1 : list hdr) (f : framing) : message :=
  {| m_start := ReqLine method target (bs "HTTP/1.1") (url_of target); m_hs1 := hs1; m_framing := f; m_hs2 := [] |}.

(* a world whose answers say which origin produced them and for how many request bytes *)
Definition tag_world : world := fun h pt b =>
  bs "HTTP/1.1 200 OK" ++ CRLF ++ bs "X-Host: " ++ h ++ [COLON] ++ dec_of_Z pt ++ CRLF ++
  bs "X-Len: " ++ dec_of_N (len b) ++ CRLF ++ bs "Content-Length: 0" ++ CRLF ++ CRLF.

Definition w_via := bs "1.1 proxy.py v2.4.0".
Definition w_ack := bs "HTTP/1.1 200 Connection established" ++ CRLF ++ CRLF.
Definition w_bad := bs "HTTP/1.1 400 Bad Request" ++ CRLF ++ CRLF.
Definition w_nf := bs "HTTP/1.1 404 NOT FOUND" ++ CRLF ++ CRLF.

(* (b) forward proxy, second request names another origin *)
Definition cc_forward : ccfg := mkCC w_via [] w_ack w_bad w_nf true false false false [] [].
Definition req_a1 := mk_req (bs "GET") (bs "http://a.com/1") [(bs "Host", bs "a.com")] FNone.
Definition req_bx := mk_req (bs "GET") (bs "http://b.com/x") [(bs "Host", bs "b.com")] FNone.

Ltac wf_req_tac :=
  split; [msg_ok_tac|]; split; [reflexivity|]; split; [apply no_upgradeb_sound; vm_compute; reflexivity|];
  split; [vm_compute; reflexivity|]; split; [vm_compute; reflexivity|]; vm_compute; discriminate.

Lemma wf_other_origin : wf_conversation (cfg_of cc_forward) [req_a1; req_bx].
Proof.
  cbn [wf_conversation]. split.
  - apply Forall_cons; [wf_req_tac|apply Forall_cons; [wf_req_tac|apply Forall_nil]].
  - apply Forall_cons; [reflexivity|apply Forall_cons; [vm_compute; reflexivity|apply Forall_nil]].
Qed.

(* how a concrete run refutes C04_holds: all hypotheses hold (decidably) and the client's stream is
   not the expected one *)
Lemma refute_by_run (c : cfg) reqs (answers : world) ds evs :
  quietb c (init ds) evs = true ->
  bytes_eqb (client_bytes evs) (concat (map render reqs)) = true ->
  settledb (run c (init ds) evs) = true ->
  origins_answerb answers evs (run c (init ds) evs) = true ->
  bytes_eqb (client_stream (run c (init ds) evs)) (concat (map (expected_answer c answers) reqs)) = false ->
  ~ C04_holds c reqs.
Proof.
  intros Q E S O X H.
  destruct (H answers ds evs (quietb_sound _ _ _ Q) (proj1 (bytes_eqb_eq _ _) E)
              (settledb_sound _ S) (origins_answerb_sound _ _ _ O)) as (_ & _ & Hc).
  rewrite Hc, bytes_eqb_refl in X. discriminate.
Qed.

(* both requests in their own segment; the one upstream connection (to a.com) answers both *)
Definition evs_other_origin : list event :=
  let c := cfg_of cc_forward in
  [ EClient (render req_a1); EClient (render req_bx); EFlush;
    EUp O (tag_world (bs "a.com") 80%Z (fwd c req_a1));
    EUp O (tag_world (bs "a.com") 80%Z
             (match snd (rebuild_for_upstream c false (rq0 req_bx)) with Ok x => x | Err _ => [] end)) ].

Theorem other_origin_refuted : ~ C04_holds (cfg_of cc_forward) [req_a1; req_bx].
Proof.
  apply (refute_by_run _ _ tag_world [] evs_other_origin); vm_compute; reflexivity.
Qed.

(* what happens instead: one connection, to the FIRST origin, gets both requests *)
Lemma other_origin_behaviour :
  let s := run (cfg_of cc_forward) (init []) evs_other_origin in
  connect_log s = [(bs "a.com", 80%Z)] /\ length (up_queued (nth O (conns s) (mkUp [] 0 [] O true))) = 2%nat /\
  names (cfg_of cc_forward) req_bx = TOrigin (bs "b.com") 80%Z (fwd (cfg_of cc_forward) req_bx).
Proof. vm_compute. repeat split. Qed.

(* (c) web server, two local plugins; the second request names the route of the other plugin *)
Definition cc_web : ccfg :=
  mkCC w_via [] w_ack w_bad w_nf true true false false [(bs "/a", O); (bs "/b", 1%nat)] [CLocal (bs "PlugA"); CLocal (bs "PlugB")].
Definition req_wa := mk_req (bs "GET") (bs "/a1") [(bs "Host", bs "me")] FNone.
Definition req_wb := mk_req (bs "GET") (bs "/b1") [(bs "Host", bs "me")] FNone.

Lemma wf_web_route : wf_conversation (cfg_of cc_web) [req_wa; req_wb].
Proof.
  cbn [wf_conversation]. split.
  - apply Forall_cons; [wf_req_tac|apply Forall_cons; [wf_req_tac|apply Forall_nil]].
  - apply Forall_cons; [reflexivity|apply Forall_cons; [vm_compute; reflexivity|apply Forall_nil]].
Qed.

Definition evs_web_route : list event := [ EClient (render req_wa); EFlush; EClient (render req_wb); EFlush ].

Theorem web_route_refuted : ~ C04_holds (cfg_of cc_web) [req_wa; req_wb].
Proof.
  apply (refute_by_run _ _ tag_world [] evs_web_route); vm_compute; reflexivity.
Qed.

(* what happens instead: PlugA, the route of the first request, answers the request naming PlugB *)
Lemma web_route_behaviour :
  client_q (run (cfg_of cc_web) (init []) evs_web_route) = tag_respond (bs "PlugA") (rq0 req_wa) ++ tag_respond (bs "PlugA") (rq0 req_wb) /\
  names (cfg_of cc_web) req_wb = TLocal 1%nat.
Proof. vm_compute. split; reflexivity. Qed.

(* (d) reverse proxy, two keep-alive requests for the same route; the second arrives before the
   first upstream has answered *)
Definition cc_reverse : ccfg :=
  mkCC w_via [] w_ack w_bad w_nf true true false false [(bs "/x", O)]
       [CReverse [[(bs "/x", [bs "http://up-x.example:8001/base"])]]].
Definition req_x1 := mk_req (bs "GET") (bs "/x1") [(bs "Host", bs "me")] FNone.
Definition req_x2 := mk_req (bs "GET") (bs "/x2") [(bs "Host", bs "me")] FNone.

Lemma wf_reverse_followup : wf_conversation (cfg_of cc_reverse) [req_x1; req_x2].
Proof.
  cbn [wf_conversation]. split.
  - apply Forall_cons; [wf_req_tac|apply Forall_cons; [wf_req_tac|apply Forall_nil]].
  - apply Forall_cons; [reflexivity|apply Forall_cons; [vm_compute; reflexivity|apply Forall_nil]].
Qed.

Definition sent_of (c : cfg) (m : message) : bytes := match names c m with TOrigin _ _ b => b | _ => [] end.

Definition evs_reverse_followup : list event :=
  let c := cfg_of cc_reverse in
  [ EClient (render req_x1); EFlush; EClient (render req_x2); EFlush;
    EUp O (tag_world (bs "up-x.example") 8001%Z (sent_of c req_x1));
    EUp 1%nat (tag_world (bs "up-x.example") 8001%Z (sent_of c req_x2)) ].

Theorem reverse_followup_refuted : ~ C04_holds (cfg_of cc_reverse) [req_x1; req_x2].
Proof.
  apply (refute_by_run _ _ tag_world [] evs_reverse_followup); vm_compute; reflexivity.
Qed.

(* what happens instead: a second connection replaces the first, whose answer is never read; the
   client receives one response for two requests *)
Lemma reverse_followup_behaviour :
  let c := cfg_of cc_reverse in
  let s := run c (init []) evs_reverse_followup in
  connect_log s = [(bs "up-x.example", 8001%Z); (bs "up-x.example", 8001%Z)] /\
  upstream s = Some 1%nat /\
  client_stream s = tag_world (bs "up-x.example") 8001%Z (sent_of c req_x2).
Proof. vm_compute. repeat split. Qed.

(* the same conversation with both requests in ONE segment: the first request is queued on a
   connection that is replaced before it is ever flushed — its origin never sees it *)
Lemma reverse_followup_one_segment :
  let c := cfg_of cc_reverse in
  let s := run c (init []) [EClient (render req_x1 ++ render req_x2); EFlush] in
  map up_stream (conns s) = [[]; sent_of c req_x2] /\ map up_all (conns s) = [sent_of c req_x1; sent_of c req_x2].
Proof. vm_compute. split; reflexivity. Qed.

Theorem statement_refuted : ~ C04_statement.
Proof. intros H. exact (other_origin_refuted (H _ _ wf_other_origin)). Qed.

(* ---- inside the proved class: three requests to one origin — a GET, a chunked POST (three
   chunks with extensions and a trailer), a POST with Content-Length — sent as [1 1/2 requests]
   [the rest], the origin answering in two bursts ---- *)
Definition req_a2 := mk_req (bs "POST") (bs "http://a.com/up?x=1") [(bs "Host", bs "a.com"); (bs "Proxy-Connection", bs "keep-alive")]
                            (FChunked (bs "Transfer-Encoding") (bs "chunked") example_stream).
Definition req_a3 := mk_req (bs "POST") (bs "http://a.com/3") [(bs "Host", bs "a.com")]
                            (FLength (bs "Content-Length") (bs "5") (bs "hello")).
Definition reqs3 := [req_a1; req_a2; req_a3].
Definition stream3 : bytes := concat (map render reqs3).
Definition cut3 : nat := (length (render req_a1) + length (render req_a2) / 2)%nat.
Definition evs3 : list event :=
  let c := cfg_of cc_forward in
  let ans m := tag_world (bs "a.com") 80%Z (fwd c m) in
  [ EClient (firstn cut3 stream3); EFlush; EUp O (ans req_a1);
    EClient (skipn cut3 stream3); EFlush; EUp O (ans req_a2 ++ firstn 10 (ans req_a3)); EUp O (skipn 10 (ans req_a3)) ].

Lemma reqs3_class : Forall (fwd_class (cfg_of cc_forward) (bs "a.com") 80%Z) reqs3.
Proof.
  assert (T : forall m, message_ok AL m -> is_req m -> no_upgradeb m = true ->
                        is_https_tunnel (rq0 m) = false -> origin_of (rq0 m) = Some (bs "a.com", 80%Z) ->
                        (exists x, fwd_bytes (cfg_of cc_forward) m = Ok x) -> fwd_class (cfg_of cc_forward) (bs "a.com") 80%Z m).
  { intros m A B C D E F. exact (conj A (conj B (conj (no_upgradeb_sound m C) (conj D (conj E F))))). }
  apply Forall_cons; [|apply Forall_cons; [|apply Forall_cons; [|apply Forall_nil]]]; apply T;
    try (vm_compute; reflexivity); try (eexists; vm_compute; reflexivity).
  - msg_ok_tac.
  - msg_ok_tac. split; [apply hdr_ok_dec; vm_compute; reflexivity|]. split; [vm_compute; reflexivity|].
    split; [vm_compute; reflexivity|apply example_stream_ok].
  - msg_ok_tac. split; [apply hdr_ok_dec; vm_compute; reflexivity|]. split; vm_compute; reflexivity.
Qed.

Lemma nonvacuous_run :
  let c := cfg_of cc_forward in
  sched_ok (length (render req_a1)) evs3 /\ client_bytes evs3 = stream3 /\
  (length (render req_a1) < cut3 < length (render req_a1) + length (render req_a2))%nat /\
  let s := run c (init []) evs3 in
  map up_queued (conns s) = [map (fwd c) reqs3] /\
  client_stream s = concat (map (expected_answer c tag_world) reqs3) /\
  stat s = Alive /\ pending_request s = false.
Proof.
  cbv zeta. split.
  - cbn [sched_ok evs3]. repeat split; try (vm_compute; discriminate); vm_compute; reflexivity.
  - split; [vm_compute; reflexivity|]. split; [vm_compute; split; repeat constructor|].
    vm_compute. repeat split.
Qed.
