(* Net/ConversationCases.v — correspondence cases for the conversation model: a configuration as
   first-order data, the event list the harness delivered to the REAL HttpProtocolHandler, and what
   the implementation did (connect log, bytes received by every upstream peer, bytes received by
   the client, teardown / escaped exception, whether a partial request is still waiting). *)
From PM Require Import Lib.Bytes Lib.PyStr Http.Url Http.Chunk Http.Parser Http.Builders Net.Conversation.
From Coq Require Import ZArith.

(* web-server plugins of the harness *)
Inductive cplugin :=
| CLocal (name : bytes)                                       (* the harness's tagged local plugin *)
| CReverse (rplugins : list (list (bytes * list bytes))).     (* proxy.http.server.ReverseProxy *)

Definition or_dash (o : option bytes) : bytes := match o with Some (x :: t) => x :: t | _ => [45] end.

(* TaggedPlugin.handle_request of harness/props/C04.py: one piece naming the plugin, the request
   path, the method and the length of the (decoded) body *)
Definition tag_respond (name : bytes) (p : parser) : list bytes :=
  [ bs "HTTP/1.1 200 OK" ++ CRLF ++ bs "X-Route: " ++ name ++ CRLF ++
    bs "X-Req: " ++ or_dash (path p) ++ CRLF ++
    bs "X-Method: " ++ or_dash (method p) ++ CRLF ++
    bs "X-Body: " ++ dec_of_N (len (or_empty (body p))) ++ CRLF ++
    bs "Content-Length: 2" ++ CRLF ++ CRLF ++ bs "ok" ].

Definition plugin_of (p : cplugin) : wplugin :=
  match p with CLocal name => WLocal (tag_respond name) | CReverse r => WReverse r end.

(* the harness only uses regexes without metacharacters: re.match(regex, text) = text.startswith(regex) *)
Definition lit_match (re t : bytes) : bool := is_prefix re t.

Record ccfg := mkCC {
  cc_via : bytes; cc_disable : list bytes; cc_ack : bytes; cc_bad : bytes; cc_nf : bytes;
  cc_proxy : bool; cc_web : bool; cc_static : bool; cc_rewrite : bool;
  cc_routes : list (bytes * nat); cc_plugins : list cplugin }.

Definition cfg_of (cc : ccfg) : cfg :=
  mkCfg (cc_via cc) (cc_disable cc) (cc_ack cc) (cc_bad cc) (cc_nf cc) (cc_proxy cc) (cc_web cc)
        (cc_static cc) (cc_rewrite cc) lit_match (cc_routes cc) (map plugin_of (cc_plugins cc)).

Record expect := mkX {
  x_connect : list (bytes * Z);   (* sim.connect_log *)
  x_up : list bytes;              (* FakeSock.out of every upstream socket, in connect order *)
  x_client : bytes;               (* FakeSock.out of the client socket *)
  x_status : N;                   (* 0 alive, 1 torn down, 1000 + exn_code: exception escaped handle_events *)
  x_pending : bool }.             (* a partly received request waits in request / pipeline_request (alive only) *)

Inductive case := Case (cc : ccfg) (ds : list nat) (evs : list event) (x : expect).

Definition addr_eqb (a b : bytes * Z) : bool := bytes_eqb (fst a) (fst b) && (snd a =? snd b)%Z.

(* while a connection is torn down an upstream may or may not be served once more (C07's subject):
   what its peer has is between what it had at the last flush and everything queued *)
Definition between (u : upconn) (got : bytes) : bool :=
  is_prefix (up_stream u) got && is_prefix got (up_all u).

Fixpoint list_eqb2 {A B} (f : A -> B -> bool) (x : list A) (y : list B) : bool :=
  match x, y with
  | [], [] => true
  | a :: x', c :: y' => f a c && list_eqb2 f x' y'
  | _, _ => false
  end.

Definition obs_eqb (s : hstate) (x : expect) : bool :=
  list_eqb addr_eqb (connect_log s) (x_connect x) &&
  (if status_code s =? 0 then list_eqb bytes_eqb (map up_stream (conns s)) (x_up x)
   else list_eqb2 between (conns s) (x_up x)) &&
  (* after an exception escaped handle_events the work is dropped at once: the client has a prefix of what was queued *)
  (if status_code s <? 1000 then bytes_eqb (client_stream s) (x_client x) else is_prefix (x_client x) (client_stream s)) &&
  (status_code s =? x_status x) &&
  (if status_code s =? 0 then Bool.eqb (pending_request s) (x_pending x) else true).

Definition run_case (cc : ccfg) (ds : list nat) (evs : list event) : hstate :=
  run (cfg_of cc) (init ds) evs.

Definition check_case (k : case) : bool :=
  match k with Case cc ds evs x => obs_eqb (run_case cc ds evs) x end.

(* what the model computes, for replay files *)
Definition model_obs (cc : ccfg) (ds : list nat) (evs : list event)
  : list (bytes * Z) * list bytes * bytes * N * bool :=
  let s := run_case cc ds evs in
  (connect_log s, map up_stream (conns s), client_stream s, status_code s, pending_request s).
