(* Model of the response builders of proxy.py, function by function:
     proxy/common/utils.py     build_http_response, build_http_header, build_http_pkt
     proxy/http/responses.py   the canned packets, okResponse, permanentRedirectResponse, seeOthersResponse
     proxy/http/exception/*.py response() of HttpProtocolException and its three subclasses
   and an RFC 7230 recogniser for responses (status line, header fields, message framing of
   section 3.3.3) used as the well-formedness specification.  Definitions only; lemmas are in
   ResponsesFacts.v.  (Http/Builders.v of agent-C15 did not exist when this was written; the
   builder part is meant to be merged with it.) *)
From PM Require Import Lib.Bytes Lib.PyStr.
From Coq Require Import ZArith.

(* Dict[bytes, bytes]: insertion ordered, keys distinct *)
Definition hdrs := dict bytes.

Definition is_nil {A} (l : list A) : bool := match l with [] => true | _ => false end.
(* Python truthiness of Optional[bytes] / Optional[dict] *)
Definition truthy (b : option bytes) : bool := match b with Some (_ :: _) => true | _ => false end.
Definition bytes_or_empty (b : option bytes) : bytes := match b with Some x => x | None => [] end.
(* `headers or {}` *)
Definition hdrs_or_empty (h : option hdrs) : hdrs := match h with Some x => x | None => [] end.

Definition K_CONTENT_LENGTH := bytes_of_string "Content-Length".
Definition K_CONNECTION := bytes_of_string "Connection".
Definition V_CLOSE := bytes_of_string "close".
Definition L_CONTENT_LENGTH := bytes_of_string "content-length".
Definition L_TRANSFER_ENCODING := bytes_of_string "transfer-encoding".
Definition L_CONNECTION := bytes_of_string "connection".
Definition HTTP11 := bytes_of_string "HTTP/1.1".

(* ---------------------------------------------------------------- proxy/common/utils.py *)
(* _header_key(headers, name): the spelling under which name is already present, else name
   (same definition as Http/Builders.v) *)
Fixpoint header_key (headers : hdrs) (name : bytes) : bytes :=
  match headers with
  | [] => name
  | (k, _) :: t => if bytes_eqb (lower k) (lower name) then k else header_key t name
  end.

(* build_http_header *)
Definition build_http_header (k v : bytes) : bytes := k ++ [COLON] ++ [SP] ++ v.

(* build_http_pkt(line, headers, body, conn_close) *)
Definition build_http_pkt (line : list bytes) (headers : option hdrs) (body : option bytes)
    (conn_close : bool) : bytes :=
  let pkt := join [SP] line ++ CRLF in
  let headers := hdrs_or_empty headers in
  let headers := if conn_close then dict_set (header_key headers K_CONNECTION) V_CLOSE headers else headers in
  (* for k, v in headers.items(): pkt += build_http_header(k, v) + CRLF *)
  let pkt := fold_left (fun pkt kv => pkt ++ build_http_header (fst kv) (snd kv) ++ CRLF) headers pkt in
  let pkt := pkt ++ CRLF in
  if truthy body then pkt ++ bytes_or_empty body else pkt.

(* the arguments of build_http_response; status_code is a Python int *)
Record bargs := {
  a_status : Z; a_version : bytes; a_reason : option bytes; a_headers : option hdrs;
  a_body : option bytes; a_conn_close : bool; a_no_cl : bool }.

Definition has_te (h : hdrs) : bool :=
  existsb (fun kv => bytes_eqb (lower (fst kv)) L_TRANSFER_ENCODING) h.

(* build_http_response *)
Definition build_http_response (a : bargs) : bytes :=
  let line := [a_version a; dec_of_Z (a_status a)] ++
              (if truthy (a_reason a) then [bytes_or_empty (a_reason a)] else []) in
  let headers := hdrs_or_empty (a_headers a) in
  let headers :=
    if negb (has_te headers) && negb (a_no_cl a) then
      dict_set (header_key headers K_CONTENT_LENGTH)
               (if truthy (a_body a) then dec_of_N (len (bytes_or_empty (a_body a))) else [48])
               headers
    else headers in
  build_http_pkt line (Some headers) (a_body a) (a_conn_close a).

(* keyword-argument defaults *)
Definition mk_args (status : Z) (reason : option bytes) (headers : option hdrs) (body : option bytes)
    (conn_close no_cl : bool) : bargs :=
  {| a_status := status; a_version := HTTP11; a_reason := reason; a_headers := headers;
     a_body := body; a_conn_close := conn_close; a_no_cl := no_cl |}.

(* ---------------------------------------------------------------- proxy/http/responses.py *)
(* [agent] is PROXY_AGENT_HEADER_VALUE = b'proxy.py v' + version: a parameter of the model *)
Definition K_PROXY_AGENT := bytes_of_string "Proxy-agent".
Definition K_SERVER := bytes_of_string "Server".

Definition TUNNEL_ESTABLISHED_ARGS : bargs :=
  mk_args 200 (Some (bytes_of_string "Connection established")) None None false true.
Definition TUNNEL_UNSUPPORTED_SCHEME_ARGS : bargs :=
  mk_args 400 (Some (bytes_of_string "Unsupported protocol scheme")) None None true true.
Definition AUTH_FAILED_ARGS (agent : bytes) : bargs :=
  mk_args 407 (Some (bytes_of_string "Proxy Authentication Required"))
    (Some [(K_PROXY_AGENT, agent); (bytes_of_string "Proxy-Authenticate", bytes_of_string "Basic")])
    (Some (bytes_of_string "Proxy Authentication Required")) true true.
Definition BAD_REQUEST_ARGS (agent : bytes) : bargs :=
  mk_args 400 (Some (bytes_of_string "BAD REQUEST")) (Some [(K_SERVER, agent)]) None true false.
Definition NOT_FOUND_ARGS (agent : bytes) : bargs :=
  mk_args 404 (Some (bytes_of_string "NOT FOUND")) (Some [(K_SERVER, agent)]) None true false.
Definition NOT_IMPLEMENTED_ARGS (agent : bytes) : bargs :=
  mk_args 501 (Some (bytes_of_string "NOT IMPLEMENTED")) (Some [(K_SERVER, agent)]) None true false.
Definition BAD_GATEWAY_ARGS (agent : bytes) : bargs :=
  mk_args 502 (Some (bytes_of_string "Bad Gateway")) (Some [(K_PROXY_AGENT, agent)])
    (Some (bytes_of_string "Bad Gateway")) true true.

Definition PROXY_TUNNEL_ESTABLISHED_RESPONSE_PKT : bytes := build_http_response TUNNEL_ESTABLISHED_ARGS.
Definition PROXY_TUNNEL_UNSUPPORTED_SCHEME : bytes := build_http_response TUNNEL_UNSUPPORTED_SCHEME_ARGS.
Definition PROXY_AUTH_FAILED_RESPONSE_PKT (agent : bytes) : bytes := build_http_response (AUTH_FAILED_ARGS agent).
Definition BAD_REQUEST_RESPONSE_PKT (agent : bytes) : bytes := build_http_response (BAD_REQUEST_ARGS agent).
Definition NOT_FOUND_RESPONSE_PKT (agent : bytes) : bytes := build_http_response (NOT_FOUND_ARGS agent).
Definition NOT_IMPLEMENTED_RESPONSE_PKT (agent : bytes) : bytes := build_http_response (NOT_IMPLEMENTED_ARGS agent).
Definition BAD_GATEWAY_RESPONSE_PKT (agent : bytes) : bytes := build_http_response (BAD_GATEWAY_ARGS agent).

Definition K_CONTENT_ENCODING := bytes_of_string "Content-Encoding".
Definition V_GZIP := bytes_of_string "gzip".

(* okResponse(content, headers, compress, min_compression_length, **kwargs); the keyword
   arguments passed on by the callers in /repo are conn_close (and nothing else); no_cl is
   modelled too.  gzip.compress enters as the function [gz]. *)
Definition okResponse_args (gz : bytes -> bytes) (content : option bytes) (headers : option hdrs)
    (compress : bool) (min_compression_length : Z) (conn_close no_cl : bool) : bargs :=
  let do_compress := compress && truthy content &&
                     (min_compression_length <? Z.of_nat (length (bytes_or_empty content)))%Z in
  let headers :=
    if do_compress then
      (* if not headers: headers = {};  headers.update({b'Content-Encoding': b'gzip'}) *)
      Some (dict_set K_CONTENT_ENCODING V_GZIP (hdrs_or_empty headers))
    else headers in
  mk_args 200 (Some (bytes_of_string "OK")) headers
    (if do_compress then Some (gz (bytes_or_empty content)) else content) conn_close no_cl.
Definition okResponse gz content headers compress min_len conn_close no_cl : bytes :=
  build_http_response (okResponse_args gz content headers compress min_len conn_close no_cl).

Definition K_LOCATION := bytes_of_string "Location".
Definition redirect_args (status : Z) (reason : bytes) (location : bytes) : bargs :=
  mk_args status (Some reason) (Some [(K_LOCATION, location); (K_CONTENT_LENGTH, [48])]) None true false.
Definition permanentRedirectResponse (location : bytes) : bytes :=
  build_http_response (redirect_args 308 (bytes_of_string "Permanent Redirect") location).
Definition seeOthersResponse (location : bytes) : bytes :=
  build_http_response (redirect_args 303 (bytes_of_string "See Other") location).

(* ---------------------------------------------------------------- proxy/http/exception/*.py *)
(* the HttpProtocolException classes as data *)
Inductive proto_exn :=
| PlainProtocol (k : N)                                   (* HttpProtocolException itself *)
| RequestRejected (status : option Z) (reason : option bytes) (headers : option hdrs) (body : option bytes)
| AuthFailed                                              (* ProxyAuthenticationFailed *)
| ConnFailed                                              (* ProxyConnectionFailed *)
| CustomProtocol (r : option bytes).                      (* a user subclass: response() returns r *)

Definition request_rejected_args (status : Z) reason headers body : bargs :=
  mk_args status reason headers body true false.

(* e.response(request) *)
Definition exn_response (agent : bytes) (e : proto_exn) : option bytes :=
  match e with
  | PlainProtocol _ => None
  | RequestRejected status reason headers body =>
      match status with
      | Some s => if (s =? 0)%Z then None      (* `if self.status_code:` *)
                  else Some (build_http_response (request_rejected_args s reason headers body))
      | None => None
      end
  | AuthFailed => Some (PROXY_AUTH_FAILED_RESPONSE_PKT agent)
  | ConnFailed => Some (BAD_GATEWAY_RESPONSE_PKT agent)
  | CustomProtocol r => r
  end.

(* ================================================================ RFC 7230 recogniser *)
(* token characters (section 3.2.6) *)
Definition is_tchar (x : N) : bool :=
  is_digit x || is_alpha x || mem_byte x (bytes_of_string "-!#$%&'*+.^_`|~").
(* field-vchar = VCHAR / obs-text; field-value and reason-phrase also admit SP and HTAB *)
Definition is_field_vchar (x : N) : bool := ((33 <=? x) && (x <=? 126)) || ((128 <=? x) && (x <=? 255)).
Definition is_ows (x : N) : bool := (x =? 32) || (x =? 9).
Definition is_field_char (x : N) : bool := is_field_vchar x || is_ows x.
Definition is_token (l : bytes) : bool := negb (is_nil l) && forallb is_tchar l.

Fixpoint lstrip_ows (l : bytes) : bytes :=
  match l with x :: t => if is_ows x then lstrip_ows t else l | [] => [] end.
Definition strip_ows (l : bytes) : bytes := rev (lstrip_ows (rev (lstrip_ows l))).

(* HTTP-version = "HTTP/" DIGIT "." DIGIT *)
Definition is_http_version (v : bytes) : bool :=
  is_prefix (bytes_of_string "HTTP/") v &&
  match skipn 5 v with
  | [d1; dot; d2] => is_digit d1 && (dot =? 46) && is_digit d2
  | _ => false
  end.

Definition dec_val (l : bytes) : N := fold_left (fun a d => a * 10 + (d - 48)) l 0.

(* status-line = HTTP-version SP status-code SP reason-phrase   (without the CRLF).
   strict = false additionally accepts a missing " reason-phrase" (what h11 and RFC 9112
   section 4 recipients accept); strict = true is the RFC 7230 grammar. *)
Definition parse_status_line (strict : bool) (line : bytes) : option (bytes * N * option bytes) :=
  match split_once [SP] line with
  | None => None
  | Some (ver, rest) =>
      if negb (is_http_version ver) then None else
      let code := firstn 3 rest in
      if negb (Nat.eqb (length code) 3 && forallb is_digit code) then None else
      match skipn 3 rest with
      | [] => if strict then None else Some (ver, dec_val code, None)
      | c :: reason =>
          if (c =? SP) && forallb is_field_char reason then Some (ver, dec_val code, Some reason)
          else None
      end
  end.

(* *( header-field CRLF ) CRLF : returns the fields (values OWS-stripped) and what follows *)
Fixpoint parse_header_fields (fuel : nat) (raw : bytes) : option (list (bytes * bytes) * bytes) :=
  match fuel with
  | O => None
  | S f =>
      match split_once CRLF raw with
      | None => None
      | Some (line, rest) =>
          if is_nil line then Some ([], rest) else
          match split_once [COLON] line with
          | None => None
          | Some (name, value) =>
              if is_token name && forallb is_field_char value then
                match parse_header_fields f rest with
                | Some (hs, body) => Some ((name, strip_ows value) :: hs, body)
                | None => None
                end
              else None
          end
      end
  end.

Definition header_values (lname : bytes) (hs : list (bytes * bytes)) : list bytes :=
  map snd (filter (fun kv => bytes_eqb (lower (fst kv)) lname) hs).

Definition has_conn_close (hs : list (bytes * bytes)) : bool :=
  existsb (fun v => bytes_eqb (lower v) V_CLOSE) (header_values L_CONNECTION hs).

Inductive framing := NoBody | Counted (n : N) | UntilClose.

(* message body length, RFC 7230 section 3.3.3, for a response.  [connect] = the request was a
   CONNECT.  None = not a final response this recogniser accepts: informational status,
   Transfer-Encoding (outside its domain), or invalid / conflicting Content-Length. *)
Definition body_framing (connect : bool) (status : N) (hs : list (bytes * bytes)) : option framing :=
  let cls := header_values L_CONTENT_LENGTH hs in
  let cl_valid := match cls with
                  | [] => true
                  | v :: t => negb (is_nil v) && forallb is_digit v && forallb (bytes_eqb v) t
                  end in
  if status <? 200 then None
  else if negb (is_nil (header_values L_TRANSFER_ENCODING hs)) then None
  else if negb cl_valid then None
  else if (status =? 204) || (status =? 304) then Some NoBody
  else if connect && (status <? 300) then Some NoBody
  else match cls with
       | [] => Some UntilClose
       | v :: _ => Some (Counted (dec_val v))
       end.

Record rview := {
  rv_version : bytes; rv_status : N; rv_reason : option bytes;
  rv_headers : list (bytes * bytes); rv_framing : framing; rv_body : bytes }.

Definition recognise (strict connect : bool) (raw : bytes) : option rview :=
  match split_once CRLF raw with
  | None => None
  | Some (line, rest) =>
      match parse_status_line strict line with
      | None => None
      | Some (ver, status, reason) =>
          match parse_header_fields (S (length rest)) rest with
          | None => None
          | Some (hs, body) =>
              match body_framing connect status hs with
              | None => None
              | Some f => Some {| rv_version := ver; rv_status := status; rv_reason := reason;
                                  rv_headers := hs; rv_framing := f; rv_body := body |}
              end
          end
      end
  end.

(* the bytes after the header section are exactly one body under the framing:
   counted = exactly Content-Length octets; none = nothing; close-delimited = the response
   itself announces `Connection: close` (the peer learns the length from the close) *)
Definition framing_ok (v : rview) : bool :=
  match rv_framing v with
  | NoBody => is_nil (rv_body v)
  | Counted n => len (rv_body v) =? n
  | UntilClose => has_conn_close (rv_headers v)
  end.

Definition wf_response_gen (strict connect : bool) (raw : bytes) : bool :=
  match recognise strict connect raw with Some v => framing_ok v | None => false end.
(* the specification used by C06: exactly one complete, syntactically valid response *)
Definition wf_response (connect : bool) (raw : bytes) : bool := wf_response_gen false connect raw.
Definition wf_response_strict (connect : bool) (raw : bytes) : bool := wf_response_gen true connect raw.

(* ---------------------------------------------------------------- domain of the builders *)
Fixpoint nodup_keys (h : hdrs) : bool :=
  match h with
  | [] => true
  | (k, _) :: t => negb (dict_has k t) && nodup_keys t
  end.

Definition status_no_body (connect : bool) (status : Z) : bool :=
  (status =? 204)%Z || (status =? 304)%Z || (connect && (status <? 300)%Z).

(* arguments for which build_http_response is required to produce a well-formed response *)
Definition wf_args (connect : bool) (a : bargs) : bool :=
  let hs := hdrs_or_empty (a_headers a) in
  is_http_version (a_version a) &&
  (200 <=? a_status a)%Z && (a_status a <=? 999)%Z &&
  match a_reason a with Some r => forallb is_field_char r | None => true end &&
  nodup_keys hs &&
  forallb (fun kv => is_token (fst kv) && forallb is_field_char (snd kv)) hs &&
  negb (has_te hs) &&
  (* a caller-supplied Content-Length (in any spelling) must be the one key build_http_response
     overwrites: at most one such key, and not together with no_cl *)
  forallb (fun kv => if bytes_eqb (lower (fst kv)) L_CONTENT_LENGTH
                     then negb (a_no_cl a) && bytes_eqb (fst kv) (header_key hs K_CONTENT_LENGTH)
                     else true) hs &&
  (* statuses that cannot carry a body are given none *)
  (if status_no_body connect (a_status a) then negb (truthy (a_body a)) else true) &&
  (* without Content-Length the body is close-delimited: the response must say so *)
  (if a_no_cl a && negb (status_no_body connect (a_status a))
   then a_conn_close a else true).

(* the response the arguments describe: what a recipient must see *)
Definition final_headers (a : bargs) : hdrs :=
  let hs := hdrs_or_empty (a_headers a) in
  let hs := if negb (has_te hs) && negb (a_no_cl a) then
              dict_set (header_key hs K_CONTENT_LENGTH)
                (if truthy (a_body a) then dec_of_N (len (bytes_or_empty (a_body a))) else [48]) hs
            else hs in
  if a_conn_close a then dict_set (header_key hs K_CONNECTION) V_CLOSE hs else hs.

Definition intended_body (a : bargs) : bytes := if truthy (a_body a) then bytes_or_empty (a_body a) else [].

Definition norm_header (kv : bytes * bytes) : bytes * bytes := (fst kv, strip_ows (snd kv)).

(* ---------------------------------------------------------------- domains of the convenience builders *)
(* the version string in PROXY_AGENT_HEADER_VALUE is a legal field value *)
Definition wf_agent (agent : bytes) : bool := forallb is_field_char agent.

(* caller-supplied extra headers of okResponse: distinct legal names, legal values, no framing
   headers (okResponse / build_http_response add those themselves) *)
Definition wf_user_headers (headers : option hdrs) : bool :=
  let hs := hdrs_or_empty headers in
  nodup_keys hs &&
  forallb (fun kv => is_token (fst kv) && forallb is_field_char (snd kv)) hs &&
  negb (has_te hs) &&
  forallb (fun kv => negb (bytes_eqb (lower (fst kv)) L_CONTENT_LENGTH)) hs.

(* the HttpProtocolException classes whose response() builds a well-formed packet *)
Definition wf_proto_exn (connect : bool) (agent : bytes) (e : proto_exn) : bool :=
  match e with
  | PlainProtocol _ => true
  | RequestRejected (Some s) reason headers body =>
      if (s =? 0)%Z then true else wf_args connect (request_rejected_args s reason headers body)
  | RequestRejected None _ _ _ => true
  | AuthFailed | ConnFailed => wf_agent agent
  | CustomProtocol (Some r) => wf_response connect r     (* a user class answers for itself *)
  | CustomProtocol None => true
  end.
