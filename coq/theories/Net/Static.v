(* C13 — model of the static file server of proxy.py (definitions only; lemmas in StaticFacts.v).

   Python                                              Gallina
   ------------------------------------------------    ---------------------------------
   str.split('/')                                      split_byte 47
   str.split('?', 1)[0]                                before_q
   str.rstrip('/')                                     rstrip_byte 47
   posixpath.normpath                                  initial_slashes, norm_comps, normpath
   proxy/common/utils.py  build_http_header            build_http_header
                          build_http_pkt               build_http_pkt
                          build_http_response          build_http_response
   proxy/http/responses.py okResponse                  okResponse_args, okResponse
                          NOT_FOUND_RESPONSE_PKT       NOT_FOUND_RESPONSE_PKT
   open(path, 'rb').read()                             py_open        (file system = Section variable fs)
   proxy/http/server/plugin.py serve_static_file       serve_static_file
   proxy/http/server/web.py _try_static_or_404         confinement_check, try_static_or_404
                            on_request_complete        on_request_complete_static (no route matched,
                                                       static server enabled)

   Paths are byte strings (UTF-8).  The Python code works on str after text_(path); every
   character it looks at ('/', '.', '?') is ASCII and UTF-8 is self-synchronising, so splitting
   the UTF-8 bytes is splitting the code points; open() re-encodes the str with the file system
   encoding (UTF-8), which gives back the same bytes. *)
From PM Require Import Lib.Bytes Lib.PyStr.
From Coq Require Import ZArith.

Definition SLASH : N := 47.
Definition DOT : N := 46.
Definition QMARK : N := 63.

Definition is_nil {A} (l : list A) : bool := match l with [] => true | _ => false end.

(* ---- str builtins used here ---- *)
(* s.split(c) for a one-character separator c *)
Fixpoint split_byte (sep : N) (l : bytes) : list bytes :=
  match l with
  | [] => [[]]
  | x :: t =>
      if x =? sep then [] :: split_byte sep t
      else match split_byte sep t with
           | c :: cs => (x :: c) :: cs
           | [] => [[x]]
           end
  end.

(* s.split('?', 1)[0] : everything before the first '?' (the whole string when there is none) *)
Fixpoint before_q (l : bytes) : bytes :=
  match l with
  | [] => []
  | x :: t => if x =? QMARK then [] else x :: before_q t
  end.

Fixpoint lstrip_byte (c : N) (l : bytes) : bytes :=
  match l with
  | x :: t => if x =? c then lstrip_byte c t else l
  | [] => []
  end.
Definition rstrip_byte (c : N) (l : bytes) : bytes := rev (lstrip_byte c (rev l)).

(* ---- posixpath.normpath ---- *)
Definition is_dot (c : bytes) : bool := bytes_eqb c [DOT].
Definition is_dotdot (c : bytes) : bool := bytes_eqb c [DOT; DOT].

(* POSIX allows one or two initial slashes, but treats three or more as single slash. *)
Definition initial_slashes (path : bytes) : nat :=
  if negb (startswith path [SLASH]) then 0%nat
  else if startswith path [SLASH; SLASH] && negb (startswith path [SLASH; SLASH; SLASH]) then 2%nat
  else 1%nat.

(* the loop over comps; new_comps is kept as a stack (last element first) *)
Fixpoint norm_comps (init : bool) (comps : list bytes) (new_comps : list bytes) : list bytes :=
  match comps with
  | [] => rev new_comps
  | comp :: rest =>
      if is_nil comp || is_dot comp then norm_comps init rest new_comps
      else if negb (is_dotdot comp) || (negb init && is_nil new_comps)
              || match new_comps with top :: _ => is_dotdot top | [] => false end
      then norm_comps init rest (comp :: new_comps)
      else match new_comps with
           | _ :: popped => norm_comps init rest popped
           | [] => norm_comps init rest new_comps
           end
  end.

Definition normpath (path : bytes) : bytes :=
  match path with
  | [] => [DOT]
  | _ =>
      let i := initial_slashes path in
      let comps := norm_comps (negb (Nat.eqb i 0)) (split_byte SLASH path) [] in
      match repeat SLASH i ++ join [SLASH] comps with
      | [] => [DOT]
      | p => p
      end
  end.

(* ---- proxy/common/utils.py ---- *)
Definition HTTP_1_1 : bytes := bs "HTTP/1.1".
Definition WHITESPACE : bytes := [32].

Definition nonempty (b : option bytes) : bool :=
  match b with Some (_ :: _) => true | _ => false end.
Definition body_or_empty (b : option bytes) : bytes := match b with Some x => x | None => [] end.

Definition build_http_header (k v : bytes) : bytes := k ++ [COLON] ++ WHITESPACE ++ v.

Fixpoint header_lines (headers : dict bytes) : bytes :=
  match headers with
  | [] => []
  | (k, v) :: t => build_http_header k v ++ CRLF ++ header_lines t
  end.

Definition build_http_pkt (line : list bytes) (headers : dict bytes) (body : option bytes)
           (conn_close : bool) : bytes :=
  let headers := if conn_close then dict_set (bs "Connection") (bs "close") headers else headers in
  join WHITESPACE line ++ CRLF ++ header_lines headers ++ CRLF
  ++ (if nonempty body then body_or_empty body else []).

Definition build_http_response (status_code : N) (reason : option bytes) (headers : dict bytes)
           (body : option bytes) (conn_close no_cl : bool) : bytes :=
  let line := [HTTP_1_1; dec_of_N status_code] ++ (if nonempty reason then [body_or_empty reason] else []) in
  let has_transfer_encoding :=
    existsb (fun kv => bytes_eqb (lower (fst kv)) (bs "transfer-encoding")) headers in
  let headers :=
    if negb has_transfer_encoding && negb no_cl
    then dict_set (bs "Content-Length")
                  (if nonempty body then dec_of_N (len (body_or_empty body)) else bs "0") headers
    else headers in
  build_http_pkt line headers body conn_close.

(* ---- proxy/http/responses.py ---- *)
Definition NOT_FOUND_RESPONSE_PKT (agent : bytes) : bytes :=
  build_http_response 404 (Some (bs "NOT FOUND")) [(bs "Server", agent)] None true false.

Section Static.
  (* configuration *)
  Variable static_server_dir : bytes.        (* flags.static_server_dir *)
  Variable min_compression_length : Z.       (* flags.min_compression_length *)
  Variable agent : bytes.                    (* PROXY_AGENT_HEADER_VALUE, b'proxy.py v<version>' *)
  (* environment: the file system as seen by open(), mimetypes.guess_type, gzip.compress *)
  Variable fs : bytes -> option bytes.       (* content of the regular file a path string denotes;
                                                None = any OSError (ENOENT, EISDIR, ENOTDIR, ...) *)
  Variable guess_type : bytes -> option bytes.
  Variable gz : bytes -> bytes.

  (* open(path, 'rb').read() : a NUL in the name is a ValueError raised before the system call *)
  Definition py_open (path : bytes) : result bytes :=
    if mem_byte 0 path then Err ValueError
    else match fs path with Some c => Ok c | None => Err (OSError 0) end.

  (* okResponse(content, headers, compress=True, min_compression_length, conn_close=True):
     the headers and body handed to build_http_response *)
  Definition okResponse_args (content : bytes) (headers : dict bytes) (compress : bool)
    : dict bytes * bytes :=
    let do_compress := compress && negb (is_nil content)
                       && (min_compression_length <? Z.of_N (len content))%Z in
    let headers := if do_compress then dict_set (bs "Content-Encoding") (bs "gzip") headers else headers in
    (headers, if do_compress && negb (is_nil content) then gz content else content).

  Definition okResponse (content : bytes) (headers : dict bytes) (compress conn_close : bool) : bytes :=
    let '(headers, body) := okResponse_args content headers compress in
    build_http_response 200 (Some (bs "OK")) headers (Some body) conn_close false.

  Definition static_headers (path : bytes) : dict bytes :=
    [(bs "Content-Type", match guess_type path with Some t => t | None => bs "text/plain" end);
     (bs "Cache-Control", bs "max-age=86400")].

  (* HttpWebServerBasePlugin.serve_static_file(path, min_compression_length) *)
  Definition serve_static_file (path : bytes) : result bytes :=
    match py_open path with
    | Ok content => Ok (okResponse content (static_headers path) true true)
    | Err (OSError _) => Ok (NOT_FOUND_RESPONSE_PKT agent)
    | Err e => Err e
    end.

  (* target != root and not target.startswith(root.rstrip(os.sep) + os.sep)  is False *)
  Definition confinement_check (path : bytes) : bool :=
    let root := normpath static_server_dir in
    let target := normpath (static_server_dir ++ path) in
    bytes_eqb target root || startswith target (rstrip_byte SLASH root ++ [SLASH]).

  (* HttpWebServerPlugin._try_static_or_404(path): the packet queued for the client, or the
     exception that escapes (nothing is queued then) *)
  Definition try_static_or_404 (path : bytes) : result bytes :=
    do s <- text_ path;
    let path := before_q s in
    if negb (confinement_check path) then Ok (NOT_FOUND_RESPONSE_PKT agent)
    else serve_static_file (static_server_dir ++ path).

  (* on_request_complete when no route matches and the static server is enabled:
     path = self.request.path or b'/' *)
  Definition on_request_complete_static (request_path : option bytes) : result bytes :=
    try_static_or_404 (if nonempty request_path then body_or_empty request_path else [SLASH]).
End Static.

(* what a client reads from a 200 reply: body after undoing the advertised content-encoding *)
Definition advertises_gzip (headers : dict bytes) : bool :=
  option_eqb bytes_eqb (dict_get (bs "Content-Encoding") headers) (Some (bs "gzip")).
Definition undo_encoding (gunz : bytes -> bytes) (headers : dict bytes) (body : bytes) : bytes :=
  if advertises_gzip headers then gunz body else body.
