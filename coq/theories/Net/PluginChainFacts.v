(* Net/PluginChainFacts.v — lemmas about Net/PluginChain.v. *)
From PM Require Import Lib.Bytes Lib.BytesFacts Lib.PyStr Net.Auth Net.AuthFacts Net.PluginChain.
From Coq Require Import ZArith.

(* ------------------------------------------------------------------ logs only grow; classes of events *)
Definition delta_ok (Q : event -> bool) (l l' : log) : Prop := exists d, l' = l ++ d /\ forallb Q d = true.

Lemma dok_refl Q l : delta_ok Q l l.
Proof. exists []. now rewrite app_nil_r. Qed.
Lemma dok_app Q l d : forallb Q d = true -> delta_ok Q l (l ++ d).
Proof. intros H. now exists d. Qed.
Lemma dok_trans Q l1 l2 l3 : delta_ok Q l1 l2 -> delta_ok Q l2 l3 -> delta_ok Q l1 l3.
Proof.
  intros [d1 [-> H1]] [d2 [-> H2]]. exists (d1 ++ d2). rewrite app_assoc. split; [reflexivity|].
  rewrite forallb_app. now rewrite H1, H2.
Qed.
Lemma dok_weaken (Q Q' : event -> bool) l l' : (forall e, Q e = true -> Q' e = true) -> delta_ok Q l l' -> delta_ok Q' l l'.
Proof.
  intros H [d [-> Hd]]. exists d. split; [reflexivity|]. apply forallb_forall. intros e He.
  apply H. rewrite forallb_forall in Hd. now apply Hd.
Qed.
Lemma dok_filter (Q f : event -> bool) l l' :
  (forall e, Q e = true -> f e = false) -> delta_ok Q l l' -> filter f l' = filter f l.
Proof.
  intros H [d [-> Hd]]. rewrite filter_app. replace (filter f d) with (@nil event); [now rewrite app_nil_r|].
  symmetry. induction d as [|e d IH]; [reflexivity|]. cbn in Hd. apply andb_true_iff in Hd as [He Hd].
  cbn. rewrite (H _ He). now apply IH.
Qed.

Lemma is_call_of_self hk p a : is_call_of hk (Call p hk a) = true.
Proof. destruct hk; reflexivity. Qed.

(* ------------------------------------------------------------------ C09: the chains are folds *)
Definition chain_step {A} (hk : hook) (inj : A -> arg) (call : plugin -> log -> A -> outcome A)
    (acc : log * chain_end A) (p : plugin) : log * chain_end A :=
  match acc with
  | (l, Done x) =>
      let l1 := l ++ [Call (pid p) hk (inj x)] in
      match call p l x with
      | Pass y => (l1, Done y)
      | Drop => (l1, Dropped x)
      | Reject r => (l1, Rejected x r)
      | Raise e => (l1, Raised x e)
      end
  | _ => acc
  end.

Lemma chain_step_stuck {A} hk inj call (ps : list plugin) (l : log) (e : chain_end A) :
  (forall x, e <> Done x) -> fold_left (chain_step hk inj call) ps (l, e) = (l, e).
Proof.
  intros H. induction ps as [|p t IH]; [reflexivity|]. cbn [fold_left].
  destruct e; try exact IH. exfalso. now apply (H x).
Qed.

Lemma chain_is_fold {A} hk inj call ps (x : A) l :
  chain hk inj call ps x l = fold_left (chain_step hk inj call) ps (l, Done x).
Proof.
  revert x l. induction ps as [|p t IH]; intros x l; [reflexivity|].
  cbn [chain fold_left chain_step]. destruct (call p l x).
  - apply IH.
  - now rewrite chain_step_stuck.
  - now rewrite chain_step_stuck.
  - now rewrite chain_step_stuck.
Qed.

Lemma chain_app {A} hk inj call p1 p2 (x : A) l :
  chain hk inj call (p1 ++ p2) x l =
  match chain hk inj call p1 x l with
  | (l1, Done y) => chain hk inj call p2 y l1
  | r => r
  end.
Proof.
  revert x l. induction p1 as [|p t IH]; intros x l; [reflexivity|].
  cbn [app chain]. destruct (call p l x); try reflexivity. apply IH.
Qed.

(* when every plugin passes, the value handed on is the left fold of the hooks in configured order *)
Lemma chain_all_pass {A} hk inj call ps (x : A) l l' y :
  chain hk inj call ps x l = (l', Done y) ->
  length l' = (length l + length ps)%nat.
Proof.
  revert x l. induction ps as [|p t IH]; intros x l H; cbn [chain] in H.
  - inversion H. cbn. lia.
  - destruct (call p l x); try discriminate. apply IH in H. rewrite app_length in H. cbn in *. lia.
Qed.

Lemma chain_dok {A} hk inj call ps (x : A) l : delta_ok (is_call_of hk) l (fst (chain hk inj call ps x l)).
Proof.
  revert x l. induction ps as [|p t IH]; intros x l; cbn [chain]; [apply dok_refl|].
  assert (S : delta_ok (is_call_of hk) l (l ++ [Call (pid p) hk (inj x)])).
  { apply dok_app. cbn [forallb]. now rewrite is_call_of_self. }
  destruct (call p l x); cbn [fst]; try exact S. eapply dok_trans; [exact S|apply IH].
Qed.

(* the calls a chain makes: a prefix of the configured list, in order, one call per plugin *)
Definition event_pid (e : event) : N := match e with Call p _ _ => p | _ => 0 end.

Lemma chain_calls_prefix {A} hk inj call ps (x : A) l :
  exists n d, fst (chain hk inj call ps x l) = l ++ d /\ map event_pid d = map pid (firstn n ps)
              /\ forallb (is_call_of hk) d = true
              /\ (forall y, snd (chain hk inj call ps x l) = Done y -> n = length ps).
Proof.
  revert x l. induction ps as [|p t IH]; intros x l; cbn [chain].
  - exists 0%nat, []. cbn. rewrite app_nil_r. repeat split; reflexivity.
  - destruct (call p l x) eqn:E.
    + destruct (IH a (l ++ [Call (pid p) hk (inj x)])) as (n & d & H1 & H2 & H3 & H4).
      exists (S n), (Call (pid p) hk (inj x) :: d). rewrite H1, <- app_assoc. cbn [app map firstn event_pid forallb].
      rewrite H2, H3, is_call_of_self. repeat split; try reflexivity. intros y Hy. cbn. f_equal. now apply (H4 y).
    + exists 1%nat, [Call (pid p) hk (inj x)]. cbn [fst snd map firstn event_pid forallb]. rewrite is_call_of_self. repeat split; try reflexivity. discriminate.
    + exists 1%nat, [Call (pid p) hk (inj x)]. cbn [fst snd map firstn event_pid forallb]. rewrite is_call_of_self. repeat split; try reflexivity. discriminate.
    + exists 1%nat, [Call (pid p) hk (inj x)]. cbn [fst snd map firstn event_pid forallb]. rewrite is_call_of_self. repeat split; try reflexivity. discriminate.
Qed.

(* a plugin returning None ends the chain: the plugins after it are not invoked *)
Lemma chain_drop_stops {A} hk inj call p1 p p2 (x : A) l l1 y :
  chain hk inj call p1 x l = (l1, Done y) -> call p l1 y = Drop ->
  chain hk inj call (p1 ++ p :: p2) x l = (l1 ++ [Call (pid p) hk (inj y)], Dropped y).
Proof. intros H1 H2. rewrite chain_app, H1. cbn [chain]. now rewrite H2. Qed.

Lemma chain_reject_stops {A} hk inj call p1 p p2 (x : A) l l1 y resp :
  chain hk inj call p1 x l = (l1, Done y) -> call p l1 y = Reject resp ->
  chain hk inj call (p1 ++ p :: p2) x l = (l1 ++ [Call (pid p) hk (inj y)], Rejected y resp).
Proof. intros H1 H2. rewrite chain_app, H1. cbn [chain]. now rewrite H2. Qed.

(* an invariant of the value handed along a chain *)
Definition end_value {A} (e : chain_end A) : A :=
  match e with Done x | Dropped x | Rejected x _ | Raised x _ => x end.

Lemma chain_preserves {A} (P : A -> Prop) hk inj call ps (x : A) l :
  (forall p seen a b, In p ps -> P a -> call p seen a = Pass b -> P b) ->
  P x -> P (end_value (snd (chain hk inj call ps x l))).
Proof.
  revert x l. induction ps as [|p t IH]; intros x l H Hx; cbn [chain]; [exact Hx|].
  destruct (call p l x) eqn:E; cbn [snd end_value]; try exact Hx.
  apply IH.
  - intros q seen a' b Hq. apply H. now right.
  - eapply H; [now left|exact Hx|exact E].
Qed.

Lemma norm_end_value {A} (e : chain_end A) : end_value (norm_end e) = end_value e.
Proof. destruct e as [| | |x []]; reflexivity. Qed.

(* ------------------------------------------------------------------ loading order (C08_load_order, C09 name collision) *)
Definition add_klass (k : klass) (ks : list klass) : list klass :=
  if existsb (same_klass k) ks then ks else ks ++ [k].

Lemma bucket_add_keys k p : map fst (bucket_add k p) = map fst p.
Proof.
  induction p as [|[b ks] t IH]; [reflexivity|]. cbn [bucket_add]. destruct (b =? k_base k); cbn [map fst]; [reflexivity|].
  now rewrite IH.
Qed.

Lemma bucket_bucket_add b k p : In b (map fst p) ->
  bucket b (bucket_add k p) = if b =? k_base k then add_klass k (bucket b p) else bucket b p.
Proof.
  induction p as [|[b' ks] t IH]; intros Hin; [destruct Hin|].
  cbn [bucket_add bucket]. destruct (b' =? k_base k) eqn:E1.
  - cbn [bucket]. destruct (b =? b') eqn:E2.
    + apply N.eqb_eq in E1, E2. subst. rewrite N.eqb_refl. reflexivity.
    + destruct (b =? k_base k) eqn:E3; [|reflexivity].
      apply N.eqb_eq in E1, E3. subst. rewrite N.eqb_refl in E2. discriminate.
  - cbn [bucket]. destruct (b =? b') eqn:E2.
    + apply N.eqb_eq in E2. subst. now rewrite E1.
    + apply IH. cbn in Hin. destruct Hin as [Hin|Hin]; [|exact Hin]. subst. rewrite N.eqb_refl in E2. discriminate.
Qed.

Lemma load_keys plugins p : map fst (fold_left (fun p k => bucket_add k p) plugins p) = map fst p.
Proof.
  revert p. induction plugins as [|k t IH]; intros p; [reflexivity|]. cbn [fold_left]. now rewrite IH, bucket_add_keys.
Qed.

Lemma bucket_fold b plugins p : In b (map fst p) ->
  bucket b (fold_left (fun p k => bucket_add k p) plugins p) =
  fold_left (fun ks k => if b =? k_base k then add_klass k ks else ks) plugins (bucket b p).
Proof.
  revert p. induction plugins as [|k t IH]; intros p Hin; [reflexivity|]. cbn [fold_left].
  rewrite IH by (now rewrite bucket_add_keys). now rewrite bucket_bucket_add.
Qed.

Lemma bucket_init b abc : bucket b (map (fun b => (b, @nil klass)) abc) = [].
Proof. induction abc as [|a t IH]; [reflexivity|]. cbn. destruct (b =? a); [reflexivity|exact IH]. Qed.

Lemma fold_other_base b ks plugins : (forall k, In k plugins -> k_base k <> b) ->
  fold_left (fun ks k => if b =? k_base k then add_klass k ks else ks) plugins ks = ks.
Proof.
  revert ks. induction plugins as [|k t IH]; intros ks H; [reflexivity|]. cbn [fold_left].
  replace (b =? k_base k) with false.
  - apply IH. intros k' Hk'. apply H. now right.
  - symmetry. apply N.eqb_neq. intros E. apply (H k); [now left|now symmetry].
Qed.

Lemma fold_head_stays b a ks plugins :
  exists rest, fold_left (fun ks k => if b =? k_base k then add_klass k ks else ks) plugins (a :: ks) = a :: rest
               /\ (forall k, In k rest -> In k ks \/ (In k plugins /\ same_klass k a = false)).
Proof.
  revert ks. induction plugins as [|k t IH]; intros ks.
  - exists ks. split; [reflexivity|]. intros k Hk. now left.
  - cbn [fold_left]. destruct (b =? k_base k).
    + unfold add_klass. cbn [existsb]. destruct (same_klass k a) eqn:Es; cbn [orb].
      * destruct (IH ks) as (rest & H1 & H2). exists rest. split; [exact H1|].
        intros k' Hk'. destruct (H2 _ Hk') as [H|[H H']]; [now left|right; split; [now right|exact H']].
      * destruct (existsb (same_klass k) ks).
        -- destruct (IH ks) as (rest & H1 & H2). exists rest. split; [exact H1|].
           intros k' Hk'. destruct (H2 _ Hk') as [H|[H H']]; [now left|right; split; [now right|exact H']].
        -- cbn [app]. destruct (IH (ks ++ [k])) as (rest & H1 & H2). exists rest. split; [exact H1|].
           intros k' Hk'. destruct (H2 _ Hk') as [H|[H H']].
           ++ apply in_app_or in H as [H|[<-|[]]]; [now left|]. right. split; [now left|exact Es].
           ++ right. split; [now right|exact H'].
    + destruct (IH ks) as (rest & H1 & H2). exists rest. split; [exact H1|].
      intros k' Hk'. destruct (H2 _ Hk') as [H|[H H']]; [now left|right; split; [now right|exact H']].
Qed.

(* with basic auth configured the auth plugin class heads the HttpProxyBasePlugin bucket, whatever
   plugins the user requests (and however often, and even if the auth plugin is requested again) *)
Lemma load_order abc defaults basic_auth auth is_default requested :
  truthy basic_auth = true -> In PROXY_BASE abc -> k_base auth = PROXY_BASE ->
  (forall d, In d defaults -> k_base d <> PROXY_BASE) ->
  exists rest,
    bucket PROXY_BASE (initialize_plugins abc defaults basic_auth auth is_default requested) = auth :: rest
    /\ forall k, In k rest -> In k requested /\ same_klass k auth = false.
Proof.
  intros Ht Habc Hb Hd. unfold initialize_plugins, load, auth_plugins. rewrite Ht. cbn [orb].
  rewrite bucket_fold by (rewrite map_map; cbn; now rewrite map_id).
  rewrite bucket_init, !fold_left_app. rewrite (fold_other_base PROXY_BASE [] defaults Hd).
  cbn [fold_left]. rewrite Hb, N.eqb_refl. unfold add_klass at 1. cbn [existsb app].
  destruct (fold_head_stays PROXY_BASE auth [] requested) as (rest & H1 & H2).
  exists rest. split; [exact H1|]. intros k Hk. destruct (H2 _ Hk) as [[]|H]. exact H.
Qed.

(* instantiate: distinct names keep the configured order ... *)
Lemma instantiate_fresh ks (d : dict plugin) :
  NoDup (map (fun k => pname (k_plugin k)) ks) ->
  (forall k, In k ks -> ~ In (pname (k_plugin k)) (dict_keys d)) ->
  fold_left (fun d k => dict_set (pname (k_plugin k)) (k_plugin k) d) ks d
  = d ++ map (fun k => (pname (k_plugin k), k_plugin k)) ks.
Proof.
  revert d. induction ks as [|k t IH]; intros d Hn Hf; cbn [fold_left map]; [now rewrite app_nil_r|].
  inversion Hn as [|? ? Hk Ht]; subst.
  rewrite dict_set_notin by (apply Hf; now left).
  rewrite IH; [now rewrite <- app_assoc|exact Ht|].
  intros k' Hk' Hin. unfold dict_keys in Hin. rewrite map_app in Hin. apply in_app_or in Hin as [Hin|[Hin|[]]].
  - revert Hin. apply Hf. now right.
  - cbn in Hin. apply Hk. rewrite Hin. apply in_map_iff. now exists k'.
Qed.

Lemma instantiate_distinct ks :
  NoDup (map (fun k => pname (k_plugin k)) ks) -> plugin_values (instantiate ks) = map k_plugin ks.
Proof.
  intros H. unfold instantiate, plugin_values. rewrite instantiate_fresh; [|exact H|intros k _ []].
  cbn [app]. rewrite map_map. reflexivity.
Qed.

(* ... the first class keeps the first place if no later class has its name ... *)
Lemma instantiate_head_fold ks k0 (v0 : plugin) d :
  (forall k, In k ks -> pname (k_plugin k) <> k0) ->
  fold_left (fun d k => dict_set (pname (k_plugin k)) (k_plugin k) d) ks ((k0, v0) :: d)
  = (k0, v0) :: fold_left (fun d k => dict_set (pname (k_plugin k)) (k_plugin k) d) ks d.
Proof.
  revert d. induction ks as [|k t IH]; intros d H; [reflexivity|]. cbn [fold_left dict_set].
  replace (bytes_eqb (pname (k_plugin k)) k0) with false.
  - apply IH. intros k' Hk'. apply H. now right.
  - symmetry. apply bytes_eqb_neq. apply H. now left.
Qed.

Lemma instantiate_head a rest :
  (forall k, In k rest -> pname (k_plugin k) <> pname (k_plugin a)) ->
  plugin_values (instantiate (a :: rest)) = k_plugin a :: plugin_values (instantiate rest).
Proof.
  intros H. unfold instantiate, plugin_values. cbn [fold_left dict_set].
  rewrite instantiate_head_fold by exact H. reflexivity.
Qed.

(* ... and a later class with the name of an earlier one REPLACES it at the earlier position *)
Lemma instantiate_collision a c :
  pname (k_plugin c) = pname (k_plugin a) -> plugin_values (instantiate [a; c]) = [k_plugin c].
Proof.
  intros H. unfold instantiate, plugin_values. cbn [fold_left dict_set]. rewrite H, bytes_eqb_refl. reflexivity.
Qed.

(* ------------------------------------------------------------------ event classes of the handler pieces *)
Definition q_pre (e : event) : bool :=        (* what can happen before shutdown *)
  match e with
  | Call _ h _ => match h with OAL | OUCC => false | _ => true end
  | Connect _ _ _ | QueueUpstream _ _ | QueueClient _ | Teardown | Escaped _ => true
  | ClientFlush => true
  | AccessLog _ | UpstreamClose | ClientShutdown | ClientClose => false
  end.
Definition q_post (e : event) : bool :=       (* what shutdown can add *)
  match e with
  | Call _ h _ => match h with OAL | OUCC => true | _ => false end
  | AccessLog _ | UpstreamClose | ClientFlush | ClientShutdown | ClientClose | Escaped _ => true
  | _ => false
  end.
Definition q_noup (e : event) : bool := negb (is_queue_upstream e).     (* anything but an upstream queue entry *)
Definition q_call (e : event) : bool := match e with Call _ _ _ => true | _ => false end.

Lemma call_q_pre hk : hk <> OAL -> hk <> OUCC -> forall e, is_call_of hk e = true -> q_pre e = true.
Proof. intros H1 H2 [p h a| | | | | | | | | |] H; try discriminate. destruct hk, h; try discriminate; try reflexivity; contradiction. Qed.
Lemma call_q_call hk : forall e, is_call_of hk e = true -> q_call e = true.
Proof. intros [p h a| | | | | | | | | |] H; try discriminate. reflexivity. Qed.
Lemma q_call_noup e : q_call e = true -> q_noup e = true.
Proof. destruct e; try discriminate; reflexivity. Qed.

Lemma resolve_chain_dok ps host port l : delta_ok (is_call_of DNS) l (fst (resolve_chain ps host port l)).
Proof.
  revert l. induction ps as [|p t IH]; intros l; cbn [resolve_chain]; [apply dok_refl|].
  assert (S : delta_ok (is_call_of DNS) l (l ++ [Call (pid p) DNS (AHostPort host port)])) by (apply dok_app; reflexivity).
  destruct (resolve_dns p l host port) as [[ip src]|]; cbn [fst]; [|exact S].
  destruct (nonempty ip), src; cbn [fst]; try exact S. eapply dok_trans; [exact S|apply IH].
Qed.

Definition q_conn (e : event) : bool := is_call_of DNS e || is_connect e.

Lemma connect_upstream_dok cf ps r c l : delta_ok q_conn l (fst (connect_upstream cf ps r c l)).
Proof.
  unfold connect_upstream. destruct (nonempty (rq_host r)) as [host|]; [|apply dok_refl].
  destruct (rq_port r) as [zport|]; [|apply dok_refl].
  destruct (Z.eqb zport 0%Z); [apply dok_refl|]. destruct (negb (Z.ltb 0%Z zport && Z.leb zport 65535%Z)); [apply dok_refl|].
  set (port := Z.to_N zport). destruct (negb (utf8_valid host)); [apply dok_refl|].
  pose proof (resolve_chain_dok ps host port l) as H. destruct (resolve_chain ps host port l) as [l1 dns]. cbn [fst] in H.
  assert (H' : delta_ok q_conn l l1).
  { eapply dok_weaken; [|exact H]. intros e He. unfold q_conn. now rewrite He. }
  destruct dns as [[ip src]|]; cbn [fst]; [|exact H'].
  assert (S : delta_ok q_conn l (l1 ++ [Connect match nonempty ip with Some i => i | None => host end port src])).
  { eapply dok_trans; [exact H'|]. apply dok_app. reflexivity. }
  destruct c; exact S.
Qed.

Lemma q_conn_pre e : q_conn e = true -> q_pre e = true.
Proof. destruct e as [p [] a| | | | | | | | | |]; cbn; try discriminate; reflexivity. Qed.
Lemma q_conn_noup e : q_conn e = true -> q_noup e = true.
Proof. destruct e as [p [] a| | | | | | | | | |]; cbn; try discriminate; reflexivity. Qed.

(* _queue_request_for_upstream: at most one entry, and it is the rebuilt scrubbed request *)
Lemma queue_request_spec cf t r l :
  (exists b, build (cf_disable_headers cf) (scrub cf t r) = Ok b
             /\ queue_request_for_upstream cf t r l = (l ++ [QueueUpstream QRequest b], scrub cf t r, None))
  \/ (exists e, queue_request_for_upstream cf t r l = (l, scrub cf t r, Some (FRaise e))).
Proof.
  unfold queue_request_for_upstream. destruct (build (cf_disable_headers cf) (scrub cf t r)) as [b|e].
  - left. now exists b.
  - right. now exists e.
Qed.

Lemma queue_request_pre cf t r l : delta_ok q_pre l (fst (fst (queue_request_for_upstream cf t r l))).
Proof.
  destruct (queue_request_spec cf t r l) as [[b [_ ->]]|[e ->]]; cbn [fst]; [|apply dok_refl].
  apply dok_app. reflexivity.
Qed.

Lemma handle_data_end_pre f l : delta_ok q_pre l (handle_data_end f l).
Proof.
  destruct f as [[[|x t]|]|e]; cbn [handle_data_end]; try (apply dok_app; reflexivity).
  destruct (is_oserror e); apply dok_app; reflexivity.
Qed.
Lemma upstream_data_end_pre f l : delta_ok q_pre l (upstream_data_end f l).
Proof. destruct f; cbn [upstream_data_end]; apply dok_app; reflexivity. Qed.
Lemma handle_data_end_noup f l : delta_ok q_noup l (handle_data_end f l).
Proof.
  destruct f as [[[|x t]|]|e]; cbn [handle_data_end]; try (apply dok_app; reflexivity).
  destruct (is_oserror e); apply dok_app; reflexivity.
Qed.
Lemma upstream_data_end_noup f l : delta_ok q_noup l (upstream_data_end f l).
Proof. destruct f; cbn [upstream_data_end]; apply dok_app; reflexivity. Qed.

Ltac chain_pre H hk :=
  eapply dok_weaken; [apply (call_q_pre hk); discriminate|exact H].

Lemma after_connect_pre cf ps connected r1 l2 : delta_ok q_pre l2 (fst (after_connect cf ps connected r1 l2)).
Proof.
  unfold after_connect.
  pose proof (chain_dok HCR ARequest handle_client_request ps r1 l2) as H3.
  destruct (chain HCR ARequest handle_client_request ps r1 l2) as [l3 e2]. cbn [fst] in H3.
  assert (P3 : delta_ok q_pre l2 l3) by (chain_pre H3 HCR).
  destruct (norm_end e2); cbn [fst]; try exact P3.
  destruct connected; [|exact P3]. destruct (rq_tunnel x).
  - cbn [fst]. eapply dok_trans; [exact P3|apply dok_app; reflexivity].
  - pose proof (queue_request_pre cf false x l3) as H4.
    destruct (queue_request_for_upstream cf false x l3) as [[l4 r3] f]. cbn [fst] in H4.
    destruct f; cbn [fst]; eapply dok_trans; eassumption.
Qed.

Lemma on_request_complete_pre cf ps r c l : delta_ok q_pre l (fst (on_request_complete cf ps r c l)).
Proof.
  unfold on_request_complete.
  pose proof (chain_dok BUC ARequest before_upstream_connection ps r l) as H1.
  destruct (chain BUC ARequest before_upstream_connection ps r l) as [l1 e1]. cbn [fst] in H1.
  assert (P1 : delta_ok q_pre l l1) by (chain_pre H1 BUC).
  destruct (norm_end e1); cbn [fst]; try exact P1.
  - pose proof (connect_upstream_dok cf ps x c l1) as H2.
    destruct (connect_upstream cf ps x c l1) as [l2 f]. cbn [fst] in H2.
    assert (P2 : delta_ok q_pre l l2).
    { eapply dok_trans; [exact P1|]. eapply dok_weaken; [exact q_conn_pre|exact H2]. }
    destruct f; [exact P2|]. eapply dok_trans; [exact P2|apply after_connect_pre].
  - eapply dok_trans; [exact P1|apply after_connect_pre].
Qed.

Lemma run_later_pre cf ps st pr l : delta_ok q_pre l (fst (fst (run_later cf ps st pr l))).
Proof.
  unfold run_later. pose proof (chain_dok HCR ARequest handle_client_request ps pr l) as H.
  destruct (chain HCR ARequest handle_client_request ps pr l) as [l1 e]. cbn [fst] in H.
  assert (P1 : delta_ok q_pre l l1) by (chain_pre H HCR).
  destruct (norm_end e); cbn [fst]; try exact P1.
  pose proof (queue_request_pre cf (rq_tunnel (st_request st)) x l1) as H4.
  destruct (queue_request_for_upstream cf (rq_tunnel (st_request st)) x l1) as [[l2 r2] f]. cbn [fst] in H4.
  destruct f; cbn [fst]; eapply dok_trans; eassumption.
Qed.

Lemma client_loop_pre cf ps st parses l : delta_ok q_pre l (fst (client_loop cf ps st parses l)).
Proof.
  revert st l. induction parses as [|[|pr rem] t IH]; intros st l; cbn [client_loop]; try apply dok_refl.
  pose proof (run_later_pre cf ps st (set_buffer pr rem) l) as H.
  destruct (run_later cf ps st (set_buffer pr rem) l) as [[l1 e] r]. cbn [fst] in H.
  destruct e as [st1|st1 f]; [|exact H]. destruct r as [rem'|]; [|exact H].
  destruct (st_pipeline st1); cbn [fst].
  - eapply dok_trans; [exact H|apply dok_app; reflexivity].
  - eapply dok_trans; [exact H|apply IH].
Qed.

Lemma on_client_data_pre cf ps st raw parses l : delta_ok q_pre l (fst (on_client_data cf ps st raw parses l)).
Proof.
  unfold on_client_data. destruct (negb (st_upstream st)).
  - pose proof (chain_dok HCD ABytes handle_client_data ps raw l) as H.
    destruct (chain HCD ABytes handle_client_data ps raw l) as [l1 e]. cbn [fst] in H.
    destruct (fail_of_end e); cbn [fst]; chain_pre H HCD.
  - destruct (rq_tunnel (st_request st)); [apply dok_app; reflexivity|].
    destruct (st_pipeline st) as [pr|]; [|apply client_loop_pre].
    destruct (is_connection_upgrade pr); [apply dok_app; reflexivity|].
    pose proof (run_later_pre cf ps st (set_buffer pr (rq_buffer pr ++ raw)) l) as H.
    destruct (run_later cf ps st (set_buffer pr (rq_buffer pr ++ raw)) l) as [[l1 e] r]. cbn [fst] in H.
    destruct e as [st1|st1 f]; [|exact H]. destruct r as [rem'|]; [|exact H].
    destruct (st_pipeline st1); cbn [fst].
    + eapply dok_trans; [exact H|apply dok_app; reflexivity].
    + eapply dok_trans; [exact H|apply client_loop_pre].
Qed.

Lemma on_upstream_data_pre ps st raw l : delta_ok q_pre l (fst (on_upstream_data ps st raw l)).
Proof.
  unfold on_upstream_data. pose proof (chain_dok HUC ABytes handle_upstream_chunk ps raw l) as H.
  destruct (chain HUC ABytes handle_upstream_chunk ps raw l) as [l1 e]. cbn [fst] in H.
  assert (P1 : delta_ok q_pre l l1) by (chain_pre H HUC).
  destruct e; cbn [fst]; try exact P1. eapply dok_trans; [exact P1|apply dok_app; reflexivity].
Qed.

Lemma on_upstream_data_noup ps st raw l : delta_ok q_noup l (fst (on_upstream_data ps st raw l)).
Proof.
  unfold on_upstream_data. pose proof (chain_dok HUC ABytes handle_upstream_chunk ps raw l) as H.
  destruct (chain HUC ABytes handle_upstream_chunk ps raw l) as [l1 e]. cbn [fst] in H.
  assert (P1 : delta_ok q_noup l l1).
  { eapply dok_weaken; [|exact H]. intros ev Hev. apply q_call_noup. eapply call_q_call, Hev. }
  destruct e; cbn [fst]; try exact P1. eapply dok_trans; [exact P1|apply dok_app; reflexivity].
Qed.

(* nothing before shutdown is a lifecycle event or a socket close *)
Lemma run_steps_pre cf ps st dr steps l : delta_ok q_pre l (fst (run_steps cf ps st dr steps l)).
Proof.
  revert st dr l. induction steps as [|s t IH]; intros st dr l; cbn [run_steps]; [apply dok_refl|].
  destruct st as [st0|]; destruct s as [r c|raw parsed|raw]; try apply IH.
  - destruct dr; [apply IH|].
    pose proof (on_client_data_pre cf ps st0 raw parsed l) as H.
    destruct (on_client_data cf ps st0 raw parsed l) as [l1 [st1|st1 f]]; cbn [fst] in *.
    + eapply dok_trans; [exact H|apply IH].
    + destruct (escapes f); [|destruct f]; cbn [fst].
      * eapply dok_trans; [exact H|apply handle_data_end_pre].
      * eapply dok_trans; [exact H|]. eapply dok_trans; [apply handle_data_end_pre|apply IH].
      * eapply dok_trans; [exact H|apply handle_data_end_pre].
  - destruct (st_upstream st0); [|apply IH].
    pose proof (on_upstream_data_pre ps st0 raw l) as H.
    destruct (on_upstream_data ps st0 raw l) as [l1 [st1|st1 f]]; cbn [fst] in *.
    + eapply dok_trans; [exact H|apply IH].
    + eapply dok_trans; [exact H|apply upstream_data_end_pre].
  - destruct dr; [apply IH|].
    pose proof (on_request_complete_pre cf ps r c l) as H.
    destruct (on_request_complete cf ps r c l) as [l1 [st1|st1 f]]; cbn [fst] in *.
    + eapply dok_trans; [exact H|apply IH].
    + destruct (escapes f); [|destruct f]; cbn [fst].
      * eapply dok_trans; [exact H|apply handle_data_end_pre].
      * eapply dok_trans; [exact H|]. eapply dok_trans; [apply handle_data_end_pre|apply IH].
      * eapply dok_trans; [exact H|apply handle_data_end_pre].
Qed.

(* HttpProxyPlugin exists at shutdown iff some first request completed *)
Definition is_first (s : step) : bool := match s with SFirst _ _ => true | _ => false end.

Lemma run_steps_none cf ps steps l :
  existsb is_first steps = false -> run_steps cf ps None false steps l = (l, None).
Proof.
  revert l. induction steps as [|s t IH]; intros l H; [reflexivity|]. cbn [existsb] in H.
  apply orb_false_iff in H as [Hs Ht]. destruct s; try discriminate; cbn [run_steps]; now apply IH.
Qed.

Lemma run_steps_some_stays cf ps st0 dr steps l : exists st, snd (run_steps cf ps (Some st0) dr steps l) = Some st.
Proof.
  revert st0 dr l. induction steps as [|s t IH]; intros st0 dr l; cbn [run_steps]; [now exists st0|].
  destruct s as [r c|raw parsed|raw].
  - apply IH.
  - destruct dr; [apply IH|].
    destruct (on_client_data cf ps st0 raw parsed l) as [l1 [st1|st1 f]]; [apply IH|].
    destruct (escapes f); [now exists st1|]. destruct f; [apply IH|now exists st1].
  - destruct (st_upstream st0); [|apply IH].
    destruct (on_upstream_data ps st0 raw l) as [l1 [st1|st1 f]]; [apply IH|now exists st1].
Qed.

Lemma run_steps_initialised cf ps steps l :
  existsb is_first steps = true -> exists st, snd (run_steps cf ps None false steps l) = Some st.
Proof.
  revert l. induction steps as [|s t IH]; intros l H; [discriminate|]. cbn [existsb] in H.
  destruct s as [r c|raw parsed|raw]; cbn [run_steps is_first orb] in *; try now apply IH.
  destruct (on_request_complete cf ps r c l) as [l1 [st1|st1 f]]; [apply run_steps_some_stays|].
  destruct (escapes f); [now exists st1|]. destruct f; [apply run_steps_some_stays|now exists st1].
Qed.

(* after the teardown decision nothing more happens on a connection without an upstream *)
Lemma drain_no_upstream cf ps st steps l :
  st_upstream st = false -> run_steps cf ps (Some st) true steps l = (l, Some st).
Proof.
  intros H. induction steps as [|s t IH]; [reflexivity|]. cbn [run_steps].
  destruct s; try exact IH. now rewrite H.
Qed.

(* ------------------------------------------------------------------ the three ends of reading *)
(* run_steps follows [read_end_of]: a rejection drains (must_flush_before_shutdown: upstream data still relayed),
   an OSError of a hook tears the reads (reads_teared: NO further step has any effect), any other exception escapes *)
Lemma run_steps_first_fail cf ps r c rest l l1 st1 f :
  on_request_complete cf ps r c l = (l1, Failed st1 f) ->
  run_steps cf ps None false (SFirst r c :: rest) l =
  match read_end_of f with
  | MustFlush => run_steps cf ps (Some st1) true rest (handle_data_end f l1)
  | ReadsTeared | EscapesLoop => (handle_data_end f l1, Some st1)
  end.
Proof.
  intros H. cbn [run_steps]. rewrite H. destruct f as [resp|e]; cbn [escapes read_end_of]; [reflexivity|].
  destruct (is_oserror e); reflexivity.
Qed.

Lemma run_steps_client_fail cf ps st0 raw parses rest l l1 st1 f :
  on_client_data cf ps st0 raw parses l = (l1, Failed st1 f) ->
  run_steps cf ps (Some st0) false (SClient raw parses :: rest) l =
  match read_end_of f with
  | MustFlush => run_steps cf ps (Some st1) true rest (handle_data_end f l1)
  | ReadsTeared | EscapesLoop => (handle_data_end f l1, Some st1)
  end.
Proof.
  intros H. cbn [run_steps]. rewrite H. destruct f as [resp|e]; cbn [escapes read_end_of]; [reflexivity|].
  destruct (is_oserror e); reflexivity.
Qed.

(* a hook raising OSError under handle_data (first request or later client data): the log gets Teardown and
   NOTHING that follows in the history — client bytes, upstream chunks — is processed: no hook call, nothing queued *)
Theorem hook_oserror_tears_reads cf ps n :
  (forall r c rest l l1 st1, on_request_complete cf ps r c l = (l1, Failed st1 (FRaise (OSError n))) ->
     run_steps cf ps None false (SFirst r c :: rest) l = (l1 ++ [Teardown], Some st1))
  /\ (forall st0 raw parses rest l l1 st1, on_client_data cf ps st0 raw parses l = (l1, Failed st1 (FRaise (OSError n))) ->
     run_steps cf ps (Some st0) false (SClient raw parses :: rest) l = (l1 ++ [Teardown], Some st1)).
Proof.
  split; intros.
  - rewrite (run_steps_first_fail _ _ _ _ _ _ _ _ _ H). reflexivity.
  - rewrite (run_steps_client_fail _ _ _ _ _ _ _ _ _ _ H). reflexivity.
Qed.

(* ... whereas after a rejection the upstream is still relayed while the response drains *)
Theorem rejection_still_relays cf ps st0 raw parses up rest l l1 st1 resp :
  on_client_data cf ps st0 raw parses l = (l1, Failed st1 (FReject resp)) -> st_upstream st1 = true ->
  run_steps cf ps (Some st0) false (SClient raw parses :: SUpstream up :: rest) l =
  match on_upstream_data ps st1 up (handle_data_end (FReject resp) l1) with
  | (l2, Continue st2) => run_steps cf ps (Some st2) true rest l2
  | (l2, Failed st2 f) => (upstream_data_end f l2, Some st2)
  end.
Proof.
  intros H Hu. rewrite (run_steps_client_fail _ _ _ _ _ _ _ _ _ _ H). cbn [read_end_of run_steps]. rewrite Hu. reflexivity.
Qed.

(* ------------------------------------------------------------------ shutdown *)
Lemma close_chain_dok ps l : delta_ok (is_call_of OUCC) l (fst (close_chain ps l)).
Proof.
  revert l. induction ps as [|p t IH]; intros l; cbn [close_chain]; [apply dok_refl|].
  assert (S : delta_ok (is_call_of OUCC) l (l ++ [Call (pid p) OUCC AUnit])) by (apply dok_app; reflexivity).
  destruct (on_upstream_connection_close p l); cbn [fst]; [exact S|]. eapply dok_trans; [exact S|apply IH].
Qed.

Lemma call_q_post hk : hk = OAL \/ hk = OUCC -> forall e, is_call_of hk e = true -> q_post e = true.
Proof. intros [->| ->] [p [] a| | | | | | | | | |] H; try discriminate; reflexivity. Qed.

Lemma access_log_stage_post ps t c0 l : delta_ok q_post l (fst (access_log_stage ps t c0 l)).
Proof.
  unfold access_log_stage.
  pose proof (chain_dok OAL ACtx on_access_log ps c0 l) as H1.
  destruct (chain OAL ACtx on_access_log ps c0 l) as [l1 e]. cbn [fst] in H1.
  assert (P1 : delta_ok q_post l l1) by (eapply dok_weaken; [apply (call_q_post OAL); now left|exact H1]).
  destruct e; cbn [fst]; try exact P1.
  unfold access_log. destruct (forallb _ _); cbn [fst]; [|exact P1].
  eapply dok_trans; [exact P1|apply dok_app; reflexivity].
Qed.

Lemma occ_post ps st c0 l : delta_ok q_post l (fst (on_client_connection_close ps st c0 l)).
Proof.
  unfold on_client_connection_close.
  pose proof (access_log_stage_post ps (rq_tunnel (st_request st)) c0 l) as P2.
  destruct (access_log_stage ps (rq_tunnel (st_request st)) c0 l) as [l2 x]. cbn [fst] in P2.
  destruct x; cbn [fst]; [exact P2|].
  pose proof (close_chain_dok ps l2) as H3. destruct (close_chain ps l2) as [l3 y]. cbn [fst] in H3.
  assert (P3 : delta_ok q_post l l3).
  { eapply dok_trans; [exact P2|]. eapply dok_weaken; [apply (call_q_post OUCC); now right|exact H3]. }
  destruct y; cbn [fst]; [exact P3|]. destruct (st_upstream st); [|exact P3].
  eapply dok_trans; [exact P3|apply dok_app; reflexivity].
Qed.

Lemma shutdown_core_post ps st c0 l : delta_ok q_post l (shutdown_core ps st c0 l).
Proof.
  unfold shutdown_core. destruct st as [st|]; [|apply dok_app; reflexivity].
  pose proof (occ_post ps st c0 l) as H. destruct (on_client_connection_close ps st c0 l) as [l1 x]. cbn [fst] in H.
  destruct x as [e|]; [destruct (is_oserror e)|]; (eapply dok_trans; [exact H|apply dok_app; reflexivity]).
Qed.

Lemma shutdown_post ps st c0 ff l : delta_ok q_post l (shutdown ps st c0 ff l).
Proof.
  unfold shutdown. destruct ff; [|apply shutdown_core_post].
  eapply dok_trans; [apply (dok_app q_post l [ClientFlush]); reflexivity|apply shutdown_core_post].
Qed.

(* close_chain when no close hook raises: every plugin exactly once, in order *)
Lemma close_chain_total ps l :
  (forall p seen, In p ps -> on_upstream_connection_close p seen = None) ->
  close_chain ps l = (l ++ map (fun p => Call (pid p) OUCC AUnit) ps, None).
Proof.
  revert l. induction ps as [|p t IH]; intros l H; cbn [close_chain map]; [now rewrite app_nil_r|].
  rewrite (H p l) by now left. rewrite IH by (intros q seen Hq; apply H; now right).
  now rewrite <- app_assoc.
Qed.

(* ------------------------------------------------------------------ C09_lifecycle_once *)
Definition lifecycle_total (ps : list plugin) : Prop :=
  (forall p seen c, In p ps -> match on_access_log p seen c with Pass _ | Drop => True | _ => False end)
  /\ (forall p seen, In p ps -> on_upstream_connection_close p seen = None).
Definition ctx_ok (t : bool) (c : ctx) : Prop := forallb (fun k => dict_has k c) (required_keys t) = true.
Definition keeps_keys (ps : list plugin) : Prop :=
  forall t p seen a b, In p ps -> ctx_ok t a -> on_access_log p seen a = Pass b -> ctx_ok t b.

Lemma chain_oal_total ps c0 l : lifecycle_total ps ->
  match snd (chain OAL ACtx on_access_log ps c0 l) with Done _ | Dropped _ => True | _ => False end.
Proof.
  intros [H _]. revert c0 l. induction ps as [|p t IH]; intros c0 l; cbn [chain]; [exact I|].
  pose proof (H p l c0 (or_introl eq_refl)) as Hp. destruct (on_access_log p l c0); try contradiction; [|exact I].
  apply IH. intros q seen c Hq. apply H. now right.
Qed.

(* the exact shape of the log of a connection whose first request completed, when no lifecycle hook raises *)
Lemma lifecycle_shape cf ps c0 steps :
  lifecycle_total ps -> keeps_keys ps -> (forall t, ctx_ok t c0) ->
  existsb is_first steps = true ->
  exists l0 st dOAL e,
    delta_ok q_pre [] l0
    /\ (exists lr, run_steps cf ps None false steps [] = (lr, Some st)
                  /\ l0 = if cf_final_flush cf then lr ++ [ClientFlush] else lr)
    /\ chain OAL ACtx on_access_log ps c0 l0 = (l0 ++ dOAL, e)
    /\ run_conn cf ps c0 steps =
         l0 ++ dOAL
         ++ match e with Done c => [AccessLog c] | _ => [] end
         ++ map (fun p => Call (pid p) OUCC AUnit) ps
         ++ (if st_upstream st then [UpstreamClose] else [])
         ++ [ClientShutdown; ClientClose].
Proof.
  intros Ht Hk Hc0 Hf. unfold run_conn.
  destruct (run_steps_initialised cf ps steps [] Hf) as [st Hst].
  pose proof (run_steps_pre cf ps None false steps []) as Hpre0.
  destruct (run_steps cf ps None false steps []) as [lr st'] eqn:E. cbn [snd] in Hst. subst st'. cbn [fst] in Hpre0.
  unfold shutdown. set (l0 := if cf_final_flush cf then lr ++ [ClientFlush] else lr).
  assert (Hpre : delta_ok q_pre [] l0).
  { unfold l0. destruct (cf_final_flush cf); [|exact Hpre0]. eapply dok_trans; [exact Hpre0|apply dok_app; reflexivity]. }
  pose proof (chain_dok OAL ACtx on_access_log ps c0 l0) as [dOAL [Hd _]].
  pose proof (chain_oal_total ps c0 l0 Ht) as Hend.
  pose proof (chain_preserves (ctx_ok (rq_tunnel (st_request st))) OAL ACtx on_access_log ps c0 l0) as Hinv.
  destruct (chain OAL ACtx on_access_log ps c0 l0) as [l1 e] eqn:Ec. cbn [fst snd] in *. subst l1.
  exists l0, st, dOAL, e. split; [exact Hpre|]. split; [exists lr; split; reflexivity|]. split; [exact Ec|].
  change (shutdown_core ps (Some st) c0 l0 = l0 ++ dOAL ++ match e with Done c => [AccessLog c] | _ => [] end ++ map (fun p => Call (pid p) OUCC AUnit) ps ++ (if st_upstream st then [UpstreamClose] else []) ++ [ClientShutdown; ClientClose]).
  clearbody l0. unfold shutdown_core, on_client_connection_close, access_log_stage. rewrite Ec.
  destruct Ht as [_ Hcl].
  destruct e as [c|c|c r|c x]; try contradiction.
  - unfold access_log.
    assert (Hok : ctx_ok (rq_tunnel (st_request st)) c).
    { apply Hinv; [|apply Hc0]. intros p seen a b Hp. now apply Hk. }
    unfold ctx_ok in Hok. rewrite Hok. rewrite close_chain_total by exact Hcl.
    destruct (st_upstream st); repeat rewrite <- app_assoc; reflexivity.
  - rewrite close_chain_total by exact Hcl.
    destruct (st_upstream st); repeat rewrite <- app_assoc; reflexivity.
Qed.

Lemma filter_none (f : event -> bool) d : forallb (fun e => negb (f e)) d = true -> filter f d = [].
Proof.
  induction d as [|e d IH]; [reflexivity|]. cbn. intros H. apply andb_true_iff in H as [He Hd].
  apply negb_true_iff in He. rewrite He. now apply IH.
Qed.
Lemma filter_all (f : event -> bool) d : forallb f d = true -> filter f d = d.
Proof.
  induction d as [|e d IH]; [reflexivity|]. cbn. intros H. apply andb_true_iff in H as [He Hd].
  rewrite He. f_equal. now apply IH.
Qed.

Lemma filter_oucc_map ps : filter (is_call_of OUCC) (map (fun p => Call (pid p) OUCC AUnit) ps) = map (fun p => Call (pid p) OUCC AUnit) ps.
Proof. apply filter_all. apply forallb_forall. intros e He. apply in_map_iff in He as [p [<- _]]. reflexivity. Qed.
Lemma filter_oal_map ps : filter (is_call_of OAL) (map (fun p => Call (pid p) OUCC AUnit) ps) = [].
Proof. apply filter_none. apply forallb_forall. intros e He. apply in_map_iff in He as [p [<- _]]. reflexivity. Qed.

Definition is_client_close (e : event) : bool := match e with ClientClose => true | _ => false end.

Theorem lifecycle_once cf ps c0 steps :
  lifecycle_total ps -> keeps_keys ps -> (forall t, ctx_ok t c0) ->
  let l := run_conn cf ps c0 steps in
  if existsb is_first steps then
    (* every plugin's close hook exactly once, in configured order *)
    filter (is_call_of OUCC) l = map (fun p => Call (pid p) OUCC AUnit) ps
    (* the access-log chain ran exactly once: one call per plugin of a prefix of the configured list,
       in order; the default line at most once, and only after every plugin was asked *)
    /\ (exists n, map event_pid (filter (is_call_of OAL) l) = map pid (firstn n ps)
                  /\ (length (filter is_access_log l) <= 1)%nat
                  /\ (length (filter is_access_log l) = 1%nat -> n = length ps))
    /\ length (filter is_client_close l) = 1%nat
  else
    l = (if cf_final_flush cf then [ClientFlush] else []) ++ [ClientShutdown; ClientClose].
Proof.
  intros Ht Hk Hc0 l. destruct (existsb is_first steps) eqn:Hf.
  - destruct (lifecycle_shape cf ps c0 steps Ht Hk Hc0 Hf) as (l0 & st & dOAL & e & Hpre & _ & Hc & Hl).
    subst l. rewrite Hl. clear Hl.
    destruct Hpre as [d0 [Hd0 Hq0]]. cbn in Hd0. subst d0.
    destruct (chain_calls_prefix OAL ACtx on_access_log ps c0 l0) as (n & d & H1 & H2 & H3 & H4).
    rewrite Hc in H1, H4. cbn [fst snd] in H1, H4. apply app_inv_head in H1. subst d.
    assert (F0 : forall f, (forall e, q_pre e = true -> f e = false) -> filter f l0 = []).
    { intros f Hfq. apply filter_none. apply forallb_forall. intros ev Hev. rewrite forallb_forall in Hq0.
      now rewrite (Hfq _ (Hq0 _ Hev)). }
    assert (FD : forall f, (forall e, is_call_of OAL e = true -> f e = false) -> filter f dOAL = []).
    { intros f Hfq. apply filter_none. apply forallb_forall. intros ev Hev. rewrite forallb_forall in H3.
      now rewrite (Hfq _ (H3 _ Hev)). }
    assert (FM : forall f, (forall p, f (Call p OUCC AUnit) = false) -> filter f (map (fun p => Call (pid p) OUCC AUnit) ps) = []).
    { intros f Hfq. apply filter_none. apply forallb_forall. intros ev Hev. apply in_map_iff in Hev as [p [<- _]].
      now rewrite Hfq. }
    assert (Fu : forall f, f UpstreamClose = false -> filter f (if st_upstream st then [UpstreamClose] else []) = []).
    { intros f Hfu. destruct (st_upstream st); cbn; [now rewrite Hfu|reflexivity]. }
    assert (Q1 : forall ev, q_pre ev = true -> is_call_of OUCC ev = false) by (intros [p [] a| | | | | | | | | |]; cbn; try discriminate; reflexivity).
    assert (Q2 : forall ev, q_pre ev = true -> is_call_of OAL ev = false) by (intros [p [] a| | | | | | | | | |]; cbn; try discriminate; reflexivity).
    assert (Q3 : forall ev, q_pre ev = true -> is_access_log ev = false) by (intros [p [] a| | | | | | | | | |]; cbn; try discriminate; reflexivity).
    assert (Q4 : forall ev, q_pre ev = true -> is_client_close ev = false) by (intros [p [] a| | | | | | | | | |]; cbn; try discriminate; reflexivity).
    assert (D1 : forall ev, is_call_of OAL ev = true -> is_call_of OUCC ev = false) by (intros [p [] a| | | | | | | | | |]; cbn; try discriminate; reflexivity).
    assert (D3 : forall ev, is_call_of OAL ev = true -> is_access_log ev = false) by (intros [p [] a| | | | | | | | | |]; cbn; try discriminate; reflexivity).
    assert (D4 : forall ev, is_call_of OAL ev = true -> is_client_close ev = false) by (intros [p [] a| | | | | | | | | |]; cbn; try discriminate; reflexivity).
    split; [|split].
    + rewrite !filter_app, (F0 _ Q1), (FD _ D1), filter_oucc_map, (Fu _ eq_refl).
      destruct e; cbn; now rewrite app_nil_r.
    + exists n.
      rewrite !filter_app, (F0 _ Q2), (F0 _ Q3), (FD _ D3), (filter_all _ dOAL H3), (FM (is_call_of OAL)), (FM is_access_log),
        (Fu _ (eq_refl : is_call_of OAL UpstreamClose = false)), (Fu _ (eq_refl : is_access_log UpstreamClose = false)) by reflexivity.
      split; [|split].
      * destruct e; cbn; rewrite ?app_nil_r; exact H2.
      * destruct e; cbn; lia.
      * destruct e as [c|c|c r|c x]; cbn; try discriminate. intros _. now apply (H4 c).
    + rewrite !filter_app, (F0 _ Q4), (FD _ D4), (FM is_client_close), (Fu _ (eq_refl : is_client_close UpstreamClose = false)) by reflexivity.
      destruct e; reflexivity.
  - subst l. unfold run_conn. rewrite (run_steps_none cf ps steps [] Hf). unfold shutdown. destruct (cf_final_flush cf); reflexivity.
Qed.

(* ------------------------------------------------------------------ C08: an unauthenticated first request reaches nothing *)
Lemma pkt407_nonempty agent : exists x t, PROXY_AUTH_FAILED_RESPONSE_PKT agent = x :: t.
Proof.
  unfold PROXY_AUTH_FAILED_RESPONSE_PKT, build_http_response, build_http_pkt, HTTP_1_1.
  cbn [nonempty bs bytes_of_string app join]. eexists _, _. reflexivity.
Qed.

Lemma auth_fail_steps cf agent code users r c rest l :
  truthy (Some code) = true -> auth_ok code (rq_headers r) = false ->
  run_steps cf (auth_plugin agent (Some code) :: users) None false (SFirst r c :: rest) l
  = (l ++ [Call AUTH_PID BUC (ARequest r); QueueClient (PROXY_AUTH_FAILED_RESPONSE_PKT agent); Teardown],
     Some (mkState r false None)).
Proof.
  intros Ht Hno. cbn [run_steps]. unfold on_request_complete.
  cbn [chain auth_plugin before_upstream_connection pid]. unfold AuthPlugin_before_upstream_connection.
  rewrite Ht. cbn [body_or_empty]. rewrite Hno. cbn [norm_end escapes].
  rewrite drain_no_upstream by reflexivity.
  destruct (pkt407_nonempty agent) as (x & t & E). rewrite E. cbn [handle_data_end].
  rewrite <- app_assoc. reflexivity.
Qed.

Lemma q_post_filters e : q_post e = true ->
  is_connect e = false /\ is_queue_upstream e = false /\ is_queue_client e = false /\ is_request_hook e = false.
Proof. destruct e as [p [] a| | | | | | | | | |]; cbn; try discriminate; auto. Qed.

Theorem auth_fail_reaches_nothing cf agent code users r c rest c0 :
  truthy (Some code) = true -> auth_ok code (rq_headers r) = false ->
  let l := run_conn cf (auth_plugin agent (Some code) :: users) c0 (SFirst r c :: rest) in
  (exists d, l = [Call AUTH_PID BUC (ARequest r); QueueClient (PROXY_AUTH_FAILED_RESPONSE_PKT agent); Teardown] ++ d
             /\ forallb q_post d = true)
  /\ connect_log l = []
  /\ upstream_queue l = []
  /\ client_queue l = [QueueClient (PROXY_AUTH_FAILED_RESPONSE_PKT agent)]
  /\ filter is_request_hook l = [Call AUTH_PID BUC (ARequest r)].
Proof.
  intros Ht Hno l. subst l. unfold run_conn. rewrite (auth_fail_steps cf agent code users r c rest [] Ht Hno).
  cbn [app].
  set (l3 := [Call AUTH_PID BUC (ARequest r); QueueClient (PROXY_AUTH_FAILED_RESPONSE_PKT agent); Teardown]).
  pose proof (shutdown_post (auth_plugin agent (Some code) :: users) (Some (mkState r false None)) c0 (cf_final_flush cf) l3) as Hp.
  split; [exact Hp|].
  unfold connect_log, upstream_queue, client_queue.
  rewrite (dok_filter q_post is_connect l3 _ (fun e H => proj1 (q_post_filters e H)) Hp).
  rewrite (dok_filter q_post is_queue_upstream l3 _ (fun e H => proj1 (proj2 (q_post_filters e H))) Hp).
  rewrite (dok_filter q_post is_queue_client l3 _ (fun e H => proj1 (proj2 (proj2 (q_post_filters e H)))) Hp).
  rewrite (dok_filter q_post is_request_hook l3 _ (fun e H => proj2 (proj2 (proj2 (q_post_filters e H)))) Hp).
  repeat split; reflexivity.
Qed.

(* the other direction: with the right credentials the auth plugin is transparent in every chain *)
Lemma auth_pass_chain_head {A} agent code hk inj (call : plugin -> log -> A -> outcome A) users x l :
  call (auth_plugin agent code) l x = Pass x ->
  chain hk inj call (auth_plugin agent code :: users) x l = chain hk inj call users x (l ++ [Call AUTH_PID hk (inj x)]).
Proof. intros H. cbn [chain]. rewrite H. reflexivity. Qed.

(* ------------------------------------------------------------------ C09: drop suppresses, reject is exact *)
Definition end_state (e : step_end) : pstate := match e with Continue st | Failed st _ => st end.

Lemma after_connect_false cf ps r1 l2 :
  fst (after_connect cf ps false r1 l2) = fst (chain HCR ARequest handle_client_request ps r1 l2)
  /\ st_upstream (end_state (snd (after_connect cf ps false r1 l2))) = false.
Proof.
  unfold after_connect. destruct (chain HCR ARequest handle_client_request ps r1 l2) as [l3 e].
  destruct (norm_end e); cbn; split; reflexivity.
Qed.

Lemma call_filters hk e : is_call_of hk e = true -> is_connect e = false /\ is_queue_upstream e = false /\ is_queue_client e = false.
Proof. destruct e; try discriminate; auto. Qed.

(* a before_upstream_connection hook returning None: the chain stops there, no connect is attempted,
   nothing is queued for upstream (the handle_client_request chain still runs), self.upstream stays None *)
Theorem drop_before_connect cf ps r c l l1 rx :
  chain BUC ARequest before_upstream_connection ps r l = (l1, Dropped rx) ->
  let res := on_request_complete cf ps r c l in
  res = after_connect cf ps false rx l1
  /\ connect_log (fst res) = connect_log l
  /\ upstream_queue (fst res) = upstream_queue l
  /\ client_queue (fst res) = client_queue l
  /\ st_upstream (end_state (snd res)) = false.
Proof.
  intros H res. subst res. unfold on_request_complete. rewrite H. cbn [norm_end].
  destruct (after_connect_false cf ps rx l1) as [Hl Hs]. split; [reflexivity|].
  rewrite Hl, Hs.
  pose proof (chain_dok BUC ARequest before_upstream_connection ps r l) as H1. rewrite H in H1. cbn [fst] in H1.
  pose proof (chain_dok HCR ARequest handle_client_request ps rx l1) as H2.
  unfold connect_log, upstream_queue, client_queue.
  rewrite (dok_filter _ is_connect l1 _ (fun e He => proj1 (call_filters HCR e He)) H2).
  rewrite (dok_filter _ is_connect l _ (fun e He => proj1 (call_filters BUC e He)) H1).
  rewrite (dok_filter _ is_queue_upstream l1 _ (fun e He => proj1 (proj2 (call_filters HCR e He))) H2).
  rewrite (dok_filter _ is_queue_upstream l _ (fun e He => proj1 (proj2 (call_filters BUC e He))) H1).
  rewrite (dok_filter _ is_queue_client l1 _ (fun e He => proj2 (proj2 (call_filters HCR e He))) H2).
  rewrite (dok_filter _ is_queue_client l _ (fun e He => proj2 (proj2 (call_filters BUC e He))) H1).
  repeat split; reflexivity.
Qed.

(* a handle_client_request hook returning None on the first request: nothing more is logged — the
   request is not forwarded and no tunnel response is sent *)
Theorem drop_first_request cf ps connected r1 l2 l3 rx :
  chain HCR ARequest handle_client_request ps r1 l2 = (l3, Dropped rx) ->
  after_connect cf ps connected r1 l2 = (l3, Continue (mkState rx connected None)).
Proof. intros H. unfold after_connect. rewrite H. reflexivity. Qed.

(* ... and on a later request of the connection *)
Theorem drop_later_request cf ps st pr l l1 rx :
  chain HCR ARequest handle_client_request ps pr l = (l1, Dropped rx) ->
  run_later cf ps st pr l = (l1, Continue (mkState (st_request st) true (Some rx)), None)
  /\ upstream_queue l1 = upstream_queue l.
Proof.
  intros H. unfold run_later. rewrite H. split; [reflexivity|].
  pose proof (chain_dok HCR ARequest handle_client_request ps pr l) as H1. rewrite H in H1. cbn [fst] in H1.
  unfold upstream_queue. now rewrite (dok_filter _ is_queue_upstream l _ (fun e He => proj1 (proj2 (call_filters HCR e He))) H1).
Qed.

Lemma handle_data_end_reject b l : b <> [] -> handle_data_end (FReject (Some b)) l = l ++ [QueueClient b; Teardown].
Proof. destruct b; [contradiction|reflexivity]. Qed.

(* rejection in before_upstream_connection: exactly the rejecting plugin's response, teardown, no
   upstream contact at all, the rest of the history is not processed *)
Theorem reject_before_connect cf ps r c rest l l1 rx resp :
  chain BUC ARequest before_upstream_connection ps r l = (l1, Rejected rx resp) ->
  run_steps cf ps None false (SFirst r c :: rest) l = (handle_data_end (FReject resp) l1, Some (mkState rx false None))
  /\ connect_log l1 = connect_log l /\ upstream_queue l1 = upstream_queue l /\ client_queue l1 = client_queue l.
Proof.
  intros H. cbn [run_steps]. unfold on_request_complete. rewrite H. cbn [norm_end escapes].
  rewrite drain_no_upstream by reflexivity. split; [reflexivity|].
  pose proof (chain_dok BUC ARequest before_upstream_connection ps r l) as H1. rewrite H in H1. cbn [fst] in H1.
  unfold connect_log, upstream_queue, client_queue.
  rewrite (dok_filter _ is_connect l _ (fun e He => proj1 (call_filters BUC e He)) H1).
  rewrite (dok_filter _ is_queue_upstream l _ (fun e He => proj1 (proj2 (call_filters BUC e He))) H1).
  rewrite (dok_filter _ is_queue_client l _ (fun e He => proj2 (proj2 (call_filters BUC e He))) H1).
  repeat split; reflexivity.
Qed.

(* rejection in handle_client_request of the first request: the upstream connection already exists
   (connect happens between the two chains) but no byte is queued for it *)
Theorem reject_first_request cf ps connected r1 l2 l3 rx resp :
  chain HCR ARequest handle_client_request ps r1 l2 = (l3, Rejected rx resp) ->
  after_connect cf ps connected r1 l2 = (l3, Failed (mkState rx connected None) (FReject resp))
  /\ upstream_queue l3 = upstream_queue l2 /\ client_queue l3 = client_queue l2.
Proof.
  intros H. unfold after_connect. rewrite H. cbn [norm_end]. split; [reflexivity|].
  pose proof (chain_dok HCR ARequest handle_client_request ps r1 l2) as H1. rewrite H in H1. cbn [fst] in H1.
  unfold upstream_queue, client_queue.
  rewrite (dok_filter _ is_queue_upstream l2 _ (fun e He => proj1 (proj2 (call_filters HCR e He))) H1).
  rewrite (dok_filter _ is_queue_client l2 _ (fun e He => proj2 (proj2 (call_filters HCR e He))) H1).
  split; reflexivity.
Qed.

Theorem reject_later_request cf ps st pr l l1 rx resp :
  chain HCR ARequest handle_client_request ps pr l = (l1, Rejected rx resp) ->
  run_later cf ps st pr l = (l1, Failed (mkState (st_request st) true (Some rx)) (FReject resp), None)
  /\ upstream_queue l1 = upstream_queue l /\ client_queue l1 = client_queue l.
Proof.
  intros H. unfold run_later. rewrite H. cbn [norm_end]. split; [reflexivity|].
  pose proof (chain_dok HCR ARequest handle_client_request ps pr l) as H1. rewrite H in H1. cbn [fst] in H1.
  unfold upstream_queue, client_queue.
  rewrite (dok_filter _ is_queue_upstream l _ (fun e He => proj1 (proj2 (call_filters HCR e He))) H1).
  rewrite (dok_filter _ is_queue_client l _ (fun e He => proj2 (proj2 (call_filters HCR e He))) H1).
  split; reflexivity.
Qed.

(* ------------------------------------------------------------------ C08: credentials are never forwarded *)
Definition wf_request (r : request) : Prop := wf_headers (rq_headers r).
(* the request-rewriting hooks of a plugin keep the header dict a dict keyed by lower-cased names *)
Definition plugin_wf (p : plugin) : Prop :=
  (forall seen r r', wf_request r -> before_upstream_connection p seen r = Pass r' -> wf_request r')
  /\ (forall seen r r', wf_request r -> handle_client_request p seen r = Pass r' -> wf_request r').
Definition parse_wf (p : parse_result) : Prop := match p with PComplete r _ => wf_request r | PPartial => True end.
Definition step_wf (s : step) : Prop :=
  match s with SFirst r _ => wf_request r | SClient _ parses => Forall parse_wf parses | _ => True end.
Definition qclean (l : log) : Prop := forall b, In (QueueUpstream QRequest b) l -> clean_pkt b.
Definition pipe_wf (st : pstate) : Prop := match st_pipeline st with Some pr => wf_request pr | None => True end.

Lemma wf_set_buffer r b : wf_request (set_buffer r b) <-> wf_request r.
Proof. unfold wf_request, set_buffer. cbn [rq_headers]. tauto. Qed.

Lemma qclean_dok l l' : qclean l -> delta_ok q_noup l l' -> qclean l'.
Proof.
  intros H [d [-> Hd]] b Hb. apply in_app_or in Hb as [Hb|Hb]; [now apply H|].
  rewrite forallb_forall in Hd. specialize (Hd _ Hb). discriminate.
Qed.

Lemma call_noup hk e : is_call_of hk e = true -> q_noup e = true.
Proof. intros H. apply q_call_noup. eapply call_q_call, H. Qed.

Lemma dict_set_keys_other {V} k (v : V) d a : a <> k -> ~ In a (dict_keys d) -> ~ In a (dict_keys (dict_set k v d)).
Proof.
  intros Hak Hn. destruct (in_dec (list_eq_dec N.eq_dec) k (dict_keys d)) as [Hi|Hni].
  - now rewrite dict_keys_set_in.
  - rewrite dict_keys_set_notin by exact Hni. intros H. apply in_app_or in H as [H|[H|[]]]; [contradiction|]. now subst.
Qed.

Lemma scrub_wf cf t r : wf_request r ->
  wf_request (scrub cf t r)
  /\ ~ In PROXY_AUTHORIZATION (dict_keys (rq_headers (scrub cf t r)))
  /\ ~ In PROXY_CONNECTION (dict_keys (rq_headers (scrub cf t r))).
Proof.
  intros Hw. unfold scrub, wf_request. cbn [rq_headers set_headers].
  pose proof (wf_del_headers [PROXY_AUTHORIZATION; PROXY_CONNECTION] _ Hw) as Hw1.
  destruct (del_headers_two PROXY_AUTHORIZATION PROXY_CONNECTION (rq_headers r) (proj1 Hw) eq_refl eq_refl) as [Ha Hc].
  destruct t; [split; [exact Hw1|split; assumption]|].
  split; [now apply wf_add_headers|]. unfold add_headers. cbn [fold_left fst snd]. unfold add_header.
  split; apply dict_set_keys_other; try assumption; vm_compute; discriminate.
Qed.

Lemma queue_request_clean cf t r l : wf_request r -> qclean l ->
  qclean (fst (fst (queue_request_for_upstream cf t r l))) /\ wf_request (snd (fst (queue_request_for_upstream cf t r l))).
Proof.
  intros Hw Hq. destruct (scrub_wf cf t r Hw) as (Hw' & Ha & Hc).
  destruct (queue_request_spec cf t r l) as [[b [Hb ->]]|[e ->]]; cbn [fst snd]; split; try assumption.
  intros b' Hb'. apply in_app_or in Hb' as [Hb'|[Hb'|[]]]; [now apply Hq|]. inversion Hb'; subst b'.
  eapply build_clean; eassumption.
Qed.

Lemma chain_wf_buc ps r l : Forall plugin_wf ps -> wf_request r ->
  wf_request (end_value (norm_end (snd (chain BUC ARequest before_upstream_connection ps r l)))).
Proof.
  intros Hp Hr. rewrite norm_end_value. apply chain_preserves; [|exact Hr].
  intros p seen a b Hin Ha Hb. rewrite Forall_forall in Hp. exact (proj1 (Hp p Hin) seen a b Ha Hb).
Qed.
Lemma chain_wf_hcr ps r l : Forall plugin_wf ps -> wf_request r ->
  wf_request (end_value (norm_end (snd (chain HCR ARequest handle_client_request ps r l)))).
Proof.
  intros Hp Hr. rewrite norm_end_value. apply chain_preserves; [|exact Hr].
  intros p seen a b Hin Ha Hb. rewrite Forall_forall in Hp. exact (proj2 (Hp p Hin) seen a b Ha Hb).
Qed.

Lemma after_connect_clean cf ps connected r1 l2 : Forall plugin_wf ps -> wf_request r1 -> qclean l2 ->
  qclean (fst (after_connect cf ps connected r1 l2)) /\ pipe_wf (end_state (snd (after_connect cf ps connected r1 l2))).
Proof.
  intros Hp Hr Hq. unfold after_connect.
  pose proof (chain_dok HCR ARequest handle_client_request ps r1 l2) as H3.
  pose proof (chain_wf_hcr ps r1 l2 Hp Hr) as Hv.
  destruct (chain HCR ARequest handle_client_request ps r1 l2) as [l3 e2]. cbn [fst snd] in *.
  assert (Q3 : qclean l3) by (eapply qclean_dok; [exact Hq|eapply dok_weaken; [apply call_noup|exact H3]]).
  destruct (norm_end e2); cbn [fst snd end_state end_value] in *; try (split; [exact Q3|exact I]).
  destruct connected; [|split; [exact Q3|exact I]]. destruct (rq_tunnel x).
  - cbn [fst snd end_state]. split; [|exact I]. eapply qclean_dok; [exact Q3|apply dok_app; reflexivity].
  - pose proof (queue_request_clean cf false x l3 Hv Q3) as [H4 _].
    destruct (queue_request_for_upstream cf false x l3) as [[l4 r3] f]. cbn [fst snd] in H4.
    destruct f; cbn [fst snd end_state]; split; (exact H4 || exact I).
Qed.

Lemma on_request_complete_clean cf ps r c l : Forall plugin_wf ps -> wf_request r -> qclean l ->
  qclean (fst (on_request_complete cf ps r c l)) /\ pipe_wf (end_state (snd (on_request_complete cf ps r c l))).
Proof.
  intros Hp Hr Hq. unfold on_request_complete.
  pose proof (chain_dok BUC ARequest before_upstream_connection ps r l) as H1.
  pose proof (chain_wf_buc ps r l Hp Hr) as Hv.
  destruct (chain BUC ARequest before_upstream_connection ps r l) as [l1 e1]. cbn [fst snd] in *.
  assert (Q1 : qclean l1) by (eapply qclean_dok; [exact Hq|eapply dok_weaken; [apply call_noup|exact H1]]).
  destruct (norm_end e1); cbn [fst snd end_state end_value] in *; try (split; [exact Q1|exact I]).
  - pose proof (connect_upstream_dok cf ps x c l1) as H2.
    destruct (connect_upstream cf ps x c l1) as [l2 f]. cbn [fst] in H2.
    assert (Q2 : qclean l2) by (eapply qclean_dok; [exact Q1|eapply dok_weaken; [exact q_conn_noup|exact H2]]).
    destruct f; [split; [exact Q2|exact I]|]. now apply after_connect_clean.
  - now apply after_connect_clean.
Qed.

Lemma run_later_clean cf ps st pr l : Forall plugin_wf ps -> wf_request pr -> qclean l ->
  qclean (fst (fst (run_later cf ps st pr l))) /\ pipe_wf (end_state (snd (fst (run_later cf ps st pr l)))).
Proof.
  intros Hp Hr Hq. unfold run_later.
  pose proof (chain_dok HCR ARequest handle_client_request ps pr l) as H1.
  pose proof (chain_wf_hcr ps pr l Hp Hr) as Hv.
  destruct (chain HCR ARequest handle_client_request ps pr l) as [l1 e]. cbn [fst snd] in *.
  assert (Q1 : qclean l1) by (eapply qclean_dok; [exact Hq|eapply dok_weaken; [apply call_noup|exact H1]]).
  destruct (norm_end e); cbn [fst snd end_state end_value] in *; try (split; [exact Q1|exact Hv]).
  pose proof (queue_request_clean cf (rq_tunnel (st_request st)) x l1 Hv Q1) as [H4 H5].
  destruct (queue_request_for_upstream cf (rq_tunnel (st_request st)) x l1) as [[l2 r2] f]. cbn [fst snd] in H4, H5.
  destruct f; cbn [fst snd end_state]; (split; [exact H4|]); unfold pipe_wf; cbn [st_pipeline]; [exact H5|].
  destruct (is_connection_upgrade r2); [now apply wf_set_buffer|exact I].
Qed.

Lemma client_loop_clean cf ps st parses l : Forall plugin_wf ps -> Forall parse_wf parses -> pipe_wf st -> qclean l ->
  qclean (fst (client_loop cf ps st parses l)) /\ pipe_wf (end_state (snd (client_loop cf ps st parses l))).
Proof.
  intros Hp. revert st l. induction parses as [|[|pr rem] t IH]; intros st l Hw Hs Hq; cbn [client_loop];
    try (cbn [fst snd end_state]; now split).
  inversion Hw as [|? ? Hw1 Hw2]; subst. cbn [parse_wf] in Hw1.
  pose proof (run_later_clean cf ps st (set_buffer pr rem) l Hp (proj2 (wf_set_buffer pr rem) Hw1) Hq) as [H1 H2].
  destruct (run_later cf ps st (set_buffer pr rem) l) as [[l1 e] r]. cbn [fst snd] in H1, H2.
  destruct e as [st1|st1 f]; [|cbn [fst snd]; now split]. destruct r as [rem'|]; [|cbn [fst snd]; now split].
  cbn [end_state] in H2. destruct (st_pipeline st1) eqn:Ep.
  - cbn [fst snd end_state]. split; [|exact H2].
    intros b Hb. apply in_app_or in Hb as [Hb|[Hb|[]]]; [now apply H1|discriminate].
  - now apply IH.
Qed.

Lemma on_client_data_clean cf ps st raw parses l : Forall plugin_wf ps -> pipe_wf st ->
  Forall parse_wf parses -> qclean l ->
  qclean (fst (on_client_data cf ps st raw parses l)) /\ pipe_wf (end_state (snd (on_client_data cf ps st raw parses l))).
Proof.
  intros Hp Hs Hr Hq. unfold on_client_data. destruct (negb (st_upstream st)).
  - pose proof (chain_dok HCD ABytes handle_client_data ps raw l) as H.
    destruct (chain HCD ABytes handle_client_data ps raw l) as [l1 e]. cbn [fst] in H.
    assert (Q1 : qclean l1) by (eapply qclean_dok; [exact Hq|eapply dok_weaken; [apply call_noup|exact H]]).
    destruct (fail_of_end e); cbn [fst snd end_state]; now split.
  - assert (QR : forall l0 x, qclean l0 -> qclean (l0 ++ [QueueUpstream QRaw x])).
    { intros l0 x H0 b Hb. apply in_app_or in Hb as [Hb|[Hb|[]]]; [now apply H0|discriminate]. }
    destruct (rq_tunnel (st_request st)); [cbn [fst snd end_state]; split; [now apply QR|exact Hs]|].
    pose proof Hs as Hs'. unfold pipe_wf in Hs'. destruct (st_pipeline st) as [pr|] eqn:Ep.
    + destruct (is_connection_upgrade pr); [cbn [fst snd end_state]; split; [now apply QR|exact Hs]|].
      pose proof (run_later_clean cf ps st (set_buffer pr (rq_buffer pr ++ raw)) l Hp (proj2 (wf_set_buffer pr _) Hs') Hq) as [H1 H2].
      destruct (run_later cf ps st (set_buffer pr (rq_buffer pr ++ raw)) l) as [[l1 e] r]. cbn [fst snd] in H1, H2.
      destruct e as [st1|st1 f]; [|cbn [fst snd]; now split]. destruct r as [rem'|]; [|cbn [fst snd]; now split].
      cbn [end_state] in H2. destruct (st_pipeline st1) eqn:Ep1.
      * cbn [fst snd end_state]. split; [now apply QR|exact H2].
      * now apply client_loop_clean.
    + now apply client_loop_clean.
Qed.

Lemma run_steps_clean cf ps st dr steps l :
  Forall plugin_wf ps -> Forall step_wf steps -> qclean l ->
  match st with Some s => pipe_wf s | None => True end ->
  qclean (fst (run_steps cf ps st dr steps l)).
Proof.
  intros Hp. revert st dr l. induction steps as [|s t IH]; intros st dr l Hs Hq Hst; cbn [run_steps]; [exact Hq|].
  inversion Hs as [|? ? Hs1 Hs2]; subst.
  destruct st as [st0|]; destruct s as [r c|raw parsed|raw]; try (now apply IH).
  - destruct dr; [now apply IH|].
    pose proof (on_client_data_clean cf ps st0 raw parsed l Hp Hst) as H.
    cbn [step_wf] in Hs1. specialize (H Hs1 Hq).
    destruct (on_client_data cf ps st0 raw parsed l) as [l1 [st1|st1 f]]; cbn [fst snd end_state] in *; destruct H as [H1 H2].
    + now apply IH.
    + assert (Q : qclean (handle_data_end f l1)) by (eapply qclean_dok; [exact H1|apply handle_data_end_noup]).
      destruct (escapes f); [exact Q|]. destruct f; [now apply IH|exact Q].
  - destruct (st_upstream st0); [|now apply IH].
    pose proof (on_upstream_data_noup ps st0 raw l) as H.
    assert (Hsame : forall st1, snd (on_upstream_data ps st0 raw l) = Continue st1 -> st1 = st0).
    { unfold on_upstream_data. destruct (chain HUC ABytes handle_upstream_chunk ps raw l) as [l1 e].
      destruct e; cbn [snd]; intros st1 E; inversion E; reflexivity. }
    destruct (on_upstream_data ps st0 raw l) as [l1 [st1|st1 f]]; cbn [fst snd] in *.
    + rewrite (Hsame st1 eq_refl). apply IH; [exact Hs2| |exact Hst]. eapply qclean_dok; eassumption.
    + eapply qclean_dok; [eapply qclean_dok; eassumption|apply upstream_data_end_noup].
  - destruct dr; [now apply IH|].
    pose proof (on_request_complete_clean cf ps r c l Hp Hs1 Hq) as H.
    destruct (on_request_complete cf ps r c l) as [l1 [st1|st1 f]]; cbn [fst snd end_state] in *; destruct H as [H1 H2].
    + now apply IH.
    + assert (Q : qclean (handle_data_end f l1)) by (eapply qclean_dok; [exact H1|apply handle_data_end_noup]).
      destruct (escapes f); [exact Q|]. destruct f; [now apply IH|exact Q].
Qed.

(* over every history: whatever is rebuilt and queued for the upstream server carries neither
   Proxy-Authorization nor Proxy-Connection (any casing) — first and later requests alike *)
Theorem creds_not_forwarded cf ps c0 steps :
  Forall plugin_wf ps -> Forall step_wf steps ->
  forall b, In (QueueUpstream QRequest b) (run_conn cf ps c0 steps) -> clean_pkt b.
Proof.
  intros Hp Hs. unfold run_conn.
  pose proof (run_steps_clean cf ps None false steps [] Hp Hs (fun b H => match H with end) I) as Hq.
  destruct (run_steps cf ps None false steps []) as [l st]. cbn [fst] in Hq.
  eapply qclean_dok; [exact Hq|]. eapply dok_weaken; [|apply shutdown_post].
  intros e He. destruct e as [p [] a| | | | | | | | | |]; try discriminate; reflexivity.
Qed.

(* the raw relay only happens inside a CONNECT tunnel or after a protocol upgrade was forwarded *)
Lemma auth_plugin_wf agent code : plugin_wf (auth_plugin agent code).
Proof.
  split; intros seen r r' Hr H; cbn [auth_plugin before_upstream_connection handle_client_request] in H.
  - unfold AuthPlugin_before_upstream_connection in H.
    destruct (truthy code); [destruct (auth_ok _ _)|]; inversion H; now subst.
  - inversion H. now subst.
Qed.

(* ------------------------------------------------------------------ load order, put together *)
(* the HttpProxyBasePlugin bucket after flag.py's Plugins.load(defaults + auth_plugins + requested):
   the auth plugin (if loaded) followed by the requested plugin classes in the order given, each
   class once (first occurrence) *)
Lemma load_bucket_general abc defaults basic_auth auth is_default requested :
  In PROXY_BASE abc -> k_base auth = PROXY_BASE -> (forall d, In d defaults -> k_base d <> PROXY_BASE) ->
  bucket PROXY_BASE (initialize_plugins abc defaults basic_auth auth is_default requested) =
  fold_left (fun ks k => if PROXY_BASE =? k_base k then add_klass k ks else ks) requested
            (if truthy basic_auth || negb is_default then [auth] else []).
Proof.
  intros Habc Hb Hd. unfold initialize_plugins, load, auth_plugins.
  rewrite bucket_fold by (rewrite map_map; cbn; now rewrite map_id).
  rewrite bucket_init, !fold_left_app. rewrite (fold_other_base PROXY_BASE [] defaults Hd).
  destruct (truthy basic_auth || negb is_default); [|reflexivity].
  cbn [fold_left]. rewrite Hb, N.eqb_refl. reflexivity.
Qed.

Theorem auth_first_in_chain abc defaults basic_auth auth is_default requested :
  truthy basic_auth = true -> In PROXY_BASE abc -> k_base auth = PROXY_BASE ->
  (forall d, In d defaults -> k_base d <> PROXY_BASE) ->
  (forall k, In k requested -> same_klass k auth = false -> pname (k_plugin k) <> pname (k_plugin auth)) ->
  exists others, proxy_plugins (initialize_plugins abc defaults basic_auth auth is_default requested) = k_plugin auth :: others.
Proof.
  intros Ht Habc Hb Hd Hn.
  destruct (load_order abc defaults basic_auth auth is_default requested Ht Habc Hb Hd) as (rest & H1 & H2).
  unfold proxy_plugins. rewrite H1. eexists. apply instantiate_head.
  intros k Hk. destruct (H2 k Hk) as [Hr Hs]. now apply Hn.
Qed.
