(* Net/Tunnel.v — BaseTcpTunnelHandler (proxy/core/base/tcp_tunnel.py) on top of the
   BaseTcpServerHandler functions of Handler.v.  Definitions only.

   handle_data is abstract in the Python class.  The model gives it the shape every tunnel
   implementation must have (examples/https_connect_tunnel.py): once the upstream is connected
   client bytes are queued for it unchanged; before that the request oracle [req ev] decides
   (RProxy = CONNECT accepted: connect_upstream() and queue the acknowledgement — bytes of the same
   segment behind the CONNECT stay in request.buffer and are DROPPED by the example class, so [rem] is
   ignored here; RError = queue
   these pieces and return True; RIncomplete = wait; RRaise = exception).
   No try/except anywhere in tcp_tunnel.py: every exception of recv/flush escapes handle_events.
   The model describes the class WITH commit 76c50ed (proposed_fixes/C07-tunnel-upstream-eof.diff) (upstream EOF waits for
   the client buffer instead of returning True at once). *)
From PM Require Import Lib.Bytes Net.Conn Net.Handler.
From Coq Require Import ZArith.

Definition tunnel_handle_data (c : cfg) (ev : event) (s : hstate) (data : bytes) : hstate * option bool :=
  match upstream s with
  | Some u => (set_upstream (Some (queue data u)) (note_cl_rcvd data s), Some false)
  | None =>
      if req_complete s then (s, Some false) else
      match req ev with
      | RProxy _ _ _ =>
          (client_queue (ack c) (set_upstream (Some new_conn) (set_request true PProxy true s)), Some false)
      | RError pieces => (client_queue_all pieces (set_request true PNone false s), Some true)
      | RServe pieces _ => (client_queue_all pieces (set_request true PNone false s), Some false)
      | RIncomplete => (s, Some false)
      | RRaise => (s, None)
      end
  end.

(* BaseTcpServerHandler.handle_events: teardown = handle_writables(w) or handle_readables(r) *)
Definition base_handle_events (hd : hstate -> bytes -> hstate * option bool) (c : cfg) (ev : event) (s : hstate)
  : hstate * hres :=
  match base_handle_writables c ev s with
  | (s1, HRet true) => (s1, HRet true)
  | (s1, HRet false) => base_handle_readables hd ev s1
  | (s1, e) => (s1, e)
  end.

(* get_events: client events of the base class; upstream READ when connected and not in the final flush
   (commit 76c50ed (proposed_fixes/C07-tunnel-upstream-eof.diff)), WRITE when it has a buffer *)
Definition tunnel_get_events (s : hstate) : interest :=
  let '(cr, cw) := base_get_events s in
  match upstream s with
  | Some u => mkInt cr cw (negb (must_flush s)) (has_buffer u)
  | None => mkInt cr cw false false
  end.

(* handle_events:
     do_shutdown = super().handle_events(...); if do_shutdown: return True
     if upstream readable: data = upstream.recv(); if data is None: return True; work.queue(data)
     if upstream writable: upstream.flush()
     return False *)
(* the upstream part of handle_events, with commit 76c50ed (proposed_fixes/C07-tunnel-upstream-eof.diff):
     if upstream readable: data = upstream.recv()
        if data is None:                              (server closed)
            if not work.has_buffer(): return True
            must_flush_before_shutdown = True; return False      (was: return True, dropping the buffer)
        work.queue(data)
     if upstream writable: upstream.flush()
     return False *)
Definition tunnel_server_events (c : cfg) (ev : event) (s1 : hstate) : hstate * res :=
  match upstream s1 with
  | None => (s1, Continue)
  | Some u =>
      let server_closed : hstate * res :=
        if has_buffer (work s1) then (set_must_flush true s1, Continue) else (s1, Teardown) in
      let write_part (s2 : hstate) : hstate * res :=
        if u_w ev then
          match flush (max_send c) (u_send ev) u with
          | (u', Flushed _) => (set_upstream (Some u') s2, Continue)
          | (_, _) => (s2, Raised)
          end
        else (s2, Continue) in
      if u_r ev then
        match u_recv ev with
        | REof => server_closed
        | RData [] => server_closed
        | RData raw => write_part (client_queue raw (note_up_rcvd raw s1))
        | _ => (s1, Raised)
        end
      else write_part s1
  end.

Definition tunnel_handle_events (c : cfg) (ev : event) (s : hstate) : hstate * res :=
  match base_handle_events (tunnel_handle_data c ev) c ev s with
  | (s1, HRet true) => (s1, Teardown)
  | (s1, HRet false) => tunnel_server_events c ev s1
  | (s1, _) => (s1, Raised)
  end.

Definition tunnel_select (s : hstate) (ev : event) : event :=
  let i := tunnel_get_events s in
  mkEvent (now ev) (c_r ev && i_cr i) (c_w ev && i_cw i) (u_r ev && i_ur i) (u_w ev && i_uw i)
          (c_send ev) (u_send ev) (c_recv ev) (u_recv ev) (req ev) (cdata ev).

Definition tunnel_step (c : cfg) (s : hstate) (ev : event) : hstate * res :=
  tunnel_handle_events c (tunnel_select s ev) s.

Fixpoint tunnel_run (c : cfg) (s : hstate) (evs : list event) : hstate * res :=
  match evs with
  | [] => (s, Continue)
  | ev :: t => match tunnel_step c s ev with
               | (s', Continue) => tunnel_run c s' t
               | r => r
               end
  end.

(* shutdown(): upstream.close(); super().shutdown() is Work.shutdown(), which only publishes an event:
   the client socket is NOT closed by this class (left to the garbage collector). *)
Definition tunnel_shutdown (s : hstate) : hstate := close_upstream s.
