(* Net/AuthFacts.v — lemmas about Net/Auth.v: the credential decision, header-line ingestion
   (last duplicate wins), and what the rebuilt request can contain after scrubbing. *)
From PM Require Import Lib.Bytes Lib.BytesFacts Lib.PyStr Net.Auth.

(* ------------------------------------------------------------------ dict facts *)
Section DictFacts.
  Context {V : Type}.
  Implicit Types d : dict V.

  Lemma bytes_eqb_sym x y : bytes_eqb x y = bytes_eqb y x.
  Proof.
    destruct (bytes_eqb x y) eqn:E.
    - apply bytes_eqb_eq in E. subst. symmetry. apply bytes_eqb_refl.
    - destruct (bytes_eqb y x) eqn:E'; [|reflexivity].
      apply bytes_eqb_eq in E'. subst. rewrite bytes_eqb_refl in E. discriminate.
  Qed.

  Lemma bytes_eqb_neq x y : bytes_eqb x y = false <-> x <> y.
  Proof.
    split.
    - intros E H. subst. rewrite bytes_eqb_refl in E. discriminate.
    - intros H. destruct (bytes_eqb x y) eqn:E; [|reflexivity]. apply bytes_eqb_eq in E. contradiction.
  Qed.

  Lemma dict_get_set k k' (v : V) d :
    dict_get k (dict_set k' v d) = if bytes_eqb k k' then Some v else dict_get k d.
  Proof.
    induction d as [|[k0 v0] d IH]; cbn [dict_set dict_get].
    - destruct (bytes_eqb k k'); reflexivity.
    - destruct (bytes_eqb k' k0) eqn:E0; cbn [dict_get].
      + apply bytes_eqb_eq in E0. subst k0. destruct (bytes_eqb k k'); reflexivity.
      + destruct (bytes_eqb k k0) eqn:E1.
        * apply bytes_eqb_eq in E1. subst k0. rewrite bytes_eqb_sym, E0. reflexivity.
        * exact IH.
  Qed.

  Lemma dict_keys_set_in k (v : V) d : In k (dict_keys d) -> dict_keys (dict_set k v d) = dict_keys d.
  Proof.
    induction d as [|[k0 v0] d IH]; cbn [dict_set dict_keys map fst]; intros H; [contradiction|].
    destruct (bytes_eqb k k0) eqn:E.
    - apply bytes_eqb_eq in E. subst. reflexivity.
    - cbn [map fst]. f_equal. apply IH. destruct H as [H|H]; [|exact H].
      subst. rewrite bytes_eqb_refl in E. discriminate.
  Qed.

  Lemma dict_set_notin k (v : V) d : ~ In k (dict_keys d) -> dict_set k v d = d ++ [(k, v)].
  Proof.
    induction d as [|[k0 v0] d IH]; cbn [dict_set dict_keys map fst app]; intros H; [reflexivity|].
    destruct (bytes_eqb k k0) eqn:E.
    - apply bytes_eqb_eq in E. subst. exfalso. apply H. now left.
    - f_equal. apply IH. intros H'. apply H. now right.
  Qed.

  Lemma dict_keys_set_notin k (v : V) d : ~ In k (dict_keys d) -> dict_keys (dict_set k v d) = dict_keys d ++ [k].
  Proof. intros H. rewrite dict_set_notin by exact H. unfold dict_keys. now rewrite map_app. Qed.

  Lemma dict_set_nodup k (v : V) d : NoDup (dict_keys d) -> NoDup (dict_keys (dict_set k v d)).
  Proof.
    intros H. destruct (in_dec (list_eq_dec N.eq_dec) k (dict_keys d)) as [Hi|Hn].
    - now rewrite dict_keys_set_in.
    - rewrite dict_keys_set_notin by exact Hn. apply NoDup_rev in H.
      rewrite <- (rev_involutive (dict_keys d ++ [k])). apply NoDup_rev.
      rewrite rev_app_distr. cbn. constructor; [|exact H]. now rewrite <- in_rev.
  Qed.

  Lemma dict_set_in_inv k (v : V) d e : In e (dict_set k v d) -> e = (k, v) \/ In e d.
  Proof.
    induction d as [|[k0 v0] d IH]; cbn [dict_set]; intros H.
    - destruct H as [H|[]]. now left.
    - destruct (bytes_eqb k k0).
      + destruct H as [H|H]; [now left|right; now right].
      + destruct H as [H|H]; [right; now left|]. destruct (IH H) as [H'|H']; [now left|right; now right].
  Qed.

  Lemma dict_del_in_inv k d e : In e (dict_del k d) -> In e d.
  Proof.
    induction d as [|[k0 v0] d IH]; cbn [dict_del]; intros H; [exact H|].
    destruct (bytes_eqb k k0); [now right|]. destruct H as [H|H]; [now left|right; now apply IH].
  Qed.

  Lemma dict_del_keys_incl k d x : In x (dict_keys (dict_del k d)) -> In x (dict_keys d).
  Proof.
    unfold dict_keys. intros H. apply in_map_iff in H as [e [He Hi]]. apply in_map_iff. exists e. split; [exact He|].
    eapply dict_del_in_inv, Hi.
  Qed.

  Lemma dict_del_nodup k d : NoDup (dict_keys d) -> NoDup (dict_keys (dict_del k d)).
  Proof.
    induction d as [|[k0 v0] d IH]; cbn [dict_del dict_keys map fst]; intros H; [exact H|].
    inversion H as [|? ? Hn Hd]; subst.
    destruct (bytes_eqb k k0); [exact Hd|]. cbn [map fst]. constructor; [|now apply IH].
    intros Hi. apply Hn. eapply dict_del_keys_incl, Hi.
  Qed.

  Lemma dict_del_removes k d : NoDup (dict_keys d) -> ~ In k (dict_keys (dict_del k d)).
  Proof.
    induction d as [|[k0 v0] d IH]; cbn [dict_del dict_keys map fst]; intros H; [tauto|].
    inversion H as [|? ? Hn Hd]; subst.
    destruct (bytes_eqb k k0) eqn:E.
    - apply bytes_eqb_eq in E. now subst.
    - cbn [map fst]. intros [Hi|Hi].
      + subst. rewrite bytes_eqb_refl in E. discriminate.
      + now apply IH in Hi.
  Qed.

  Lemma dict_get_in k d (v : V) : dict_get k d = Some v -> In (k, v) d.
  Proof.
    induction d as [|[k0 v0] d IH]; cbn [dict_get]; intros H; [discriminate|].
    destruct (bytes_eqb k k0) eqn:E.
    - apply bytes_eqb_eq in E. inversion H. subst. now left.
    - right. now apply IH.
  Qed.

  Lemma dict_get_none_notin k d : dict_get k d = None <-> ~ In k (dict_keys d).
  Proof.
    induction d as [|[k0 v0] d IH]; cbn [dict_get dict_keys map fst]; [tauto|].
    destruct (bytes_eqb k k0) eqn:E.
    - apply bytes_eqb_eq in E. subst. split; [discriminate|]. intros H. exfalso. apply H. now left.
    - rewrite IH. apply bytes_eqb_neq in E. split.
      + intros H [H'|H']; [now subst|contradiction].
      + intros H H'. apply H. now right.
  Qed.
End DictFacts.

(* ------------------------------------------------------------------ C08: the decision *)
(* The credential check accepts exactly: a proxy-authorization entry whose value, split on runs of
   ASCII whitespace, is two tokens: a scheme equal to "basic" ignoring (ASCII) case, then the
   configured base64 text, byte for byte. *)
Lemma auth_ok_exact code hs :
  auth_ok code hs = true <->
  exists name v s, dict_get PROXY_AUTHORIZATION hs = Some (name, v) /\ split_ws v = [s; code] /\ lower s = BASIC.
Proof.
  unfold auth_ok. split.
  - destruct (dict_get PROXY_AUTHORIZATION hs) as [[name v]|]; [|discriminate].
    destruct (split_ws v) as [|s [|c [|x t]]] eqn:E; try discriminate.
    intros H. apply andb_true_iff in H as [H1 H2]. apply bytes_eqb_eq in H1, H2. subst c.
    exists name, v, s. repeat split; assumption.
  - intros (name & v & s & Hg & Hs & Hl). rewrite Hg, Hs, Hl. now rewrite !bytes_eqb_refl.
Qed.

(* split_ws: whitespace padding is irrelevant, tokens contain no whitespace and are non-empty *)
Definition all_ws (w : bytes) : Prop := Forall (fun x => is_ws x = true) w.
Definition no_ws (w : bytes) : Prop := Forall (fun x => is_ws x = false) w.

Lemma split_ws_aux_skip w cur l : all_ws w -> cur = [] -> split_ws_aux cur (w ++ l) = split_ws_aux [] l.
Proof.
  intros Hw ->. induction Hw as [|x w Hx Hw IH]; [reflexivity|]. cbn [app split_ws_aux]. now rewrite Hx.
Qed.

Lemma split_ws_aux_token tok cur l : no_ws tok -> split_ws_aux cur (tok ++ l) = split_ws_aux (rev tok ++ cur) l.
Proof.
  intros Ht. revert cur. induction Ht as [|x tok Hx Ht IH]; intros cur; [reflexivity|].
  cbn [app split_ws_aux rev]. rewrite Hx, IH, <- app_assoc. reflexivity.
Qed.

Lemma split_ws_aux_end cur w : all_ws w -> cur <> [] -> split_ws_aux cur w = [rev cur].
Proof.
  intros Hw Hc. destruct Hw as [|x w Hx Hw].
  - cbn. destruct cur; [contradiction|reflexivity].
  - cbn [split_ws_aux]. rewrite Hx. destruct cur; [contradiction|].
    f_equal. rewrite <- (app_nil_r w), split_ws_aux_skip by (assumption || reflexivity). reflexivity.
Qed.

(* every padding (spaces, tabs, CR, LF, VT, FF — anywhere around and between the tokens) is accepted *)
Lemma split_ws_two w0 s w1 c w2 :
  all_ws w0 -> all_ws w1 -> all_ws w2 -> w1 <> [] -> no_ws s -> no_ws c -> s <> [] -> c <> [] ->
  split_ws (w0 ++ s ++ w1 ++ c ++ w2) = [s; c].
Proof.
  intros H0 H1 H2 Hn Hs Hc Hse Hce. unfold split_ws.
  rewrite split_ws_aux_skip by (assumption || reflexivity).
  rewrite split_ws_aux_token by assumption. rewrite app_nil_r.
  destruct H1 as [|x w1 Hx H1]; [contradiction|]. cbn [app split_ws_aux]. rewrite Hx.
  destruct (rev s) eqn:Er.
  { apply (f_equal (@rev N)) in Er. rewrite rev_involutive in Er. cbn in Er. contradiction. }
  rewrite <- Er, rev_involutive. f_equal.
  rewrite split_ws_aux_skip by (assumption || reflexivity).
  rewrite split_ws_aux_token by assumption. rewrite app_nil_r.
  rewrite split_ws_aux_end; [now rewrite rev_involutive|assumption|].
  intros E. apply (f_equal (@rev N)) in E. rewrite rev_involutive in E. cbn in E. contradiction.
Qed.

Lemma split_ws_aux_tokens cur l :
  no_ws cur -> Forall (fun p => p <> [] /\ no_ws p) (split_ws_aux cur l).
Proof.
  revert cur. induction l as [|x l IH]; intros cur Hc; cbn [split_ws_aux].
  - destruct cur as [|y cur]; constructor; [|constructor]. split.
    + intros E. apply (f_equal (@rev N)) in E. rewrite rev_involutive in E. discriminate.
    + unfold no_ws. apply Forall_rev. exact Hc.
  - destruct (is_ws x) eqn:Ex.
    + destruct cur as [|y cur]; [apply IH; constructor|]. constructor; [|apply IH; constructor]. split.
      * intros E. apply (f_equal (@rev N)) in E. rewrite rev_involutive in E. discriminate.
      * unfold no_ws. apply Forall_rev. exact Hc.
    + apply IH. constructor; assumption.
Qed.

Lemma split_ws_tokens l : Forall (fun p => p <> [] /\ no_ws p) (split_ws l).
Proof. apply split_ws_aux_tokens. constructor. Qed.

(* the non-whitespace bytes of the value are exactly the tokens, in order *)
Lemma split_ws_aux_concat cur l :
  concat (split_ws_aux cur l) = rev cur ++ filter (fun x => negb (is_ws x)) l.
Proof.
  revert cur. induction l as [|x l IH]; intros cur; cbn [split_ws_aux filter].
  - destruct cur; cbn; now rewrite ?app_nil_r.
  - destruct (is_ws x) eqn:Ex; cbn [negb].
    + destruct cur as [|y cur]; [apply IH|]. cbn [concat]. now rewrite IH.
    + rewrite IH. cbn [rev]. now rewrite <- app_assoc.
Qed.
Lemma split_ws_concat l : concat (split_ws l) = filter (fun x => negb (is_ws x)) l.
Proof. unfold split_ws. now rewrite split_ws_aux_concat. Qed.

(* consequences for an accepted header value: it consists of the scheme, the code and whitespace only *)
Lemma auth_ok_value_shape code hs :
  auth_ok code hs = true ->
  exists name v s, dict_get PROXY_AUTHORIZATION hs = Some (name, v) /\ lower s = BASIC
                   /\ filter (fun x => negb (is_ws x)) v = s ++ code /\ no_ws code /\ code <> [].
Proof.
  intros H. apply auth_ok_exact in H as (name & v & s & Hg & Hs & Hl).
  exists name, v, s. repeat split; try assumption.
  - rewrite <- split_ws_concat, Hs. cbn. now rewrite app_nil_r.
  - pose proof (split_ws_tokens v) as Ht. rewrite Hs in Ht. inversion Ht as [|? ? _ Ht']; subst.
    inversion Ht' as [|? ? [_ Hc] _]; subst. exact Hc.
  - pose proof (split_ws_tokens v) as Ht. rewrite Hs in Ht. inversion Ht as [|? ? _ Ht']; subst.
    inversion Ht' as [|? ? [Hc _] _]; subst. exact Hc.
Qed.

(* ------------------------------------------------------------------ header lines: the last duplicate wins *)
Definition line_name (raw : bytes) : bytes :=
  match split_once [COLON] raw with Some (k, _) => strip k | None => strip raw end.
Definition line_value (raw : bytes) : bytes :=
  match split_once [COLON] raw with Some (_, v) => strip v | None => [] end.

Lemma process_header_set raw hs :
  process_header raw hs = dict_set (lower (line_name raw)) (line_name raw, line_value raw) hs.
Proof. unfold process_header, line_name, line_value, add_header. destruct (split_once [COLON] raw) as [[k v]|]; reflexivity. Qed.

Lemma headers_of_lines_snoc ls a : headers_of_lines (ls ++ [a]) = process_header a (headers_of_lines ls).
Proof. unfold headers_of_lines. now rewrite fold_left_app. Qed.

(* lookup in the parsed header dict = the LAST line (in arrival order) whose name matches ignoring case *)
Lemma headers_of_lines_get k ls :
  dict_get k (headers_of_lines ls) =
  match find (fun raw => bytes_eqb k (lower (line_name raw))) (rev ls) with
  | Some raw => Some (line_name raw, line_value raw)
  | None => None
  end.
Proof.
  induction ls as [|a ls IH] using rev_ind; [reflexivity|].
  rewrite headers_of_lines_snoc, process_header_set, dict_get_set, rev_app_distr. cbn [rev app find].
  destruct (bytes_eqb k (lower (line_name a))); [reflexivity|exact IH].
Qed.

Lemma headers_of_lines_nodup ls : NoDup (dict_keys (headers_of_lines ls)).
Proof.
  induction ls as [|a ls IH] using rev_ind; [constructor|].
  rewrite headers_of_lines_snoc, process_header_set. now apply dict_set_nodup.
Qed.

(* ------------------------------------------------------------------ well-formed header dicts *)
(* the invariant of HttpParser.headers: distinct keys, each key the lower-cased name it stores *)
Definition wf_headers (hs : headers) : Prop :=
  NoDup (dict_keys hs) /\ Forall (fun e => fst e = lower (fst (snd e))) hs.

Lemma wf_add_header k v hs : wf_headers hs -> wf_headers (add_header k v hs).
Proof.
  intros [Hn Hf]. split; [now apply dict_set_nodup|].
  apply Forall_forall. intros e He. apply dict_set_in_inv in He as [->|He]; [reflexivity|].
  rewrite Forall_forall in Hf. now apply Hf.
Qed.

Lemma wf_del_header k hs : wf_headers hs -> wf_headers (del_header k hs).
Proof.
  intros [Hn Hf]. split; [now apply dict_del_nodup|].
  apply Forall_forall. intros e He. apply dict_del_in_inv in He. rewrite Forall_forall in Hf. now apply Hf.
Qed.

Lemma wf_headers_of_lines ls : wf_headers (headers_of_lines ls).
Proof.
  induction ls as [|a ls IH] using rev_ind; [split; constructor|].
  rewrite headers_of_lines_snoc, process_header_set. apply (wf_add_header (line_name a) (line_value a)), IH.
Qed.

Lemma lower_idem l : lower (lower l) = lower l.
Proof.
  unfold lower. rewrite map_map. apply map_ext. intros x. unfold lower_byte.
  destruct (is_upper x) eqn:E; [|now rewrite E].
  replace (is_upper (x + 32)) with false; [reflexivity|].
  unfold is_upper in *. apply andb_true_iff in E as [E1 E2]. apply N.leb_le in E1, E2.
  symmetry. apply andb_false_iff. right. apply N.leb_gt. lia.
Qed.

(* ------------------------------------------------------------------ scrubbing and rebuilding *)
Lemma del_header_keys_incl k hs x : In x (dict_keys (del_header k hs)) -> In x (dict_keys hs).
Proof. apply dict_del_keys_incl. Qed.

(* after del_headers [a; b] neither key is left *)
Lemma del_headers_two a c hs : NoDup (dict_keys hs) ->
  lower a = a -> lower c = c ->
  ~ In a (dict_keys (del_headers [a; c] hs)) /\ ~ In c (dict_keys (del_headers [a; c] hs)).
Proof.
  intros Hn Ha Hc. unfold del_headers. cbn [fold_left]. unfold del_header. rewrite Ha, Hc, Ha, Hc.
  split.
  - intros H. apply dict_del_keys_incl in H. revert H. now apply dict_del_removes.
  - apply dict_del_removes. now apply dict_del_nodup.
Qed.

Lemma wf_del_headers ks hs : wf_headers hs -> wf_headers (del_headers ks hs).
Proof.
  revert hs. induction ks as [|k ks IH]; intros hs H; [exact H|].
  unfold del_headers. cbn [fold_left]. apply IH. now apply wf_del_header.
Qed.

Lemma wf_add_headers l hs : wf_headers hs -> wf_headers (add_headers l hs).
Proof.
  revert hs. induction l as [|[k v] l IH]; intros hs H; [exact H|].
  unfold add_headers. cbn [fold_left]. apply IH. now apply wf_add_header.
Qed.

(* every header name that build() emits is a name stored in the dict under a key that is not disabled *)
Lemma build_headers_in disable hs n v :
  In (n, v) (build_headers disable hs) -> exists k, In (k, (n, v)) hs.
Proof.
  unfold build_headers.
  assert (G : forall d, In (n, v) (fold_left (fun d e => if mem_bytes (lower (fst e)) disable then d
                                                        else dict_set (fst (snd e)) (snd (snd e)) d) hs d) ->
                       In (n, v) d \/ exists k, In (k, (n, v)) hs).
  { induction hs as [|[k [n0 v0]] hs IH]; intros d H; cbn [fold_left] in H; [now left|].
    apply IH in H as [H|[k' H]].
    - cbn [fst snd] in H. destruct (mem_bytes (lower k) disable); [now left|].
      apply dict_set_in_inv in H as [H|H]; [|now left]. inversion H; subst. right. exists k. now left.
    - right. exists k'. now right. }
  intros H. apply G in H as [[]|H]. exact H.
Qed.

(* a packet none of whose header names is proxy-authorization / proxy-connection ignoring case *)
Definition clean_name (n : bytes) : Prop := lower n <> PROXY_AUTHORIZATION /\ lower n <> PROXY_CONNECTION.
Definition clean_pkt (b : bytes) : Prop :=
  exists line hs body, b = build_http_pkt line hs body false /\ Forall (fun kv => clean_name (fst kv)) hs.

Lemma header_key_lower hs n : lower (header_key hs n) = lower n.
Proof.
  induction hs as [|[k v] t IH]; [reflexivity|]. cbn [header_key].
  destruct (bytes_eqb (lower k) (lower n)) eqn:E; [now apply bytes_eqb_eq in E|exact IH].
Qed.

Lemma build_clean disable r b :
  wf_headers (rq_headers r) ->
  ~ In PROXY_AUTHORIZATION (dict_keys (rq_headers r)) -> ~ In PROXY_CONNECTION (dict_keys (rq_headers r)) ->
  build disable r = Ok b -> clean_pkt b.
Proof.
  intros [Hn Hf] Ha Hc. unfold build. destruct (is_empty (rq_method r) || is_empty (rq_version r)); [discriminate|].
  intros H. inversion H; subst b; clear H. unfold build_http_request.
  set (hs0 := build_headers disable (rq_headers r)).
  assert (H0 : Forall (fun kv => clean_name (fst kv)) hs0).
  { apply Forall_forall. intros [n v] Hi. apply build_headers_in in Hi as [k Hi].
    rewrite Forall_forall in Hf. specialize (Hf _ Hi). cbn [fst snd] in Hf.
    assert (Hk : In k (dict_keys (rq_headers r))) by (apply in_map_iff; exists (k, (n, v)); now split).
    cbn [fst]. split; intros E; rewrite <- Hf in E; rewrite E in Hk; contradiction. }
  eexists _, _, _. split; [reflexivity|].
  destruct (nonempty (rq_body r)); [|exact H0]. destruct (has_transfer_encoding hs0); [exact H0|].
  apply Forall_forall. intros e He. apply dict_set_in_inv in He as [->|He].
  - cbn [fst]. split; rewrite header_key_lower; vm_compute; discriminate.
  - rewrite Forall_forall in H0. now apply H0.
Qed.
