(* Net/CauseFacts.v — a teardown needs a cause: proofs about Net/Handler.v with the vocabulary of Net/Cause.v.
   Every `return True` of handle_events, and every setting of must_flush_before_shutdown / writes_teared /
   reads_teared, is traced back to a cause reported by the event (or to a flag that was already set). *)
From PM Require Import Lib.Bytes Lib.BytesFacts Net.Conn Net.ConnFacts Net.Handler Net.HandlerFacts Net.Cause.
From Coq Require Import ZArith.

Lemma send_fails_error o : send_fails o = send_error o.
Proof. reflexivity. Qed.

(* ------------------------------------------------------------------------------------------
   the part of the state that says which exchange this is
   ------------------------------------------------------------------------------------------ *)
Definition static (s s' : hstate) : Prop :=
  plugin s' = plugin s /\ req_complete s' = req_complete s /\ is_tunnel s' = is_tunnel s /\
  up_some s' = up_some s.

(* ... and whether a pipelined request has upgraded the connection (changed by on_client_data only) *)
Definition static_w (s s' : hstate) : Prop :=
  static s s' /\ pipeline_upgrade s' = pipeline_upgrade s.

Lemma static_refl s : static s s.
Proof. now repeat split. Qed.

Lemma static_w_trans s1 s2 s3 : static_w s1 s2 -> static_w s2 s3 -> static_w s1 s3.
Proof. unfold static_w, static. intros [[A [B [C E]]] D] [[A' [B' [C' E']]] D']. repeat split; congruence. Qed.

(* the read-side causes look at that part of the state only *)
Lemma applies_static s s' k :
  static_w s s' -> k <> ClientSendFailed -> k <> UpstreamSendFailed -> applies s' k -> applies s k.
Proof.
  intros [[A [B [C E]]] D] N1 N2. destruct k; try congruence; unfold applies; rewrite ?A, ?B, ?C, ?D, ?E; auto.
Qed.

Definition client_cause (ev : event) (s : hstate) : Prop :=
  carries ev ClientRecvEnded = true \/
  (carries ev FirstRequestRejected = true /\ applies s FirstRequestRejected) \/
  (carries ev LaterRequestRejected = true /\ applies s LaterRequestRejected).

Lemma client_cause_static ev s s' : static_w s s' -> client_cause ev s' -> client_cause ev s.
Proof.
  intros St [H|[[H1 H2]|[H1 H2]]]; [left; exact H|right; left|right; right]; (split; [exact H1|]);
    (eapply applies_static; [exact St|discriminate|discriminate|exact H2]).
Qed.

Lemma client_cause_has_cause ev s : client_cause ev s -> has_cause ev s.
Proof.
  intros [H|[[H1 H2]|[H1 H2]]]; [exists ClientRecvEnded|exists FirstRequestRejected|exists LaterRequestRejected];
    (split; [assumption|]); [exact I|exact H2|exact H2].
Qed.

(* ------------------------------------------------------------------------------------------
   function by function
   ------------------------------------------------------------------------------------------ *)
Lemma cause_handle_writables c ev s s1 b :
  handle_writables c ev s = (s1, b) ->
  (b = true -> must_flush s = true \/ (carries ev ClientSendFailed = true /\ applies s ClientSendFailed)) /\
  (must_flush s1 = true -> must_flush s = true) /\
  writes_teared s1 = writes_teared s /\ reads_teared s1 = reads_teared s /\
  upstream s1 = upstream s /\ static_w s s1.
Proof.
  unfold handle_writables, base_handle_writables, static_w, static, up_some, applies. hsimpl.
  destruct (c_w ev && has_buffer (work s)) eqn:Hc;
    [|intros E; inv_pair; repeat split; auto; discriminate].
  apply andb_true_iff in Hc as [Ecw Ehb].
  destruct (flush (max_send c) (c_send ev) (work s)) as [w' fr] eqn:Ef.
  destruct fr.
  - destruct (must_flush s && negb (has_buffer w')) eqn:Em; intros E; inv_pair; hsimpl; repeat split; auto;
      try discriminate.
    intros _. left. apply andb_true_iff in Em. tauto.
  - destruct (flush_res_error _ _ _ _ _ Ef) as [[Hx _] _]. destruct (Hx eq_refl) as [_ Ho].
    intros E; inv_pair; hsimpl; repeat split; auto. intros _. right. unfold carries. rewrite Ecw, Ho. auto.
  - destruct (flush_res_error _ _ _ _ _ Ef) as [_ [Hx _]]. destruct (Hx eq_refl) as [_ Ho].
    intros E; inv_pair; hsimpl; repeat split; auto. intros _. right. unfold carries. rewrite Ecw, Ho. auto.
Qed.

Lemma cause_write_to_descriptors c ev s s' b :
  write_to_descriptors c ev s = (s', b) ->
  (b = true -> carries ev UpstreamSendFailed = true /\ applies s UpstreamSendFailed) /\
  work s' = work s /\ must_flush s' = must_flush s /\
  writes_teared s' = writes_teared s /\ reads_teared s' = reads_teared s /\ static_w s s'.
Proof.
  unfold write_to_descriptors, static_w, static, up_some, applies.
  destruct (plugin s) eqn:Ep; try (intros E; inv_pair; repeat split; auto; discriminate).
  destruct (upstream s) as [u|] eqn:Eu; try (intros E; inv_pair; rewrite ?Eu; repeat split; auto; discriminate).
  destruct (u_w ev && has_buffer u) eqn:Hc; [|intros E; inv_pair; rewrite Eu; repeat split; auto; discriminate].
  apply andb_true_iff in Hc as [Euw Ehb].
  destruct (flush (max_send c) (u_send ev) u) as [u' fr] eqn:Ef.
  destruct fr; intros E; inv_pair; hsimpl; rewrite ?Eu.
  - repeat split; auto; discriminate.
  - destruct (flush_res_error _ _ _ _ _ Ef) as [[Hx _] _]. destruct (Hx eq_refl) as [_ Ho].
    repeat split; auto. + unfold carries. rewrite Euw, Ho. auto. + exists u. auto.
  - destruct (flush_res_error _ _ _ _ _ Ef) as [_ [Hx _]]. destruct (Hx eq_refl) as [_ Ho].
    repeat split; auto. + unfold carries. rewrite Euw, Ho. auto. + exists u. auto.
Qed.

Lemma cause_write_phase c ev s1 s2 b :
  write_phase c ev s1 = (s2, b) ->
  writes_teared s2 = b /\
  (b = true -> writes_teared s1 = true \/ (carries ev UpstreamSendFailed = true /\ applies s1 UpstreamSendFailed)) /\
  work s2 = work s1 /\ must_flush s2 = must_flush s1 /\ reads_teared s2 = reads_teared s1 /\ static_w s1 s2.
Proof.
  unfold write_phase. destruct (writes_teared s1) eqn:Ewt.
  { intros E; inv_pair. repeat split; auto. }
  destruct (plugin s1) eqn:Ep.
  - intros E; inv_pair. repeat split; auto; discriminate.
  - destruct (write_to_descriptors c ev s1) as [sx bx] eqn:Ew.
    destruct (cause_write_to_descriptors _ _ _ _ _ Ew) as [A [B [C [D [F G]]]]].
    intros E; inv_pair; hsimpl. repeat split; auto; apply G.
  - destruct (write_to_descriptors c ev s1) as [sx bx] eqn:Ew.
    destruct (cause_write_to_descriptors _ _ _ _ _ Ew) as [A [B [C [D [F G]]]]].
    intros E; inv_pair; hsimpl. repeat split; auto; apply G.
Qed.

Lemma cause_parse_first_request c ev s s' r :
  parse_first_request c ev s = (s', r) ->
  (r = Some true -> is_rerror (req ev) = true) /\ (r = None -> is_rraise (req ev) = true) /\
  must_flush s' = must_flush s.
Proof.
  unfold parse_first_request. intros E. brk_in E; inv_pair; rewrite ?client_queue_all_spec; hsimpl;
    repeat split; auto; discriminate.
Qed.

Lemma cause_on_client_data ev s raw s' r :
  on_client_data ev s raw = (s', r) ->
  (r = Some true -> is_dproto (cdata ev) = true /\
     (plugin s = PLocal \/
      (plugin s = PProxy /\ is_tunnel s = false /\ pipeline_upgrade s = false /\ up_some s = true))) /\
  (r = None -> is_draise (cdata ev) = true) /\
  must_flush s' = must_flush s /\ static s s'.
Proof.
  unfold on_client_data, static, up_some. intros E.
  brk_in E; inv_pair; rewrite ?client_queue_all_spec; hsimpl;
    repeat match goal with H : upstream _ = _ |- _ => rewrite H end;
    repeat split; auto; try discriminate; try congruence;
    try (right; repeat split; auto; congruence).
Qed.

Lemma cause_handle_data c ev s data s' r :
  handle_data c ev s data = (s', r) ->
  (r = Some true -> (is_rerror (req ev) = true /\ applies s FirstRequestRejected) \/
                    (is_dproto (cdata ev) = true /\ applies s LaterRequestRejected)) /\
  (r = None -> is_rraise (req ev) || is_draise (cdata ev) = true) /\
  must_flush s' = must_flush s /\
  (req_complete s = true -> static s s').
Proof.
  unfold handle_data, applies. destruct (req_complete s) eqn:Er; cbn [negb].
  - intros E. destruct (cause_on_client_data _ _ _ _ _ E) as [A [B [C D]]].
    split; [|split; [|split; auto]].
    + intros Hr. right. destruct (A Hr) as [A1 A2]. auto.
    + intros Hr. rewrite (B Hr). apply orb_true_r.
  - destruct (parse_first_request c ev s) as [s1 o] eqn:Ep.
    destruct (cause_parse_first_request _ _ _ _ _ Ep) as [P1 [P2 P3]].
    assert (Hdirect : forall s'' r', (s1, o) = (s'', r') ->
              (r' = Some true -> is_rerror (req ev) = true /\ false = false \/
                                 is_dproto (cdata ev) = true /\ (false = true -> plugin s = PLocal \/
                                   plugin s = PProxy /\ is_tunnel s = false /\ pipeline_upgrade s = false /\ up_some s = true)) /\
              (r' = None -> is_rraise (req ev) || is_draise (cdata ev) = true) /\
              must_flush s'' = must_flush s /\ (false = true -> static s s'')).
    { intros s'' r' E; inv_pair. repeat split; auto; try discriminate.
      intros Hr. rewrite (P2 Hr). reflexivity. }
    destruct o as [[|]|]; try (apply Hdirect).
    destruct (req_rem (req ev)) as [|x rem] eqn:Erem; [apply Hdirect|].
    destruct (req_complete s1) eqn:Er1; [|apply Hdirect].
    destruct (plugin s1) eqn:Ep1; [apply Hdirect| |]; intros E;
      destruct (cause_on_client_data _ _ _ _ _ E) as [A [B [C D]]];
      (repeat split; try discriminate; try congruence;
       [intros Hr; right; split; [apply (A Hr)|discriminate]|intros Hr; rewrite (B Hr); apply orb_true_r]).
Qed.

Lemma cause_handle_readables c ev s s' r :
  handle_readables c ev s = (s', r) ->
  (r = Some true -> client_cause ev s) /\
  (must_flush s' = true -> must_flush s = true \/ client_cause ev s) /\
  (r = None -> c_r ev && recv_has_data (c_recv ev) && (is_rraise (req ev) || is_draise (cdata ev)) = true) /\
  writes_teared s' = writes_teared s /\ reads_teared s' = reads_teared s /\
  (req_complete s = true -> static s s').
Proof.
  unfold handle_readables. destruct (c_r ev) eqn:Ecr.
  2:{ intros E; inv_pair. repeat split; auto using static_refl; discriminate. }
  unfold base_handle_readables. rewrite Ecr.
  set (s0 := note_client_io (now ev) (set_last_activity (now ev) s)).
  assert (Hended : recv_has_data (c_recv ev) = false -> client_cause ev s).
  { intros Hd. left. unfold carries. rewrite Ecr, Hd. reflexivity. }
  assert (Hend : forall s'' r'', recv_has_data (c_recv ev) = false -> (s0, Some true) = (s'', r'') ->
     (r'' = Some true -> client_cause ev s) /\
     (must_flush s'' = true -> must_flush s = true \/ client_cause ev s) /\
     (r'' = None -> true && recv_has_data (c_recv ev) && (is_rraise (req ev) || is_draise (cdata ev)) = true) /\
     writes_teared s'' = writes_teared s /\ reads_teared s'' = reads_teared s /\
     (req_complete s = true -> static s s'')).
  { intros s'' r'' Hd E; inv_pair. repeat split; auto; discriminate. }
  destruct (c_recv ev) as [data| | | |] eqn:Erc; try (apply Hend; reflexivity).
  destruct data as [|x data]; [apply Hend; reflexivity|].
  destruct (handle_data c ev s0 (x :: data)) as [s1 o] eqn:Eh.
  destruct (cause_handle_data _ _ _ _ _ _ Eh) as [A [B [C D]]].
  destruct (frame_handle_data _ _ _ _ _ _ Eh) as [_ [_ [_ [F1 F2]]]].
  assert (Hrej : o = Some true -> client_cause ev s).
  { intros Ho. destruct (A Ho) as [[A1 A2]|[A1 A2]]; right; [left|right]; (split; [|exact A2]);
      unfold carries; rewrite Ecr, Erc, A1; reflexivity. }
  assert (Hst : req_complete s = true -> static s s1) by (intros Hrc; exact (D Hrc)).
  assert (Hmf : must_flush s1 = true -> must_flush s = true \/ client_cause ev s).
  { intros Hm. left. rewrite <- Hm, C. reflexivity. }
  destruct o as [[|]|].
  - destruct (has_buffer (work s1)); intros E; inv_pair;
      (split; [|split; [|split; [|split; [exact F2|split; [exact F1|exact Hst]]]]]); try discriminate.
    + intros _. right. apply Hrej. reflexivity.
    + intros _. apply Hrej. reflexivity.
    + exact Hmf.
  - intros E; inv_pair.
    (split; [|split; [|split; [|split; [exact F2|split; [exact F1|exact Hst]]]]]); try discriminate. exact Hmf.
  - intros E; inv_pair.
    (split; [|split; [|split; [|split; [exact F2|split; [exact F1|exact Hst]]]]]); try discriminate.
    + exact Hmf.
    + intros _. rewrite (B eq_refl). reflexivity.
Qed.

Lemma cause_read_from_descriptors c ev s s' r :
  read_from_descriptors c ev s = (s', r) ->
  (r = Some true -> carries ev UpstreamRecvEnded = true /\ plugin s = PProxy /\ up_some s = true) /\
  (r = None -> u_r ev && is_timeout_other (u_recv ev) = true) /\
  must_flush s' = must_flush s /\ writes_teared s' = writes_teared s /\ reads_teared s' = reads_teared s.
Proof.
  unfold read_from_descriptors, up_some, carries.
  destruct (plugin s) eqn:Ep; try (intros E; inv_pair; repeat split; auto; discriminate).
  destruct (upstream s) as [u|] eqn:Eu; try (intros E; inv_pair; repeat split; auto; discriminate).
  destruct (u_r ev) eqn:Eur; try (intros E; inv_pair; repeat split; auto; discriminate).
  destruct (u_recv ev) as [raw| | |[|]|] eqn:Erc; try (intros E; inv_pair; repeat split; auto; discriminate).
  destruct raw as [|x raw]; intros E; inv_pair; hsimpl; repeat split; auto; discriminate.
Qed.

Lemma cause_read_phase c ev s3 s4 r :
  read_phase c ev s3 = (s4, r) ->
  writes_teared s4 = writes_teared s3 /\
  (must_flush s4 = true -> must_flush s3 = true \/ client_cause ev s3) /\
  (reads_teared s4 = true -> reads_teared s3 = true \/ client_cause ev s3 \/
       (carries ev UpstreamRecvEnded = true /\ applies s3 UpstreamRecvEnded)) /\
  (r = None -> raises ev = true).
Proof.
  unfold read_phase. destruct (reads_teared s3) eqn:Ert.
  { intros E; inv_pair. repeat split; auto. discriminate. }
  destruct (handle_readables c ev s3) as [sx o] eqn:Eh.
  destruct (cause_handle_readables _ _ _ _ _ Eh) as [A [B [C [D [F G]]]]].
  assert (Hraise : o = None -> raises ev = true).
  { intros Ho. unfold raises. rewrite (C Ho). reflexivity. }
  destruct o as [[|]|].
  - intros E; inv_pair; hsimpl. repeat split; auto; discriminate.
  - assert (Hstay : forall s'' r'', (sx, Some false) = (s'', r'') ->
        writes_teared s'' = writes_teared s3 /\
        (must_flush s'' = true -> must_flush s3 = true \/ client_cause ev s3) /\
        (reads_teared s'' = true -> false = true \/ client_cause ev s3 \/
             (carries ev UpstreamRecvEnded = true /\ applies s3 UpstreamRecvEnded)) /\
        (r'' = None -> raises ev = true)).
    { intros s'' r'' E; inv_pair. repeat split; auto; try discriminate. intros Hx. left. congruence. }
    assert (Hplug : forall s'' r'',
        match read_from_descriptors c ev sx with
        | (s''0, Some b) => (set_reads_teared b s''0, Some b)
        | (s''0, None) => (s''0, None)
        end = (s'', r'') ->
        writes_teared s'' = writes_teared s3 /\
        (must_flush s'' = true -> must_flush s3 = true \/ client_cause ev s3) /\
        (reads_teared s'' = true -> false = true \/ client_cause ev s3 \/
             (carries ev UpstreamRecvEnded = true /\ applies s3 UpstreamRecvEnded)) /\
        (r'' = None -> raises ev = true)).
    { intros s'' r''. destruct (read_from_descriptors c ev sx) as [sy o2] eqn:Er.
      destruct (cause_read_from_descriptors _ _ _ _ _ Er) as [R1 [R2 [R3 [R4 R5]]]].
      destruct o2 as [b|]; intros E; inv_pair; hsimpl.
      - split; [congruence|]. split; [intros Hm; apply B; congruence|]. split; [|discriminate].
        intros Hb. right. right. destruct (R1 (f_equal Some Hb)) as [U1 [U2 U3]]. split; [exact U1|].
        unfold applies. intros Hrc. destruct (G Hrc) as [G1 [_ [_ G5]]]. split; congruence.
      - split; [congruence|]. split; [intros Hm; apply B; congruence|]. split; [intros Hx; left; congruence|].
        intros _. unfold raises. rewrite (R2 eq_refl). apply orb_true_r. }
    destruct (plugin sx); [apply Hstay|apply Hplug|apply Hplug].
  - intros E; inv_pair. repeat split; auto. intros Hx. left. congruence.
Qed.

(* ------------------------------------------------------------------------------------------
   handle_events: a teardown, and every arming of a later teardown, has a cause
   ------------------------------------------------------------------------------------------ *)
Theorem armed_or_teardown_has_cause c ev s s' r :
  handle_events c ev s = (s', r) -> r = Teardown \/ armed s' = true ->
  armed s = true \/ has_cause ev s.
Proof.
  rewrite handle_events_unfold.
  destruct (handle_writables c ev s) as [s1 wt] eqn:Ew.
  destruct (cause_handle_writables _ _ _ _ _ Ew) as [W1 [W2 [W3 [W4 [W5 W6]]]]].
  assert (Harm : forall a b, must_flush s = true \/ writes_teared s = a \/ reads_teared s = b ->
                 must_flush s = true \/ a = true \/ b = true -> True) by auto.
  clear Harm.
  destruct wt.
  { intros _ _. destruct (W1 eq_refl) as [Hm|[Hc Ha]].
    - left. unfold armed. rewrite Hm. reflexivity.
    - right. exists ClientSendFailed. split; assumption. }
  destruct (write_phase c ev s1) as [s2 wt2] eqn:Ep.
  destruct (cause_write_phase _ _ _ _ _ Ep) as [P1 [P2 [P3 [P4 [P5 P6]]]]].
  assert (Hwt2 : wt2 = true -> armed s = true \/ has_cause ev s).
  { intros Hb. destruct (P2 Hb) as [Hx|[Hc Ha]].
    - left. unfold armed. rewrite <- W3, Hx. apply orb_true_iff. left. apply orb_true_r.
    - right. exists UpstreamSendFailed. split; [exact Hc|]. unfold applies in *.
      destruct W6 as [[Wp _] _]. rewrite <- Wp, <- W5. exact Ha. }
  destruct wt2; [intros _ _; apply Hwt2; reflexivity|]. clear Hwt2.
  cbn [andb].
  destruct (read_phase c ev s2) as [s4 r4] eqn:Er.
  destruct (cause_read_phase _ _ _ _ _ Er) as [R1 [R2 [R3 R4]]].
  assert (St : static_w s s2) by (eapply static_w_trans; eassumption).
  assert (Hfin : armed s4 = true -> armed s = true \/ has_cause ev s).
  { unfold armed. intros Ha. apply orb_true_iff in Ha as [Ha|Ha]; [apply orb_true_iff in Ha as [Ha|Ha]|].
    - destruct (R2 Ha) as [Hm|Hc].
      + left. rewrite (W2 ltac:(congruence)). reflexivity.
      + right. apply client_cause_has_cause. eapply client_cause_static; eassumption.
    - congruence.
    - destruct (R3 Ha) as [Hx|[Hc|[Hc Hap]]].
      + left. assert (reads_teared s = true) as -> by congruence. apply orb_true_r.
      + right. apply client_cause_has_cause. eapply client_cause_static; eassumption.
      + right. exists UpstreamRecvEnded. split; [exact Hc|].
        eapply applies_static; [exact St|discriminate|discriminate|exact Hap]. }
  destruct r4.
  - destruct (reads_teared s4 && negb (has_buffer (work s4))) eqn:E4; intros E H; inv_pair.
    + apply Hfin. apply andb_true_iff in E4 as [E4 _]. unfold armed. rewrite E4. apply orb_true_r.
    + destruct H as [H|H]; [discriminate|]. apply Hfin. exact H.
  - intros E H; inv_pair. destruct H as [H|H]; [discriminate|]. apply Hfin. exact H.
Qed.

Theorem teardown_has_cause c ev s s' :
  handle_events c ev s = (s', Teardown) -> armed s = true \/ has_cause ev s.
Proof. intros E. eapply armed_or_teardown_has_cause; [exact E|now left]. Qed.

Theorem armed_has_cause c ev s s' r :
  handle_events c ev s = (s', r) -> armed s' = true -> armed s = true \/ has_cause ev s.
Proof. intros E H. eapply armed_or_teardown_has_cause; [exact E|now right]. Qed.

(* the same for an ESTABLISHED exchange on which no teardown is pending: the first-request rejection drops out
   of the list, and for tunnels / upgraded connections (bytes relayed without looking at them) the later-request
   rejection too *)
Theorem teardown_has_cause_established c ev s s' :
  established s -> req_complete s = true -> armed s = false ->
  handle_events c ev s = (s', Teardown) ->
  exists k, carries ev k = true /\ applies s k /\ k <> FirstRequestRejected /\
            (k = LaterRequestRejected -> is_tunnel s = false /\ pipeline_upgrade s = false).
Proof.
  intros [Hp [u Hu]] Hrc Ha E. destruct (teardown_has_cause _ _ _ _ E) as [Hx|[k [Hc Hap]]]; [congruence|].
  exists k. split; [exact Hc|]. split; [exact Hap|]. destruct k; (split; [try discriminate|try discriminate]).
  - unfold applies in Hap. congruence.
  - intros _. unfold applies in Hap. destruct (Hap Hrc) as [Hl|[_ [A [B _]]]]; [congruence|auto].
Qed.

(* an exception escapes handle_events only when the event says so *)
Theorem raise_has_cause c ev s s' :
  handle_events c ev s = (s', Raised) -> raises ev = true.
Proof.
  rewrite handle_events_unfold.
  destruct (handle_writables c ev s) as [s1 wt] eqn:Ew.
  destruct wt; [discriminate|].
  destruct (write_phase c ev s1) as [s2 wt2] eqn:Ep.
  destruct (wt2 && negb (has_buffer (work s2))); [discriminate|].
  destruct (read_phase c ev (if wt2 then set_reads_teared true s2 else s2)) as [s4 r4] eqn:Er.
  destruct (cause_read_phase _ _ _ _ _ Er) as [_ [_ [_ R4]]].
  destruct r4; [|intros _; apply R4; reflexivity].
  destruct (reads_teared s4 && negb (has_buffer (work s4))); discriminate.
Qed.

(* ------------------------------------------------------------------------------------------
   event lists
   ------------------------------------------------------------------------------------------ *)
Lemma quiet_spec ev : quiet ev = true <-> forall k, carries ev k = false.
Proof.
  unfold quiet, all_causes. cbn [existsb]. rewrite negb_true_iff. split.
  - intros H k. repeat (apply orb_false_iff in H; destruct H as [? H]). destruct k; assumption.
  - intros H. rewrite !H. reflexivity.
Qed.

Lemma quiet_no_cause ev s : quiet ev = true -> ~ has_cause ev s.
Proof. intros Hq [k [Hc _]]. rewrite (proj1 (quiet_spec ev) Hq k) in Hc. discriminate. Qed.

(* the selector can only take readiness away *)
Lemma carries_select s ev k : carries (select s ev) k = true -> carries ev k = true.
Proof.
  unfold select. destruct (get_events s) as [a b c0 d].
  destruct k; unfold carries; cbn [c_r c_w u_r u_w c_send u_send c_recv u_recv req cdata i_cr i_cw i_ur i_uw];
    intros H; repeat (apply andb_true_iff in H; destruct H as [H ?]);
    repeat (apply andb_true_iff; split); auto.
  all: try (apply andb_true_iff in H; destruct H as [H ?]; auto).
Qed.

Lemma quiet_select s ev : quiet ev = true -> quiet (select s ev) = true.
Proof.
  intros Hq. apply quiet_spec. intros k. destruct (carries (select s ev) k) eqn:E; [|reflexivity].
  apply carries_select in E. rewrite (proj1 (quiet_spec ev) Hq k) in E. discriminate.
Qed.

Lemma raises_select s ev : raises (select s ev) = true -> raises ev = true.
Proof.
  unfold select, raises. destruct (get_events s) as [a b c0 d].
  cbn [c_r c_w u_r u_w c_send u_send c_recv u_recv req cdata i_cr i_cw i_ur i_uw].
  intros H. apply orb_true_iff in H. apply orb_true_iff. destruct H as [H|H]; [left|right].
  - apply andb_true_iff in H as [H H2]. apply andb_true_iff in H as [H H1]. apply andb_true_iff in H as [H _].
    rewrite H, H1, H2. reflexivity.
  - apply andb_true_iff in H as [H H2]. apply andb_true_iff in H as [H _]. rewrite H, H2. reflexivity.
Qed.

Theorem quiet_step c ev s s' r :
  armed s = false -> quiet ev = true -> step c s ev = (s', r) -> r <> Teardown /\ armed s' = false.
Proof.
  intros Ha Hq E. unfold step in E.
  pose proof (quiet_no_cause _ s (quiet_select s ev Hq)) as Hn.
  split.
  - intros ->. destruct (teardown_has_cause _ _ _ _ E) as [H|H]; [congruence|contradiction].
  - destruct (armed s') eqn:Ha'; [|reflexivity].
    destruct (armed_has_cause _ _ _ _ _ E Ha') as [H|H]; [congruence|contradiction].
Qed.

(* along a list of events none of which reports a cause the exchange is never torn down and no teardown gets armed *)
Theorem quiet_run c evs : forall s s' r,
  armed s = false -> forallb quiet evs = true -> run c s evs = (s', r) ->
  r <> Teardown /\ armed s' = false.
Proof.
  induction evs as [|ev t IH]; intros s s' r Ha Hq; cbn [run].
  - intros E; inv_pair. split; [discriminate|exact Ha].
  - cbn [forallb] in Hq. apply andb_true_iff in Hq as [Hq Ht].
    destruct (step c s ev) as [s1 r1] eqn:Es.
    destruct (quiet_step _ _ _ _ _ Ha Hq Es) as [N A1].
    destruct r1; intros E.
    + eapply IH; eauto.
    + congruence.
    + inv_pair. split; [discriminate|exact A1].
Qed.

Lemma calm_quiet ev : calm ev = true -> quiet ev = true /\ raises ev = false.
Proof. unfold calm. intros H. apply andb_true_iff in H as [A B]. apply negb_true_iff in B. auto. Qed.

(* ... and when none lets an exception escape either, the loop simply goes on *)
Theorem calm_run c evs : forall s s' r,
  armed s = false -> forallb calm evs = true -> run c s evs = (s', r) ->
  r = Continue /\ armed s' = false.
Proof.
  induction evs as [|ev t IH]; intros s s' r Ha Hq; cbn [run].
  - intros E; inv_pair. split; [reflexivity|exact Ha].
  - cbn [forallb] in Hq. apply andb_true_iff in Hq as [Hq Ht].
    destruct (calm_quiet _ Hq) as [Q1 Q2].
    destruct (step c s ev) as [s1 r1] eqn:Es.
    destruct (quiet_step _ _ _ _ _ Ha Q1 Es) as [N A1].
    destruct r1; intros E.
    + eapply IH; eauto.
    + congruence.
    + exfalso. unfold step in Es. apply raise_has_cause in Es. apply raises_select in Es. congruence.
Qed.

Lemma armed_init t0 : armed (init t0) = false.
Proof. reflexivity. Qed.

(* C01 corollary: from a fresh connection, any event list without a cause: never torn down, nothing armed, and
   (relay invariants) every byte the upstream handed over is at the client or buffered for it, in order *)
Theorem no_cause_no_teardown c t0 evs s r :
  forallb quiet evs = true -> run c (init t0) evs = (s, r) ->
  r <> Teardown /\ armed s = false /\
  (established s -> delivered_client s ++ pending_client s = ack_of c s ++ g_up_rcvd s) /\
  (established s -> is_tunnel s = true -> delivered_upstream s ++ pending_upstream s = g_cl_rcvd s).
Proof.
  intros Hq Hr. destruct (quiet_run _ _ _ _ _ (armed_init t0) Hq Hr) as [A B].
  split; [exact A|]. split; [exact B|]. split.
  - eapply relay_invariant_client; eassumption.
  - eapply relay_invariant_upstream; eassumption.
Qed.

Theorem no_cause_goes_on c t0 evs s r :
  forallb calm evs = true -> run c (init t0) evs = (s, r) ->
  r = Continue /\ armed s = false /\
  (established s -> delivered_client s ++ pending_client s = ack_of c s ++ g_up_rcvd s).
Proof.
  intros Hq Hr. destruct (calm_run _ _ _ _ _ (armed_init t0) Hq Hr) as [A B].
  split; [exact A|]. split; [exact B|]. eapply relay_invariant_client; eassumption.
Qed.

(* ------------------------------------------------------------------------------------------
   no cause can be dropped from the list
   ------------------------------------------------------------------------------------------ *)
Theorem every_cause_needed : forall k, exists s,
  run w_cfg (init 0) (witness k) = (s, Teardown) /\
  (k <> FirstRequestRejected -> established s) /\
  (forall ev k', In ev (witness k) -> carries ev k' = true -> k' = k).
Proof.
  intros k. exists (fst (run w_cfg (init 0) (witness k))).
  destruct k; (split; [vm_compute; reflexivity|]); (split; [try (intros _; vm_compute; split; [reflexivity|eexists; reflexivity]); congruence|]);
    intros ev k' Hin Hc; cbn [witness In] in Hin;
    repeat (destruct Hin as [<-|Hin]; [destruct k'; try reflexivity; vm_compute in Hc; discriminate|]);
    contradiction.
Qed.

(* ------------------------------------------------------------------------------------------
   as long as there is no cause the proxy keeps reading from the upstream
   ------------------------------------------------------------------------------------------ *)
Lemma armed_false s : armed s = false ->
  must_flush s = false /\ writes_teared s = false /\ reads_teared s = false.
Proof.
  unfold armed. intros H. apply orb_false_iff in H as [H C]. apply orb_false_iff in H as [A B]. auto.
Qed.

Lemma quiet_client_cause ev s : quiet ev = true -> ~ client_cause ev s.
Proof. intros Hq Hc. exact (quiet_no_cause ev s Hq (client_cause_has_cause _ _ Hc)). Qed.

Theorem quiet_reads_upstream c ev s s' r x raw :
  established s -> req_complete s = true -> armed s = false -> quiet ev = true ->
  u_r ev = true -> u_recv ev = RData (x :: raw) ->
  handle_events c ev s = (s', r) -> r <> Raised ->
  r = Continue /\ g_up_rcvd s' = g_up_rcvd s ++ x :: raw.
Proof.
  intros [Hp [u Hu]] Hrc Ha Hq Hur Hrv. destruct (armed_false _ Ha) as [Hmf [Hwt Hrt]].
  pose proof (proj1 (quiet_spec ev) Hq) as Hno.
  rewrite handle_events_unfold.
  destruct (handle_writables c ev s) as [s1 wt] eqn:Ew.
  destruct (cause_handle_writables _ _ _ _ _ Ew) as [W1 [W2 [W3 [W4 [W5 W6]]]]].
  destruct (ghost_handle_writables _ _ _ _ _ Ew) as [Gw _].
  destruct wt.
  { exfalso. destruct (W1 eq_refl) as [Hm|[Hc _]]; [congruence|]. rewrite Hno in Hc. discriminate. }
  destruct (write_phase c ev s1) as [s2 wt2] eqn:Ep.
  destruct (cause_write_phase _ _ _ _ _ Ep) as [P1 [P2 [P3 [P4 [P5 P6]]]]].
  destruct (ghost_write_phase _ _ _ _ _ Ep) as [Gp _].
  destruct wt2.
  { exfalso. destruct (P2 eq_refl) as [Hx|[Hc _]]; [congruence|]. rewrite Hno in Hc. discriminate. }
  cbn [andb].
  assert (St : static_w s s2) by (eapply static_w_trans; eassumption).
  destruct St as [[S1 [S2 [S3 S4]]] S5].
  unfold read_phase. assert (reads_teared s2 = false) as -> by congruence.
  destruct (handle_readables c ev s2) as [sx o] eqn:Eh.
  destruct (cause_handle_readables _ _ _ _ _ Eh) as [A [B [C [D [F G]]]]].
  destruct (ghost_handle_readables _ _ _ _ _ Eh) as [Gh _].
  destruct o as [[|]|].
  - exfalso. exact (quiet_client_cause ev s2 Hq (A eq_refl)).
  - destruct (G ltac:(congruence)) as [G1 [G2 [G3 G4]]].
    assert (Hpx : plugin sx = PProxy) by congruence.
    assert (Hux : up_some sx = true) by (rewrite G4, S4; unfold up_some; rewrite Hu; reflexivity).
    rewrite Hpx. unfold read_from_descriptors. rewrite Hpx.
    unfold up_some in Hux. destruct (upstream sx) as [ux|] eqn:Eux; [|discriminate].
    rewrite Hur, Hrv. hsimpl. cbn [andb].
    intros E _; inv_pair. split; [reflexivity|]. hsimpl. congruence.
  - intros E Hr; inv_pair. congruence.
Qed.

Lemma established_i_ur s : established s -> i_ur (get_events s) = true.
Proof.
  intros [Hp [u Hu]]. unfold get_events, base_get_events, plugin_get_descriptors. rewrite Hp, Hu. reflexivity.
Qed.

Theorem quiet_step_reads_upstream c ev s s' r x raw :
  established s -> req_complete s = true -> armed s = false -> quiet ev = true ->
  u_r ev = true -> u_recv ev = RData (x :: raw) ->
  step c s ev = (s', r) -> r <> Raised ->
  r = Continue /\ g_up_rcvd s' = g_up_rcvd s ++ x :: raw.
Proof.
  intros He Hrc Ha Hq Hur Hrv. unfold step.
  apply quiet_reads_upstream; auto.
  - apply quiet_select. exact Hq.
  - unfold select. cbn [u_r]. rewrite Hur, (established_i_ur _ He). reflexivity.
Qed.

(* an established exchange reached from a fresh connection has a complete first request *)
Theorem established_request_complete c t0 evs s r :
  run c (init t0) evs = (s, r) -> established s -> req_complete s = true.
Proof.
  intros Hr [_ [u Hu]]. destruct (inv_run _ _ _ _ _ (inv_init c t0) Hr) as [_ [_ H3]].
  unfold inv_up in H3. rewrite Hu in H3. tauto.
Qed.

(* ------------------------------------------------------------------------------------------
   the event-list corollaries with the premise spelled out
   ------------------------------------------------------------------------------------------ *)
Lemma quiet_list evs : (forall ev k, In ev evs -> carries ev k = false) -> forallb quiet evs = true.
Proof. intros H. apply forallb_forall. intros ev Hin. apply quiet_spec. intros k. now apply H. Qed.

Lemma calm_list evs :
  (forall ev k, In ev evs -> carries ev k = false) -> (forall ev, In ev evs -> raises ev = false) ->
  forallb calm evs = true.
Proof.
  intros H1 H2. apply forallb_forall. intros ev Hin. unfold calm. rewrite (H2 ev Hin).
  rewrite (proj2 (quiet_spec ev)); [reflexivity|]. intros k. now apply H1.
Qed.

Theorem no_cause_no_teardown_list c t0 evs s r :
  (forall ev k, In ev evs -> carries ev k = false) ->
  run c (init t0) evs = (s, r) ->
  r <> Teardown /\ armed s = false /\
  (established s -> delivered_client s ++ pending_client s = ack_of c s ++ g_up_rcvd s) /\
  (established s -> is_tunnel s = true -> delivered_upstream s ++ pending_upstream s = g_cl_rcvd s).
Proof. intros H. apply no_cause_no_teardown. now apply quiet_list. Qed.

Theorem no_cause_goes_on_list c t0 evs s r :
  (forall ev k, In ev evs -> carries ev k = false) -> (forall ev, In ev evs -> raises ev = false) ->
  run c (init t0) evs = (s, r) ->
  r = Continue /\ armed s = false /\
  (established s -> delivered_client s ++ pending_client s = ack_of c s ++ g_up_rcvd s).
Proof. intros H1 H2. apply no_cause_goes_on. now apply calm_list. Qed.
