(* Characterising lemmas for the Python builtins of Lib/PyStr.v on single-byte separators:
   split(sep, 1), split(sep, n), split(sep), join, rsplit, int() and utf-8 validity of ASCII.
   (written for C14; generally useful) *)
From PM Require Import Lib.Bytes Lib.BytesFacts Lib.PyStr.
From Coq Require Import ZArith.

(* ------------------------------------------------------------------ membership helpers *)
Lemma mem_byte_In x l : mem_byte x l = true <-> In x l.
Proof.
  induction l as [|y t IH]; cbn [mem_byte In]; [split; [discriminate|tauto]|].
  rewrite orb_true_iff, IH, N.eqb_eq. split; intros [H|H]; auto.
Qed.

Lemma mem_byte_false x l : mem_byte x l = false <-> ~ In x l.
Proof.
  rewrite <- mem_byte_In. destruct (mem_byte x l); split; intros H.
  - discriminate.
  - exfalso; now apply H.
  - intros H'; discriminate.
  - reflexivity.
Qed.

Lemma not_in_app {A} (x : A) a b : ~ In x (a ++ b) <-> ~ In x a /\ ~ In x b.
Proof. rewrite in_app_iff. tauto. Qed.

Lemma not_in_cons_ne {A} (x y : A) l : ~ In x (y :: l) <-> y <> x /\ ~ In x l.
Proof. cbn [In]. tauto. Qed.

(* ------------------------------------------------------------------ split_once on one byte *)
Lemma is_prefix_single c l : is_prefix [c] l = match l with x :: _ => c =? x | [] => false end.
Proof. destruct l as [|x t]; cbn [is_prefix]; [reflexivity|]. now rewrite andb_true_r. Qed.

Lemma split_once_byte_cons c x t :
  split_once [c] (x :: t) =
  if c =? x then Some ([], t)
  else match split_once [c] t with Some (a, r) => Some (x :: a, r) | None => None end.
Proof.
  cbn [split_once]. rewrite is_prefix_single. destruct (c =? x); reflexivity.
Qed.

Lemma split_once_byte_nil c : split_once [c] [] = None.
Proof. reflexivity. Qed.

Lemma split_once_byte_notin c a b : ~ In c a -> split_once [c] (a ++ c :: b) = Some (a, b).
Proof.
  induction a as [|x a IH]; intros Hn; cbn [app]; rewrite split_once_byte_cons.
  - now rewrite N.eqb_refl.
  - apply not_in_cons_ne in Hn as [Hx Hn]. destruct (N.eqb_spec c x) as [E|_]; [now subst|].
    now rewrite (IH Hn).
Qed.

Lemma split_once_byte_none c l : ~ In c l -> split_once [c] l = None.
Proof.
  induction l as [|x t IH]; intros Hn; [reflexivity|].
  apply not_in_cons_ne in Hn as [Hx Hn]. rewrite split_once_byte_cons.
  destruct (N.eqb_spec c x) as [E|_]; [now subst|]. now rewrite (IH Hn).
Qed.

Lemma split_once_byte_some c l a b :
  split_once [c] l = Some (a, b) -> l = a ++ c :: b /\ ~ In c a.
Proof.
  revert a b; induction l as [|x t IH]; intros a b; [discriminate|].
  rewrite split_once_byte_cons. destruct (N.eqb_spec c x) as [E|Ne].
  - intros H; inversion H; subst. split; [reflexivity|intros []].
  - destruct (split_once [c] t) as [[a' r]|]; [|discriminate].
    intros H; inversion H; subst. destruct (IH _ _ eq_refl) as [-> Hn].
    split; [reflexivity|]. intros [E|Hi]; [now apply Ne|now apply Hn].
Qed.

Lemma split_once_byte_none_inv c l : split_once [c] l = None -> ~ In c l.
Proof.
  induction l as [|x t IH]; [intros _ []|].
  rewrite split_once_byte_cons. destruct (N.eqb_spec c x) as [E|Ne]; [discriminate|].
  destruct (split_once [c] t) as [[a r]|]; [discriminate|].
  intros _ [E|Hi]; [now apply Ne|now apply IH].
Qed.

(* any separator: it cannot be found in a string that lacks one of its bytes *)
Lemma split_once_none_of_notin sep x l : In x sep -> ~ In x l -> split_once sep l = None.
Proof.
  intros Hs Hn. destruct (split_once sep l) as [[a b]|] eqn:E; [|reflexivity].
  apply split_once_sound in E. subst. exfalso. apply Hn.
  rewrite !in_app_iff. auto.
Qed.

(* stepping over a byte at which the separator does not start *)
Lemma split_once_skip sep x t :
  is_prefix sep (x :: t) = false ->
  split_once sep (x :: t) = match split_once sep t with Some (a, r) => Some (x :: a, r) | None => None end.
Proof. intros H. cbn [split_once]. now rewrite H. Qed.

Lemma split_once_here sep l : is_prefix sep l = true -> split_once sep l = Some ([], skipn (length sep) l).
Proof. intros H. destruct l; cbn [split_once]; now rewrite H. Qed.

(* every string either lacks c or splits at its LAST c *)
Lemma last_sep_decomp c (l : bytes) : ~ In c l \/ exists pre t, l = pre ++ c :: t /\ ~ In c t.
Proof.
  induction l as [|x l IH]; [left; intros []|].
  destruct IH as [Hn|(pre & t & -> & Hn)].
  - destruct (N.eq_dec x c) as [->|Ne].
    + right. exists [], l. split; [reflexivity|exact Hn].
    + left. intros [E|Hi]; [now apply Ne|now apply Hn].
  - right. exists (x :: pre), t. split; [reflexivity|exact Hn].
Qed.

(* ------------------------------------------------------------------ count and structural split *)
Fixpoint count_byte (c : N) (l : bytes) : nat :=
  match l with [] => O | x :: t => if x =? c then S (count_byte c t) else count_byte c t end.

Lemma count_byte_app c a b : count_byte c (a ++ b) = (count_byte c a + count_byte c b)%nat.
Proof. induction a as [|x a IH]; [reflexivity|]. cbn [app count_byte]. destruct (x =? c); rewrite IH; reflexivity. Qed.

Lemma count_byte_zero c l : count_byte c l = O <-> ~ In c l.
Proof.
  induction l as [|x t IH]; cbn [count_byte In]; [tauto|].
  destruct (N.eqb_spec x c) as [E|Ne].
  - split; [discriminate|]. intros H; exfalso; apply H; now left.
  - rewrite IH. split; [intros H [E|Hi]; [now apply Ne|now apply H]|tauto].
Qed.

Lemma count_byte_cons_eq c t : count_byte c (c :: t) = S (count_byte c t).
Proof. cbn [count_byte]. now rewrite N.eqb_refl. Qed.

(* two occurrences: the string splits at the first two *)
Lemma count_ge2_split c l : (2 <= count_byte c l)%nat ->
  exists x y z, l = x ++ c :: y ++ c :: z /\ ~ In c x /\ ~ In c y.
Proof.
  intros H.
  assert (H1 : In c l) by (destruct (in_dec N.eq_dec c l) as [Hi|Hn]; [exact Hi|apply count_byte_zero in Hn; lia]).
  destruct (split_once [c] l) as [[x r]|] eqn:E1; [|now apply split_once_byte_none_inv in E1].
  apply split_once_byte_some in E1 as [-> Hx].
  rewrite count_byte_app, count_byte_cons_eq in H.
  apply count_byte_zero in Hx as Hx0. rewrite Hx0 in H.
  assert (H2 : In c r) by (destruct (in_dec N.eq_dec c r) as [Hi|Hn]; [exact Hi|apply count_byte_zero in Hn; lia]).
  destruct (split_once [c] r) as [[y z]|] eqn:E2; [|now apply split_once_byte_none_inv in E2].
  apply split_once_byte_some in E2 as [-> Hy].
  exists x, y, z. auto.
Qed.

(* bytes.split(c) written structurally (no fuel) *)
Fixpoint split_byte (c : N) (l : bytes) : list bytes :=
  match l with
  | [] => [[]]
  | x :: t => if x =? c then [] :: split_byte c t
              else match split_byte c t with h :: r => (x :: h) :: r | [] => [[x]] end
  end.

Lemma split_byte_notin c l : ~ In c l -> split_byte c l = [l].
Proof.
  induction l as [|x t IH]; intros Hn; [reflexivity|].
  apply not_in_cons_ne in Hn as [Hx Hn]. cbn [split_byte].
  destruct (N.eqb_spec x c) as [E|_]; [now subst|]. now rewrite (IH Hn).
Qed.

Lemma split_byte_first c a r : ~ In c a -> split_byte c (a ++ c :: r) = a :: split_byte c r.
Proof.
  induction a as [|x a IH]; intros Hn; cbn [app split_byte].
  - now rewrite N.eqb_refl.
  - apply not_in_cons_ne in Hn as [Hx Hn]. destruct (N.eqb_spec x c) as [E|_]; [now subst|].
    now rewrite (IH Hn).
Qed.

Lemma split_byte_nonempty c l : split_byte c l <> [].
Proof.
  destruct l as [|x t]; cbn [split_byte]; [discriminate|].
  destruct (x =? c); [discriminate|]. destruct (split_byte c t); discriminate.
Qed.

Lemma split_byte_app_last c a b : ~ In c b -> split_byte c (a ++ c :: b) = split_byte c a ++ [b].
Proof.
  intros Hb. induction a as [|x a IH]; cbn [app split_byte].
  - rewrite N.eqb_refl. now rewrite (split_byte_notin _ _ Hb).
  - rewrite IH. destruct (x =? c); [reflexivity|].
    destruct (split_byte c a) as [|h r] eqn:E; [now apply split_byte_nonempty in E|reflexivity].
Qed.

Lemma join_cons2 sep p q t : join sep (p :: q :: t) = p ++ sep ++ join sep (q :: t).
Proof. reflexivity. Qed.

Lemma join_split_byte c l : join [c] (split_byte c l) = l.
Proof.
  induction l as [|x t IH]; [reflexivity|]. cbn [split_byte].
  destruct (N.eqb_spec x c) as [->|Ne].
  - destruct (split_byte c t) as [|h r] eqn:E; [now apply split_byte_nonempty in E|].
    rewrite join_cons2, IH. reflexivity.
  - destruct (split_byte c t) as [|h r] eqn:E; [now apply split_byte_nonempty in E|].
    destruct r as [|q r]; cbn [join] in IH |- *; rewrite <- IH; reflexivity.
Qed.

(* bytes.split(sep, n) with enough splits allowed is the structural split *)
Lemma splitn_split_byte c n l : (length l < n)%nat -> splitn [c] n l = split_byte c l.
Proof.
  revert l; induction n as [|n IH]; intros l Hl; [lia|]. cbn [splitn].
  destruct (split_once [c] l) as [[a r]|] eqn:E.
  - apply split_once_byte_some in E as [-> Ha]. rewrite split_byte_first by exact Ha.
    f_equal. apply IH. rewrite app_length in Hl. cbn [length] in Hl. lia.
  - apply split_once_byte_none_inv in E. now rewrite split_byte_notin.
Qed.

Lemma split_all_split_byte c l : split_all [c] l = split_byte c l.
Proof. unfold split_all. apply splitn_split_byte. lia. Qed.

Lemma split_all_notin c l : ~ In c l -> split_all [c] l = [l].
Proof. intros H. rewrite split_all_split_byte. now apply split_byte_notin. Qed.

Lemma split_all_app_last c a b : ~ In c b -> split_all [c] (a ++ c :: b) = split_all [c] a ++ [b].
Proof. intros H. rewrite !split_all_split_byte. now apply split_byte_app_last. Qed.

Lemma join_split_all c l : join [c] (split_all [c] l) = l.
Proof. rewrite split_all_split_byte. apply join_split_byte. Qed.

(* splitn one level at a time *)
Lemma splitn_S_none sep m l : split_once sep l = None -> splitn sep (S m) l = [l].
Proof. intros H. cbn [splitn]. now rewrite H. Qed.

Lemma splitn_S_some sep m l a r : split_once sep l = Some (a, r) -> splitn sep (S m) l = a :: splitn sep m r.
Proof. intros H. cbn [splitn]. now rewrite H. Qed.

(* ------------------------------------------------------------------ rsplit(c, 1), structurally *)
Fixpoint rsplit_byte (c : N) (l : bytes) : option (bytes * bytes) :=
  match l with
  | [] => None
  | x :: t => match rsplit_byte c t with
              | Some (a, b) => Some (x :: a, b)
              | None => if x =? c then Some ([], t) else None
              end
  end.

Lemma rsplit_byte_none c l : ~ In c l -> rsplit_byte c l = None.
Proof.
  induction l as [|x t IH]; intros Hn; [reflexivity|].
  apply not_in_cons_ne in Hn as [Hx Hn]. cbn [rsplit_byte]. rewrite (IH Hn).
  destruct (N.eqb_spec x c) as [E|_]; [now subst|reflexivity].
Qed.

Lemma rsplit_byte_last c pre t : ~ In c t -> rsplit_byte c (pre ++ c :: t) = Some (pre, t).
Proof.
  intros Hn. induction pre as [|x pre IH]; cbn [app rsplit_byte].
  - rewrite (rsplit_byte_none _ _ Hn). now rewrite N.eqb_refl.
  - now rewrite IH.
Qed.

(* ------------------------------------------------------------------ strip *)
Lemma lstrip_noop l : (forall x, In x l -> is_ws x = false) -> lstrip l = l.
Proof. destruct l as [|x t]; intros H; [reflexivity|]. cbn [lstrip]. now rewrite (H x (or_introl eq_refl)). Qed.

Lemma strip_noop l : (forall x, In x l -> is_ws x = false) -> strip l = l.
Proof.
  intros H. unfold strip, rstrip. rewrite (lstrip_noop l H).
  rewrite lstrip_noop; [apply rev_involutive|]. intros x Hx. apply H. now apply in_rev.
Qed.

Lemma In_lstrip x l : In x l -> is_ws x = false -> In x (lstrip l).
Proof.
  induction l as [|y t IH]; intros Hi Hw; [destruct Hi|]. cbn [lstrip].
  destruct (is_ws y) eqn:E; [|exact Hi]. destruct Hi as [->|Hi]; [congruence|now apply IH].
Qed.

Lemma In_strip x l : In x l -> is_ws x = false -> In x (strip l).
Proof.
  intros Hi Hw. unfold strip, rstrip. apply in_rev. rewrite rev_involutive.
  apply In_lstrip; [|exact Hw]. apply -> in_rev. now apply In_lstrip.
Qed.

(* ------------------------------------------------------------------ int() *)
(* value of a string of decimal digits *)
Fixpoint digits_val_aux (l : bytes) (acc : N) : N :=
  match l with [] => acc | x :: t => digits_val_aux t (acc * 10 + (x - 48)) end.
Definition digits_val (l : bytes) : N := digits_val_aux l 0.
Definition all_digits (l : bytes) : bool := forallb is_digit l.

Lemma is_digit_range x : is_digit x = true -> 48 <= x <= 57.
Proof. unfold is_digit. intros H. apply andb_true_iff in H as [H1 H2]. apply N.leb_le in H1, H2. lia. Qed.

Lemma digit_not_ws x : is_digit x = true -> is_ws x = false.
Proof.
  intros H. apply is_digit_range in H. unfold is_ws.
  destruct (N.eqb_spec x 32); [lia|]. destruct (N.leb_spec 9 x); destruct (N.leb_spec x 13); try reflexivity; lia.
Qed.

Lemma digit_val_digit x : is_digit x = true -> digit_val 10 x = Some (x - 48).
Proof.
  intros H. unfold digit_val. rewrite H. apply is_digit_range in H.
  destruct (N.ltb_spec (x - 48) 10); [reflexivity|lia].
Qed.

Lemma parse_digits_digits l : forall acc b, all_digits l = true -> (l <> [] \/ b = true) ->
  parse_digits 10 l acc b = Some (digits_val_aux l acc).
Proof.
  induction l as [|x t IH]; intros acc b Hd Hne.
  - destruct Hne as [Hne| ->]; [congruence|reflexivity].
  - cbn [all_digits forallb] in Hd. apply andb_true_iff in Hd as [Hx Ht].
    cbn [parse_digits digits_val_aux].
    pose proof (is_digit_range _ Hx) as Hr.
    destruct (N.eqb_spec x 95) as [E|_]; [lia|].
    rewrite (digit_val_digit _ Hx). apply IH; [exact Ht|now right].
Qed.

(* int(raw, 10) without the base-16 clutter *)
Definition int10_body (neg : bool) (body : bytes) : result Z :=
  if (int_limit <? length body)%nat then Err ValueError else
  match parse_digits 10 body 0 false with
  | Some n => Ok (if neg then (- Z.of_N n)%Z else Z.of_N n)
  | None => Err ValueError
  end.

Lemma int10_unfold raw :
  int10 raw = match strip raw with
              | x :: t => if x =? 45 then int10_body true t
                          else if x =? 43 then int10_body false t else int10_body false (x :: t)
              | [] => int10_body false []
              end.
Proof.
  unfold int10, py_int, int10_body. change (10 =? 16) with false. cbv iota.
  destruct (strip raw) as [|x t]; [reflexivity|].
  destruct (x =? 45); [|destruct (x =? 43)]; cbv iota; cbn [negb]; rewrite andb_true_r; reflexivity.
Qed.

(* int(b'ddd') for a non-empty all-digit string below CPython's 4300-digit limit *)
Lemma int10_digits p : p <> [] -> all_digits p = true -> (length p <= int_limit)%nat ->
  int10 p = Ok (Z.of_N (digits_val p)).
Proof.
  intros Hne Hd Hl. rewrite int10_unfold.
  assert (Hws : forall x, In x p -> is_ws x = false).
  { intros x Hx. apply digit_not_ws. unfold all_digits in Hd. rewrite forallb_forall in Hd. now apply Hd. }
  rewrite (strip_noop _ Hws).
  destruct p as [|x t]; [congruence|].
  assert (Hx : is_digit x = true) by (cbn [all_digits forallb] in Hd; now apply andb_true_iff in Hd as [? _]).
  pose proof (is_digit_range _ Hx) as Hr.
  destruct (N.eqb_spec x 45) as [E|_]; [lia|]. destruct (N.eqb_spec x 43) as [E|_]; [lia|].
  unfold int10_body. destruct (Nat.ltb_spec int_limit (length (x :: t))) as [Hlt|_]; [lia|].
  rewrite (parse_digits_digits (x :: t) 0 false Hd) by (left; discriminate). reflexivity.
Qed.

(* a byte that can occur nowhere in an int() literal *)
Definition int_bad_byte (x : N) : bool :=
  negb (is_ws x) && negb (x =? 45) && negb (x =? 43) && negb (x =? 95) &&
  match digit_val 10 x with Some _ => false | None => true end.

Lemma parse_digits_bad x l : In x l -> (x =? 95) = false -> digit_val 10 x = None ->
  forall acc b, parse_digits 10 l acc b = None.
Proof.
  intros Hi H95 Hdv. induction l as [|y t IH]; intros acc b; [destruct Hi|].
  cbn [parse_digits]. destruct Hi as [->|Hi].
  - now rewrite H95, Hdv.
  - destruct (y =? 95); [destruct b; [now apply IH|reflexivity]|].
    destruct (digit_val 10 y); [now apply IH|reflexivity].
Qed.

Lemma int10_body_bad x neg body : In x body -> (x =? 95) = false -> digit_val 10 x = None ->
  int10_body neg body = Err ValueError.
Proof.
  intros Hi H95 Hdv. unfold int10_body. destruct (int_limit <? length body)%nat; [reflexivity|].
  now rewrite (parse_digits_bad x body Hi H95 Hdv).
Qed.

Lemma int10_bad_byte x l : In x l -> int_bad_byte x = true -> int10 l = Err ValueError.
Proof.
  intros Hi Hb. unfold int_bad_byte in Hb.
  apply andb_true_iff in Hb as [Hb Hdv]. apply andb_true_iff in Hb as [Hb H95].
  apply andb_true_iff in Hb as [Hb H43]. apply andb_true_iff in Hb as [Hws H45].
  apply negb_true_iff in Hws, H45, H43, H95.
  destruct (digit_val 10 x) eqn:Hdv'; [discriminate|].
  pose proof (In_strip _ _ Hi Hws) as Hs.
  rewrite int10_unfold. destruct (strip l) as [|y t]; [destruct Hs|].
  destruct (N.eqb_spec y 45) as [E45|N45].
  - destruct Hs as [E|Hs]; [subst; rewrite N.eqb_refl in H45; discriminate|].
    now apply (int10_body_bad x).
  - destruct (N.eqb_spec y 43) as [E43|N43].
    + destruct Hs as [E|Hs]; [subst; rewrite N.eqb_refl in H43; discriminate|]. now apply (int10_body_bad x).
    + now apply (int10_body_bad x).
Qed.

(* ------------------------------------------------------------------ utf-8 *)
Definition all_ascii (l : bytes) : bool := forallb (fun x => x <? 128) l.

Lemma ascii_utf8_valid_aux l : all_ascii l = true -> forall f, (length l < f)%nat -> utf8_valid_aux f l = true.
Proof.
  induction l as [|x t IH]; intros Ha f Hf; (destruct f as [|f]; [cbn [length] in Hf; lia|]); [reflexivity|].
  cbn [all_ascii forallb] in Ha. apply andb_true_iff in Ha as [Hx Ht].
  cbn [utf8_valid_aux]. rewrite Hx. apply IH; [exact Ht|cbn [length] in Hf; lia].
Qed.

Lemma ascii_utf8_valid l : all_ascii l = true -> utf8_valid l = true.
Proof. intros H. unfold utf8_valid. apply ascii_utf8_valid_aux; [exact H|lia]. Qed.

Lemma text_ascii l : all_ascii l = true -> text_ l = Ok l.
Proof. intros H. unfold text_. now rewrite ascii_utf8_valid. Qed.

Lemma all_ascii_app a b : all_ascii (a ++ b) = all_ascii a && all_ascii b.
Proof. apply forallb_app. Qed.

(* a separator whose first byte does not occur before it is found exactly there *)
Lemma split_once_first_notin s0 s' a b : ~ In s0 a ->
  split_once (s0 :: s') (a ++ (s0 :: s') ++ b) = Some (a, b).
Proof.
  induction a as [|x a IH]; intros Hn.
  - cbn [app]. rewrite split_once_here by (change (s0 :: s' ++ b) with ((s0 :: s') ++ b); apply is_prefix_self_app).
    change (s0 :: s' ++ b) with ((s0 :: s') ++ b).
    rewrite skipn_app, Nat.sub_diag, skipn_all. reflexivity.
  - apply not_in_cons_ne in Hn as [Hx Hn].
    change ((x :: a) ++ (s0 :: s') ++ b) with (x :: (a ++ (s0 :: s') ++ b)). rewrite split_once_skip.
    + now rewrite (IH Hn).
    + cbn [is_prefix]. destruct (N.eqb_spec s0 x) as [E|_]; [now subst|reflexivity].
Qed.
