(* Python-semantics layer, part 2: the bytes/str builtins used by the anchored code, one Gallina
   function per builtin, with CPython 3.12 behaviour (checked against CPython by the
   correspondence runs of the properties that use them).  Definitions only. *)
From PM Require Import Lib.Bytes.
From Coq Require Import ZArith.

(* ---- character classes ---- *)
(* bytes.strip()/split()/isspace(): space, \t \n \v \f \r *)
Definition is_ws (x : N) : bool :=
  (x =? 32) || ((9 <=? x) && (x <=? 13)).
Definition is_digit (x : N) : bool := (48 <=? x) && (x <=? 57).
Definition is_upper (x : N) : bool := (65 <=? x) && (x <=? 90).
Definition is_lower (x : N) : bool := (97 <=? x) && (x <=? 122).
Definition is_alpha (x : N) : bool := is_upper x || is_lower x.

Definition lower_byte (x : N) : N := if is_upper x then x + 32 else x.
Definition upper_byte (x : N) : N := if is_lower x then x - 32 else x.
Definition lower (l : bytes) : bytes := map lower_byte l.
Definition upper (l : bytes) : bytes := map upper_byte l.

(* ---- strip ---- *)
Fixpoint lstrip (l : bytes) : bytes :=
  match l with
  | x :: t => if is_ws x then lstrip t else l
  | [] => []
  end.
Definition rstrip (l : bytes) : bytes := rev (lstrip (rev l)).
Definition strip (l : bytes) : bytes := rstrip (lstrip l).

(* ---- startswith / endswith / find ---- *)
Definition startswith (l p : bytes) : bool := is_prefix p l.
Definition endswith (l p : bytes) : bool := is_prefix (rev p) (rev l).

Fixpoint contains (sub l : bytes) : bool :=
  if is_prefix sub l then true else
  match l with [] => false | _ :: t => contains sub t end.

Fixpoint mem_byte (x : N) (l : bytes) : bool :=
  match l with [] => false | y :: t => (x =? y) || mem_byte x t end.

(* ---- split ---- *)
(* bytes.split(sep, maxsplit) for maxsplit >= 0; sep non-empty *)
Fixpoint splitn (sep : bytes) (maxsplit : nat) (l : bytes) : list bytes :=
  match maxsplit with
  | O => [l]
  | S m =>
      match split_once sep l with
      | None => [l]
      | Some (a, rest) => a :: splitn sep m rest
      end
  end.
(* bytes.split(sep): unlimited (each split consumes at least one byte of a non-empty sep) *)
Definition split_all (sep l : bytes) : list bytes := splitn sep (S (length l)) l.

(* bytes.split() with no argument: runs of ASCII whitespace separate, no empty strings *)
Fixpoint split_ws_aux (cur : bytes) (l : bytes) : list bytes :=
  match l with
  | [] => match cur with [] => [] | _ => [rev cur] end
  | x :: t =>
      if is_ws x then
        match cur with [] => split_ws_aux [] t | _ => rev cur :: split_ws_aux [] t end
      else split_ws_aux (x :: cur) t
  end.
Definition split_ws (l : bytes) : list bytes := split_ws_aux [] l.

Fixpoint join (sep : bytes) (parts : list bytes) : bytes :=
  match parts with
  | [] => []
  | [p] => p
  | p :: t => p ++ sep ++ join sep t
  end.

(* ---- int() ---- *)
(* digits with single underscores between digits, as int() accepts: d(_?d)*  *)
Definition digit_val (base : N) (x : N) : option N :=
  let v := if is_digit x then Some (x - 48)
           else if (97 <=? x) && (x <=? 122) then Some (x - 87)
           else if (65 <=? x) && (x <=? 90) then Some (x - 55)
           else None in
  match v with Some d => if d <? base then Some d else None | None => None end.

(* state: acc, last_was_digit *)
Fixpoint parse_digits (base : N) (l : bytes) (acc : N) (prev_digit : bool) : option N :=
  match l with
  | [] => if prev_digit then Some acc else None
  | x :: t =>
      if x =? 95 (* _ *) then (if prev_digit then parse_digits base t acc false else None)
      else match digit_val base x with
           | Some d => parse_digits base t (acc * base + d) true
           | None => None
           end
  end.

(* int(b, 10) on bytes: strip whitespace, optional sign, digits.  CPython rejects byte strings
   longer than the 4300-digit limit; the model carries that guard. *)
Definition int_limit : nat := 4300.
Definition py_int (base : N) (raw : bytes) : result Z :=
  let s := strip raw in
  let '(neg, body) :=
    match s with
    | x :: t => if x =? 45 then (true, t) else if x =? 43 then (false, t) else (false, s)
    | [] => (false, s)
    end in
  (* optional 0x / 0X prefix for base 16 (an underscore may follow the prefix) *)
  let body :=
    if base =? 16 then
      match body with
      | z :: x :: t => if (z =? 48) && ((x =? 120) || (x =? 88)) then
                         match t with u :: t' => if u =? 95 then t' else t | [] => t end
                       else body
      | _ => body
      end
    else body in
  if (int_limit <? length body)%nat && negb (base =? 16) then Err ValueError else
  match parse_digits base body 0 false with
  | Some n => Ok (if neg then (- Z.of_N n)%Z else Z.of_N n)
  | None => Err ValueError
  end.
Definition int10 (raw : bytes) : result Z := py_int 10 raw.
Definition int16 (raw : bytes) : result Z := py_int 16 raw.

(* ---- formatting ---- *)
Definition digit_char (d : N) : N := if d <? 10 then 48 + d else 87 + d.
Fixpoint to_base_aux (fuel : nat) (base n : N) (acc : bytes) : bytes :=
  match fuel with
  | O => acc
  | S f => if n <? base then digit_char n :: acc
           else to_base_aux f base (n / base) (digit_char (n mod base) :: acc)
  end.
Definition to_base (base n : N) : bytes := to_base_aux (S (N.to_nat (N.log2 n))) base n [].
Definition dec_of_N (n : N) : bytes := to_base 10 n.     (* str(n).encode() *)
Definition hex_of_N (n : N) : bytes := to_base 16 n.     (* '{:x}'.format(n) *)
Definition dec_of_Z (z : Z) : bytes :=
  match z with Zneg p => 45 :: dec_of_N (Npos p) | _ => dec_of_N (Z.to_N z) end.

(* ---- strict UTF-8 validity (bytes.decode('utf-8')) ---- *)
Definition is_cont (x : N) : bool := (128 <=? x) && (x <=? 191).
Fixpoint utf8_valid_aux (fuel : nat) (l : bytes) : bool :=
  match fuel with
  | O => false
  | S f =>
      match l with
      | [] => true
      | a :: t =>
          if a <? 128 then utf8_valid_aux f t
          else if (194 <=? a) && (a <=? 223) then
            match t with c :: t' => is_cont c && utf8_valid_aux f t' | _ => false end
          else if a =? 224 then
            match t with c :: d :: t' => (160 <=? c) && (c <=? 191) && is_cont d && utf8_valid_aux f t' | _ => false end
          else if ((225 <=? a) && (a <=? 236)) || ((238 <=? a) && (a <=? 239)) then
            match t with c :: d :: t' => is_cont c && is_cont d && utf8_valid_aux f t' | _ => false end
          else if a =? 237 then
            match t with c :: d :: t' => (128 <=? c) && (c <=? 159) && is_cont d && utf8_valid_aux f t' | _ => false end
          else if a =? 240 then
            match t with c :: d :: e :: t' => (144 <=? c) && (c <=? 191) && is_cont d && is_cont e && utf8_valid_aux f t' | _ => false end
          else if (241 <=? a) && (a <=? 243) then
            match t with c :: d :: e :: t' => is_cont c && is_cont d && is_cont e && utf8_valid_aux f t' | _ => false end
          else if a =? 244 then
            match t with c :: d :: e :: t' => (128 <=? c) && (c <=? 143) && is_cont d && is_cont e && utf8_valid_aux f t' | _ => false end
          else false
      end
  end.
Definition utf8_valid (l : bytes) : bool := utf8_valid_aux (S (length l)) l.
(* text_(b): decode or raise *)
Definition text_ (l : bytes) : result bytes := if utf8_valid l then Ok l else Err UnicodeDecodeError.

(* ---- insertion-ordered dict keyed by bytes ---- *)
Section Dict.
  Context {V : Type}.
  Definition dict := list (bytes * V).
  Fixpoint dict_get (k : bytes) (d : dict) : option V :=
    match d with
    | [] => None
    | (k', v) :: t => if bytes_eqb k k' then Some v else dict_get k t
    end.
  Definition dict_has (k : bytes) (d : dict) : bool :=
    match dict_get k d with Some _ => true | None => false end.
  (* d[k] = v : replace in place, else append *)
  Fixpoint dict_set (k : bytes) (v : V) (d : dict) : dict :=
    match d with
    | [] => [(k, v)]
    | (k', v') :: t => if bytes_eqb k k' then (k, v) :: t else (k', v') :: dict_set k v t
    end.
  Fixpoint dict_del (k : bytes) (d : dict) : dict :=
    match d with
    | [] => []
    | (k', v') :: t => if bytes_eqb k k' then t else (k', v') :: dict_del k t
    end.
  Definition dict_keys (d : dict) : list bytes := map fst d.
End Dict.
Arguments dict V : clear implicits.

(* ---- Python slicing with a possibly negative bound: l[:n] and l[n:] ---- *)
(* bounds are clamped to the length before conversion: Z.to_nat of a huge Content-Length must never be computed *)
Definition py_slice_to {A} (n : Z) (l : list A) : list A :=
  if (0 <=? n)%Z then firstn (Z.to_nat (Z.min n (Z.of_nat (length l)))) l
  else firstn (Z.to_nat (Z.of_nat (length l) + n)) l.
Definition py_slice_from {A} (n : Z) (l : list A) : list A :=
  if (0 <=? n)%Z then skipn (Z.to_nat (Z.min n (Z.of_nat (length l)))) l
  else skipn (Z.to_nat (Z.of_nat (length l) + n)) l.
