(* More characterising lemmas for Lib/PyStr.v (written for C15; generally useful):
   strip on already-stripped strings, lines without LF and split(CRLF, 1), split(b' ', 2) on a
   rendered start line, '{:x}'.format / str(int) (to_base) produce the digits of the number,
   insertion-ordered dict facts. *)
From PM Require Import Lib.Bytes Lib.BytesFacts Lib.PyStr Lib.PyStrFacts.
From Coq Require Import ZArith.

(* ------------------------------------------------------------------ strip *)
Lemma lstrip_app_ws ws l : forallb is_ws ws = true -> lstrip (ws ++ l) = lstrip l.
Proof.
  induction ws as [|x t IH]; intros H; [reflexivity|].
  cbn [forallb] in H. apply andb_true_iff in H as [Hx Ht]. cbn [app lstrip]. rewrite Hx. now apply IH.
Qed.

Lemma lstrip_cons_nws x t : is_ws x = false -> lstrip (x :: t) = x :: t.
Proof. intros H. cbn [lstrip]. now rewrite H. Qed.

Lemma rstrip_nws l : l <> [] -> is_ws (last l 0) = false -> rstrip l = l.
Proof.
  intros Hne Hl. unfold rstrip.
  destruct (exists_last Hne) as (l' & y & ->). rewrite last_last in Hl.
  rewrite rev_app_distr. cbn [rev app]. rewrite lstrip_cons_nws by exact Hl.
  change (y :: rev l') with ([y] ++ rev l'). rewrite rev_app_distr, rev_involutive. reflexivity.
Qed.

(* v.strip() == v for a string that neither starts nor ends with whitespace *)
Lemma strip_ends l :
  match l with [] => True | x :: _ => is_ws x = false /\ is_ws (last l 0) = false end -> strip l = l.
Proof.
  destruct l as [|x t]; intros H; [reflexivity|]. destruct H as [H1 H2].
  unfold strip. rewrite lstrip_cons_nws by exact H1. apply rstrip_nws; [discriminate|exact H2].
Qed.

Lemma rstrip_app_ws l ws : forallb is_ws ws = true -> rstrip (l ++ ws) = rstrip l.
Proof.
  intros H. unfold rstrip. rewrite rev_app_distr. rewrite lstrip_app_ws; [reflexivity|].
  rewrite forallb_forall in *. intros x Hx. apply H. now apply in_rev.
Qed.

(* (sz ++ pad).strip() == sz when sz has no whitespace at all and pad is only whitespace *)
Lemma strip_app_ws l ws : (forall x, In x l -> is_ws x = false) -> forallb is_ws ws = true ->
  strip (l ++ ws) = l.
Proof.
  intros Hl Hw. destruct l as [|x t].
  - cbn [app]. unfold strip. replace (lstrip ws) with (lstrip (ws ++ [])) by now rewrite app_nil_r.
    rewrite lstrip_app_ws by exact Hw. reflexivity.
  - unfold strip. cbn [app]. rewrite lstrip_cons_nws by (apply Hl; now left).
    change (x :: t ++ ws) with ((x :: t) ++ ws). rewrite rstrip_app_ws by exact Hw.
    apply rstrip_nws; [discriminate|]. apply Hl.
    destruct (exists_last (l := x :: t)) as (l' & y & E); [discriminate|]. rewrite E, last_last.
    apply in_or_app. right. now left.
Qed.

Lemma strip_nonempty_of_nws x l : In x l -> is_ws x = false -> strip l <> [].
Proof. intros Hi Hw E. pose proof (In_strip _ _ Hi Hw) as H. rewrite E in H. destruct H. Qed.

(* ------------------------------------------------------------------ lines *)
(* a line without LF is given back unchanged by split(CRLF, 1) whatever follows its CRLF *)
Lemma split_once_crlf_no_lf l rest : ~ In LF l -> split_once CRLF (l ++ CRLF ++ rest) = Some (l, rest).
Proof.
  induction l as [|x t IH]; intros H.
  - reflexivity.
  - cbn [app]. rewrite split_once_skip.
    + rewrite IH; [reflexivity|]. intros Hi. apply H. now right.
    + unfold CRLF. cbn [is_prefix]. destruct (N.eqb_spec 13 x) as [E|E]; [|reflexivity].
      cbn [andb]. destruct t as [|y t'].
      * reflexivity.
      * cbn [app]. destruct (N.eqb_spec 10 y) as [E2|E2]; [|reflexivity].
        exfalso. apply H. right. left. unfold LF. now symmetry.
Qed.

Lemma contains_crlf_no_lf l : ~ In LF l -> contains CRLF l = false.
Proof.
  induction l as [|x t IH]; intros H; [reflexivity|].
  cbn [contains]. unfold CRLF at 1. cbn [is_prefix].
  assert (Ht : ~ In LF t) by (intros Hi; apply H; now right).
  destruct (N.eqb_spec 13 x) as [E|E]; cbn [andb]; [|now apply IH].
  destruct t as [|y t']; [reflexivity|].
  destruct (N.eqb_spec 10 y) as [E2|E2]; cbn [andb]; [|now apply IH].
  exfalso. apply H. right. left. unfold LF. now symmetry.
Qed.

(* ------------------------------------------------------------------ split(b' ', 2) *)
Lemma splitn2_three c a b d : ~ In c a -> ~ In c b ->
  splitn [c] 2 (a ++ c :: b ++ c :: d) = [a; b; d].
Proof.
  intros Ha Hb.
  rewrite (splitn_S_some [c] 1 _ a (b ++ c :: d)) by (now apply split_once_byte_notin).
  rewrite (splitn_S_some [c] 0 _ b d) by (now apply split_once_byte_notin).
  reflexivity.
Qed.

Lemma splitn2_two c a b : ~ In c a -> ~ In c b -> splitn [c] 2 (a ++ c :: b) = [a; b].
Proof.
  intros Ha Hb.
  rewrite (splitn_S_some [c] 1 _ a b) by (now apply split_once_byte_notin).
  rewrite (splitn_S_none [c] 0 b) by (now apply split_once_byte_none).
  reflexivity.
Qed.

(* ------------------------------------------------------------------ to_base: str(n), '{:x}'.format(n) *)
(* value of a lower-case digit character *)
Definition char_val (x : N) : N := if is_digit x then x - 48 else x - 87.
Definition base_val (base : N) (l : bytes) (acc : N) : N := fold_left (fun a x => a * base + char_val x) l acc.
Definition base_digit (base : N) (x : N) : Prop := exists d, d < base /\ x = digit_char d.

Lemma char_val_digit_char d : d < 36 -> char_val (digit_char d) = d.
Proof.
  intros H. unfold char_val, digit_char, is_digit.
  destruct (N.ltb_spec d 10) as [L|L].
  - replace ((48 <=? 48 + d) && (48 + d <=? 57)) with true; [lia|].
    symmetry. apply andb_true_iff. split; apply N.leb_le; lia.
  - replace ((48 <=? 87 + d) && (87 + d <=? 57)) with false; [lia|].
    symmetry. apply andb_false_iff. right. apply N.leb_gt. lia.
Qed.

Lemma base_val_app base a b acc : base_val base (a ++ b) acc = base_val base b (base_val base a acc).
Proof. unfold base_val. apply fold_left_app. Qed.

Lemma to_base_aux_S f base n acc :
  to_base_aux (S f) base n acc =
  if n <? base then digit_char n :: acc
  else to_base_aux f base (n / base) (digit_char (n mod base) :: acc).
Proof. reflexivity. Qed.

Lemma to_base_aux_spec base : 2 <= base -> base <= 36 -> forall f n acc, n < 2 ^ N.of_nat (S f) ->
  exists ds, to_base_aux (S f) base n acc = ds ++ acc /\ ds <> [] /\ Forall (base_digit base) ds /\
             forall a, base_val base ds a = a * base ^ N.of_nat (length ds) + n.
Proof.
  intros Hb2 Hb36. induction f as [|f IH]; intros n acc Hn.
  - change (2 ^ N.of_nat 1) with 2 in Hn.
    rewrite to_base_aux_S. destruct (N.ltb_spec n base) as [L|L]; [|lia].
    exists [digit_char n]. repeat split.
    + discriminate.
    + constructor; [exists n; split; [exact L|reflexivity]|constructor].
    + intros a. unfold base_val. cbn [fold_left length]. rewrite char_val_digit_char by lia.
      change (N.of_nat 1) with 1. rewrite N.pow_1_r. reflexivity.
  - rewrite to_base_aux_S. destruct (N.ltb_spec n base) as [L|L].
    + exists [digit_char n]. repeat split.
      * discriminate.
      * constructor; [exists n; split; [exact L|reflexivity]|constructor].
      * intros a. unfold base_val. cbn [fold_left length]. rewrite char_val_digit_char by lia.
        change (N.of_nat 1) with 1. rewrite N.pow_1_r. reflexivity.
    + assert (Hq : n / base < 2 ^ N.of_nat (S f)).
      { rewrite Nat2N.inj_succ, N.pow_succ_r' in Hn.
        apply N.div_lt_upper_bound; [lia|].
        apply N.lt_le_trans with (2 * 2 ^ N.of_nat (S f)); [exact Hn|].
        apply N.mul_le_mono_r. exact Hb2. }
      destruct (IH (n / base) (digit_char (n mod base) :: acc) Hq) as (ds & E & Hne & Hd & Hv).
      exists (ds ++ [digit_char (n mod base)]). repeat split.
      * rewrite E. now rewrite <- app_assoc.
      * intros C. apply app_eq_nil in C. destruct C; discriminate.
      * apply Forall_app. split; [exact Hd|]. constructor; [|constructor].
        exists (n mod base). split; [apply N.mod_lt; lia|reflexivity].
      * intros a. rewrite base_val_app, Hv. unfold base_val at 1. cbn [fold_left].
        assert (Hm : n mod base < base) by (apply N.mod_lt; lia).
        rewrite char_val_digit_char by lia.
        rewrite app_length. cbn [length]. rewrite Nat.add_1_r, Nat2N.inj_succ, N.pow_succ_r'.
        pose proof (N.div_mod n base ltac:(lia)) as Hdm. nia.
Qed.

Lemma to_base_spec base n : 2 <= base -> base <= 36 ->
  exists ds, to_base base n = ds /\ ds <> [] /\ Forall (base_digit base) ds /\ base_val base ds 0 = n.
Proof.
  intros H2 H36. unfold to_base.
  assert (Hn : n < 2 ^ N.of_nat (S (N.to_nat (N.log2 n)))).
  { rewrite Nat2N.inj_succ, N2Nat.id. destruct n as [|p]; [reflexivity|].
    apply N.log2_spec. reflexivity. }
  destruct (to_base_aux_spec base H2 H36 _ n [] Hn) as (ds & E & Hne & Hd & Hv).
  exists ds. rewrite app_nil_r in E. repeat split; try assumption.
  rewrite Hv. lia.
Qed.

(* decimal: the digits of str(n) *)
Lemma base_digit_10 x : base_digit 10 x -> is_digit x = true.
Proof.
  intros (d & Hd & ->). unfold digit_char. destruct (N.ltb_spec d 10); [|lia].
  unfold is_digit. apply andb_true_iff. split; apply N.leb_le; lia.
Qed.

Lemma base_val_10_digits l : forallb is_digit l = true -> forall acc, base_val 10 l acc = digits_val_aux l acc.
Proof.
  induction l as [|x t IH]; intros H acc; [reflexivity|].
  cbn [forallb] in H. apply andb_true_iff in H as [Hx Ht].
  unfold base_val. cbn [fold_left digits_val_aux]. fold (base_val 10 t (acc * 10 + char_val x)).
  rewrite IH by exact Ht. unfold char_val. now rewrite Hx.
Qed.

Lemma dec_of_N_spec n :
  dec_of_N n <> [] /\ all_digits (dec_of_N n) = true /\ digits_val (dec_of_N n) = n.
Proof.
  destruct (to_base_spec 10 n ltac:(lia) ltac:(lia)) as (ds & E & Hne & Hd & Hv).
  unfold dec_of_N. rewrite E.
  assert (Ha : forallb is_digit ds = true).
  { apply forallb_forall. intros x Hx. apply base_digit_10. rewrite Forall_forall in Hd. now apply Hd. }
  repeat split; [exact Hne|exact Ha|]. unfold digits_val. now rewrite <- base_val_10_digits.
Qed.

(* int(str(n)) == n, below CPython's digit limit *)
Lemma int10_dec_of_N n : (length (dec_of_N n) <= int_limit)%nat -> int10 (dec_of_N n) = Ok (Z.of_N n).
Proof.
  intros Hl. destruct (dec_of_N_spec n) as (Hne & Hd & Hv).
  rewrite int10_digits by assumption. now rewrite Hv.
Qed.

(* ------------------------------------------------------------------ insertion-ordered dict *)
Section DictFacts.
  Context {V : Type}.
  Implicit Types d : dict V.

  Lemma dict_get_none_notin k d : dict_get k d = None <-> ~ In k (dict_keys d).
  Proof.
    induction d as [|[k' v'] t IH]; cbn [dict_get dict_keys map In fst]; [tauto|].
    destruct (bytes_eqb k k') eqn:E.
    - apply bytes_eqb_eq in E. subst. split; [discriminate|]. intros H. exfalso. apply H. now left.
    - rewrite IH. unfold dict_keys. split.
      + intros H [C|C]; [subst; rewrite bytes_eqb_refl in E; discriminate|contradiction].
      + intros H C. apply H. now right.
  Qed.

  (* d[k] = v for a new key appends *)
  Lemma dict_set_new k v d : ~ In k (dict_keys d) -> dict_set k v d = d ++ [(k, v)].
  Proof.
    induction d as [|[k' v'] t IH]; cbn [dict_set dict_keys map In fst app]; intros H; [reflexivity|].
    destruct (bytes_eqb k k') eqn:E.
    - apply bytes_eqb_eq in E. subst. exfalso. apply H. now left.
    - rewrite IH; [reflexivity|]. intros C. apply H. now right.
  Qed.

  Lemma dict_keys_set_new k v d : ~ In k (dict_keys d) -> dict_keys (dict_set k v d) = dict_keys d ++ [k].
  Proof. intros H. rewrite dict_set_new by exact H. unfold dict_keys. now rewrite map_app. Qed.

  (* assignment to an existing key keeps the position *)
  Lemma dict_keys_set_old k v d : In k (dict_keys d) -> dict_keys (dict_set k v d) = dict_keys d.
  Proof.
    induction d as [|[k' v'] t IH]; cbn [dict_set dict_keys map In fst]; intros H; [destruct H|].
    destruct (bytes_eqb k k') eqn:E.
    - apply bytes_eqb_eq in E. subst. reflexivity.
    - cbn [map fst]. f_equal. apply IH. destruct H as [C|C]; [|exact C].
      subst. rewrite bytes_eqb_refl in E. discriminate.
  Qed.

  Lemma dict_get_set_same k v d : dict_get k (dict_set k v d) = Some v.
  Proof.
    induction d as [|[k' v'] t IH]; cbn [dict_set dict_get].
    - now rewrite bytes_eqb_refl.
    - destruct (bytes_eqb k k') eqn:E; cbn [dict_get]; [now rewrite bytes_eqb_refl|now rewrite E].
  Qed.

  Lemma dict_get_set_other k k' v d : k <> k' -> dict_get k (dict_set k' v d) = dict_get k d.
  Proof.
    intros Hne. induction d as [|[k2 v2] t IH]; cbn [dict_set dict_get].
    - destruct (bytes_eqb k k') eqn:E; [apply bytes_eqb_eq in E; contradiction|reflexivity].
    - destruct (bytes_eqb k' k2) eqn:E; cbn [dict_get].
      + apply bytes_eqb_eq in E. subst k2.
        destruct (bytes_eqb k k') eqn:E2; [apply bytes_eqb_eq in E2; contradiction|reflexivity].
      + now rewrite IH.
  Qed.
End DictFacts.

(* a list is a Python dict when its keys are pairwise different *)
Lemma NoDup_snoc {A} (l : list A) x : NoDup l -> ~ In x l -> NoDup (l ++ [x]).
Proof.
  induction l as [|y t IH]; intros Hn Hi; cbn [app].
  - constructor; [intros []|constructor].
  - inversion Hn; subst. constructor.
    + intros C. apply in_app_or in C as [C|[C|[]]]; [contradiction|]. subst. apply Hi. now left.
    + apply IH; [assumption|]. intros C. apply Hi. now right.
Qed.

Section DictWf.
  Context {V : Type}.
  Implicit Types d : dict V.
  Definition dict_wf d : Prop := NoDup (dict_keys d).

  Lemma dict_wf_nil : dict_wf ([] : dict V).
  Proof. constructor. Qed.

  Lemma dict_keys_del_subset k k' d : In k (dict_keys (dict_del k' d)) -> In k (dict_keys d).
  Proof.
    induction d as [|[k2 v2] t IH]; cbn [dict_del dict_keys map fst In]; [tauto|].
    destruct (bytes_eqb k' k2); cbn [dict_keys map fst In]; [now right|].
    intros [H|H]; [now left|right; now apply IH].
  Qed.

  Lemma dict_wf_set k v d : dict_wf d -> dict_wf (dict_set k v d).
  Proof.
    unfold dict_wf. intros H. destruct (in_dec (list_eq_dec N.eq_dec) k (dict_keys d)) as [Hi|Hn].
    - now rewrite dict_keys_set_old.
    - rewrite dict_keys_set_new by exact Hn. now apply NoDup_snoc.
  Qed.

  Lemma dict_wf_del k d : dict_wf d -> dict_wf (dict_del k d).
  Proof.
    unfold dict_wf. induction d as [|[k2 v2] t IH]; cbn [dict_del dict_keys map fst]; intros H; [constructor|].
    inversion H; subst. destruct (bytes_eqb k k2); [assumption|].
    cbn [dict_keys map fst]. constructor; [|now apply IH].
    intros C. apply dict_keys_del_subset in C. contradiction.
  Qed.

  Lemma dict_get_del_same k d : dict_wf d -> dict_get k (dict_del k d) = None.
  Proof.
    unfold dict_wf. induction d as [|[k2 v2] t IH]; cbn [dict_del dict_keys map fst]; intros H; [reflexivity|].
    inversion H; subst. destruct (bytes_eqb k k2) eqn:E.
    - apply bytes_eqb_eq in E. subst. now apply dict_get_none_notin.
    - cbn [dict_get]. rewrite E. now apply IH.
  Qed.

  Lemma dict_get_del_other k k' d : k <> k' -> dict_get k (dict_del k' d) = dict_get k d.
  Proof.
    intros Hne. induction d as [|[k2 v2] t IH]; cbn [dict_del dict_get]; [reflexivity|].
    destruct (bytes_eqb k' k2) eqn:E.
    - apply bytes_eqb_eq in E. subst k2.
      destruct (bytes_eqb k k') eqn:E2; [apply bytes_eqb_eq in E2; contradiction|reflexivity].
    - cbn [dict_get]. now rewrite IH.
  Qed.
End DictWf.
