(* More characterising lemmas for Lib/PyStr.v (written for C15; generally useful). *)
From PM Require Import Lib.Bytes Lib.BytesFacts Lib.PyStr Lib.PyStrFacts.
From Coq Require Import ZArith.
