(* Lemmas about the integer-keyed ordered dict of Lib/ZDict.v.  All reasoning about dicts in the
   executor proofs goes through the extensional lemmas zget_zset / zget_zdel. *)
From PM Require Import Lib.ZDict.
From Coq Require Import List ZArith Bool Lia.
Import ListNotations.

Section Facts.
  Context {V : Type}.
  Implicit Types (d : zdict V) (k : Z) (v : V).

  Lemma zget_zset k k' v d :
    zget k (zset k' v d) = if Z.eqb k k' then Some v else zget k d.
  Proof.
    induction d as [|[a b] t IH]; cbn [zset zget].
    - destruct (Z.eqb k k'); reflexivity.
    - destruct (Z.eqb k' a) eqn:E1; cbn [zget].
      + apply Z.eqb_eq in E1; subst a. destruct (Z.eqb k k'); reflexivity.
      + rewrite IH. destruct (Z.eqb k a) eqn:E2; [|reflexivity].
        apply Z.eqb_eq in E2; subst a.
        destruct (Z.eqb k k') eqn:E3; [|reflexivity].
        apply Z.eqb_eq in E3; subst k'. rewrite Z.eqb_refl in E1; discriminate.
  Qed.

  Lemma zget_zset_same k v d : zget k (zset k v d) = Some v.
  Proof. rewrite zget_zset, Z.eqb_refl; reflexivity. Qed.

  Lemma zget_zset_other k k' v d : k <> k' -> zget k (zset k' v d) = zget k d.
  Proof. intros H. rewrite zget_zset. apply Z.eqb_neq in H. rewrite H; reflexivity. Qed.

  Lemma zget_zdel k k' d :
    zget k (zdel k' d) = if Z.eqb k k' then None else zget k d.
  Proof.
    induction d as [|[a b] t IH]; cbn [zdel zget].
    - destruct (Z.eqb k k'); reflexivity.
    - destruct (Z.eqb k' a) eqn:E1.
      + apply Z.eqb_eq in E1; subst a. rewrite IH. destruct (Z.eqb k k'); reflexivity.
      + cbn [zget]. rewrite IH. destruct (Z.eqb k a) eqn:E2; [|reflexivity].
        apply Z.eqb_eq in E2; subst a.
        destruct (Z.eqb k k') eqn:E3; [|reflexivity].
        apply Z.eqb_eq in E3; subst k'. rewrite Z.eqb_refl in E1; discriminate.
  Qed.

  Lemma zget_zdel_same k d : zget k (zdel k d) = None.
  Proof. rewrite zget_zdel, Z.eqb_refl; reflexivity. Qed.

  Lemma zget_zdel_other k k' d : k <> k' -> zget k (zdel k' d) = zget k d.
  Proof. intros H. rewrite zget_zdel. apply Z.eqb_neq in H. rewrite H; reflexivity. Qed.

  Lemma zmem_zget k d : zmem k d = true <-> zget k d <> None.
  Proof. unfold zmem. destruct (zget k d); split; congruence. Qed.

  Lemma zmem_false k d : zmem k d = false <-> zget k d = None.
  Proof. unfold zmem. destruct (zget k d); split; congruence. Qed.

  Lemma zmem_some k d v : zget k d = Some v -> zmem k d = true.
  Proof. unfold zmem. intros ->. reflexivity. Qed.

  Lemma zmem_zset k k' v d : zmem k (zset k' v d) = Z.eqb k k' || zmem k d.
  Proof. unfold zmem. rewrite zget_zset. destruct (Z.eqb k k'); reflexivity. Qed.

  Lemma zmem_zdel k k' d : zmem k (zdel k' d) = negb (Z.eqb k k') && zmem k d.
  Proof. unfold zmem. rewrite zget_zdel. destruct (Z.eqb k k'); reflexivity. Qed.

  Lemma zin_In k l : zin k l = true <-> In k l.
  Proof.
    induction l as [|x t IH]; cbn [zin In]; [split; [discriminate|tauto]|].
    rewrite orb_true_iff, IH, Z.eqb_eq. split; intros [H|H]; auto.
  Qed.

  Lemma zkeys_zget k d : In k (zkeys d) <-> zget k d <> None.
  Proof.
    induction d as [|[a b] t IH]; cbn [zkeys map zget In fst].
    - split; [tauto|congruence].
    - destruct (Z.eqb k a) eqn:E.
      + apply Z.eqb_eq in E. split; [congruence|auto].
      + apply Z.eqb_neq in E. unfold zkeys in IH. rewrite <- IH. split; [intros [H|H]; congruence || auto|auto].
  Qed.

  Lemma zin_zkeys k d : zin k (zkeys d) = zmem k d.
  Proof.
    destruct (zmem k d) eqn:E.
    - apply zin_In, zkeys_zget, zmem_zget; assumption.
    - destruct (zin k (zkeys d)) eqn:E2; [|reflexivity].
      apply zin_In, zkeys_zget, zmem_zget in E2. congruence.
  Qed.

  (* setting an existing key does not change the key list (dict order is preserved) *)
  Lemma zkeys_zset_mem k v d : zmem k d = true -> zkeys (zset k v d) = zkeys d.
  Proof.
    unfold zmem, zkeys. induction d as [|[a b] t IH]; cbn [zset zget map fst]; [discriminate|].
    destruct (Z.eqb k a) eqn:E; cbn [map fst].
    - apply Z.eqb_eq in E; subst; reflexivity.
    - intros H. rewrite IH; [reflexivity|assumption].
  Qed.

  Lemma zkeys_zset_new k v d : zmem k d = false -> zkeys (zset k v d) = zkeys d ++ [k].
  Proof.
    unfold zmem, zkeys. induction d as [|[a b] t IH]; cbn [zset zget map fst app]; [reflexivity|].
    destruct (Z.eqb k a) eqn:E; [discriminate|]. cbn [map fst]. intros H. rewrite IH; [reflexivity|assumption].
  Qed.

  Lemma zdel_absent k d : zget k d = None -> zdel k d = d.
  Proof.
    induction d as [|[a b] t IH]; cbn [zdel zget]; [reflexivity|].
    destruct (Z.eqb k a); [discriminate|]. intros H. rewrite IH; [reflexivity|assumption].
  Qed.

  Definition znodup d := NoDup (zkeys d).

  Lemma NoDup_snoc (l : list Z) k : NoDup l -> ~ In k l -> NoDup (l ++ [k]).
  Proof.
    induction l as [|x t IH]; cbn [app]; intros Hn Hk.
    - constructor; [intros []|constructor].
    - inversion Hn as [|? ? Hx Ht]; subst. constructor.
      + rewrite in_app_iff. cbn [In]. intros [H|[H|[]]]; [auto|subst; apply Hk; left; reflexivity].
      + apply IH; [assumption|]. intros H; apply Hk; right; assumption.
  Qed.

  Lemma znodup_zset k v d : znodup d -> znodup (zset k v d).
  Proof.
    unfold znodup. intros H. destruct (zmem k d) eqn:E.
    - rewrite zkeys_zset_mem by assumption. assumption.
    - rewrite zkeys_zset_new by assumption. apply NoDup_snoc; [assumption|].
      intros Hin. apply zkeys_zget in Hin. apply zmem_false in E. congruence.
  Qed.

  Lemma zkeys_zdel_In k k' d : In k (zkeys (zdel k' d)) -> In k (zkeys d).
  Proof. rewrite !zkeys_zget, zget_zdel. destruct (Z.eqb k k'); congruence. Qed.

  Lemma znodup_zdel k d : znodup d -> znodup (zdel k d).
  Proof.
    unfold znodup. induction d as [|[a b] t IH]; cbn [zdel zkeys map fst]; intros H; [constructor|].
    inversion H as [|? ? Hx Ht]; subst.
    destruct (Z.eqb k a); [apply IH; assumption|].
    cbn [zkeys map fst]. constructor; [|apply IH; assumption].
    intros Hin. apply Hx. eapply zkeys_zdel_In; exact Hin.
  Qed.
End Facts.
