From PM Require Import Lib.Bytes.

Lemma bytes_eqb_eq x y : bytes_eqb x y = true <-> x = y.
Proof.
  revert y; induction x as [|a x IH]; intros [|c y]; cbn; split; try easy.
  - intros H; apply andb_true_iff in H as [H1 H2]. apply N.eqb_eq in H1. apply IH in H2. now subst.
  - intros H; inversion H; subst. rewrite N.eqb_refl. cbn. now apply IH.
Qed.

Lemma bytes_eqb_refl x : bytes_eqb x x = true.
Proof. now apply bytes_eqb_eq. Qed.

Lemma is_prefix_app p l c : is_prefix p l = true -> is_prefix p (l ++ c) = true.
Proof.
  revert l; induction p as [|x p IH]; intros [|y l]; cbn; try easy.
  intros H; apply andb_true_iff in H as [H1 H2]. rewrite H1, (IH _ H2). reflexivity.
Qed.

Lemma is_prefix_length p l : is_prefix p l = true -> (length p <= length l)%nat.
Proof.
  revert l; induction p as [|x p IH]; intros [|y l]; cbn; try easy; try lia.
  intros H; apply andb_true_iff in H as [_ H2]. specialize (IH _ H2). lia.
Qed.

Lemma is_prefix_false_app p l c :
  is_prefix p l = false -> (length p <= length l)%nat -> is_prefix p (l ++ c) = false.
Proof.
  revert l; induction p as [|x p IH]; intros [|y l]; cbn; try easy; try lia.
  intros H Hl. apply andb_false_iff in H as [H|H].
  - rewrite H. reflexivity.
  - rewrite (IH l H) by lia. apply andb_false_r.
Qed.

Lemma is_prefix_self_app p l : is_prefix p (p ++ l) = true.
Proof. induction p as [|x p IH]; cbn; [reflexivity|]. now rewrite N.eqb_refl. Qed.

Lemma is_prefix_skipn p l : is_prefix p l = true -> l = p ++ skipn (length p) l.
Proof.
  revert l; induction p as [|s p IHp]; intros l E; [reflexivity|].
  destruct l as [|d l]; [discriminate|]. cbn in E. apply andb_true_iff in E as [E1 E2].
  apply N.eqb_eq in E1; subst. cbn. f_equal. apply IHp, E2.
Qed.

Lemma split_once_length sep l x y : split_once sep l = Some (x, y) -> (length sep <= length l)%nat.
Proof.
  revert x y; induction l as [|c t IH]; intros x y; cbn [split_once].
  - destruct (is_prefix sep []) eqn:E; [|discriminate]. intros _. now apply is_prefix_length in E.
  - destruct (is_prefix sep (c :: t)) eqn:E.
    + intros _. now apply is_prefix_length in E.
    + destruct (split_once sep t) as [[x' y']|] eqn:E'; [|discriminate].
      intros _. specialize (IH _ _ eq_refl). cbn; lia.
Qed.

Lemma split_once_app sep l c x y :
  split_once sep l = Some (x, y) -> split_once sep (l ++ c) = Some (x, y ++ c).
Proof.
  revert x y; induction l as [|d t IH]; intros x y; cbn [split_once app].
  - destruct (is_prefix sep []) eqn:E; [|discriminate].
    intros H; inversion H; subst; clear H.
    assert (length sep = 0%nat) by (apply is_prefix_length in E; cbn in E; lia).
    destruct sep; [|discriminate]. cbn. destruct c; reflexivity.
  - destruct (is_prefix sep (d :: t)) eqn:E.
    + intros H; inversion H; subst; clear H.
      change (d :: t ++ c) with ((d :: t) ++ c).
      rewrite (is_prefix_app _ _ c E).
      rewrite skipn_app. apply is_prefix_length in E.
      replace (length sep - length (d :: t))%nat with 0%nat by lia. reflexivity.
    + destruct (split_once sep t) as [[x' y']|] eqn:E'; [|discriminate].
      intros H; inversion H; subst; clear H.
      change (d :: t ++ c) with ((d :: t) ++ c).
      rewrite (is_prefix_false_app _ _ c E).
      2:{ apply split_once_length in E'. cbn; lia. }
      cbn [app]. rewrite (IH _ _ eq_refl). reflexivity.
Qed.

Lemma split_once_sound sep l x y : split_once sep l = Some (x, y) -> l = x ++ sep ++ y.
Proof.
  revert x y; induction l as [|c t IH]; intros x y; cbn [split_once].
  - destruct (is_prefix sep []) eqn:E; [|discriminate]. intros H; inversion H; subst.
    apply is_prefix_length in E. destruct sep; [reflexivity|cbn in E; lia].
  - destruct (is_prefix sep (c :: t)) eqn:E.
    + intros H; inversion H; subst. clear H. cbn [app]. apply is_prefix_skipn, E.
    + destruct (split_once sep t) as [[x' y']|] eqn:E'; [|discriminate].
      intros H; inversion H; subst. rewrite (IH _ _ eq_refl) at 1. reflexivity.
Qed.

Lemma split_once_shrinks sep l x y :
  split_once sep l = Some (x, y) -> (length y + length sep <= length l)%nat.
Proof. intros H. apply split_once_sound in H. subst. rewrite !app_length. lia. Qed.

Lemma wf_bytes_app x y : wf_bytes (x ++ y) = wf_bytes x && wf_bytes y.
Proof. unfold wf_bytes. apply forallb_app. Qed.

Lemma take_drop n l : take n l ++ drop n l = l.
Proof. unfold take, drop. apply firstn_skipn. Qed.

Lemma take_firstn n l : take n l = firstn (N.to_nat n) l.
Proof.
  unfold take, len. destruct (N.le_ge_cases n (N.of_nat (length l))) as [H|H].
  - now rewrite N.min_l.
  - rewrite N.min_r, Nat2N.id by assumption. rewrite firstn_all. symmetry. apply firstn_all2. lia.
Qed.

Lemma drop_skipn n l : drop n l = skipn (N.to_nat n) l.
Proof.
  unfold drop, len. destruct (N.le_ge_cases n (N.of_nat (length l))) as [H|H].
  - now rewrite N.min_l.
  - rewrite N.min_r, Nat2N.id by assumption. rewrite skipn_all. symmetry. apply skipn_all2. lia.
Qed.

Lemma take_app_exact x y : take (len x) (x ++ y) = x.
Proof.
  rewrite take_firstn. unfold len. rewrite Nat2N.id, firstn_app, Nat.sub_diag, firstn_all. cbn. apply app_nil_r.
Qed.

Lemma drop_app_exact x y : drop (len x) (x ++ y) = y.
Proof.
  rewrite drop_skipn. unfold len. rewrite Nat2N.id, skipn_app, Nat.sub_diag, skipn_all. reflexivity.
Qed.
