(* Python-semantics layer: insertion-ordered dict keyed by integers (descriptor numbers, work
   ids).  [zset] replaces in place when the key exists, else appends (CPython dict order);
   [zdel] removes the entry.  Definitions only; lemmas in ZDictFacts.v. *)
From Coq Require Export List ZArith Bool Lia.
Export ListNotations.

Section ZDict.
  Context {V : Type}.
  Definition zdict := list (Z * V).

  Fixpoint zget (k : Z) (d : zdict) : option V :=
    match d with
    | [] => None
    | (k', v) :: t => if Z.eqb k k' then Some v else zget k t
    end.

  Definition zmem (k : Z) (d : zdict) : bool :=
    match zget k d with Some _ => true | None => false end.

  Fixpoint zset (k : Z) (v : V) (d : zdict) : zdict :=
    match d with
    | [] => [(k, v)]
    | (k', v') :: t => if Z.eqb k k' then (k, v) :: t else (k', v') :: zset k v t
    end.

  Fixpoint zdel (k : Z) (d : zdict) : zdict :=
    match d with
    | [] => []
    | (k', v') :: t => if Z.eqb k k' then zdel k t else (k', v') :: zdel k t
    end.

  Definition zkeys (d : zdict) : list Z := map fst d.
End ZDict.
Arguments zdict V : clear implicits.

Fixpoint zin (k : Z) (l : list Z) : bool :=
  match l with
  | [] => false
  | x :: t => Z.eqb k x || zin k t
  end.
