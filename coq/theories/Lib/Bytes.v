(* Python-semantics layer, part 1: bytes, results, exceptions, searching and splitting.
   Definitions only; lemmas live in BytesFacts.v. *)
From Coq Require Export String Ascii.
From Coq Require Export List NArith Arith Bool Lia.
Export ListNotations.
Open Scope N_scope.

Definition bytes := list N.

(* the exceptions the anchored Python code can raise, as data *)
Inductive exn :=
| ValueError | IndexError | KeyError | AssertionError | UnicodeDecodeError
| StructError | TypeError | HttpProtocolException (k : N) | OSError (k : N) | OutOfFuel.

Inductive result (A : Type) := Ok (a : A) | Err (e : exn).
Arguments Ok {A} a.
Arguments Err {A} e.

Definition bind {A B} (r : result A) (f : A -> result B) : result B :=
  match r with Ok a => f a | Err e => Err e end.
Notation "'do' x <- r ; k" := (bind r (fun x => k)) (at level 200, x name, r at level 100, k at level 200).
Notation "'do' ' p <- r ; k" := (bind r (fun x => match x with p => k end))
  (at level 200, p pattern, r at level 100, k at level 200).

Definition exn_code (e : exn) : N :=
  match e with
  | ValueError => 1 | IndexError => 2 | KeyError => 3 | AssertionError => 4
  | UnicodeDecodeError => 5 | StructError => 6 | TypeError => 7
  | HttpProtocolException _ => 100 | OSError _ => 200 | OutOfFuel => 99
  end.

Fixpoint bytes_of_string (s : string) : bytes :=
  match s with
  | EmptyString => []
  | String c t => N_of_ascii c :: bytes_of_string t
  end.
Definition bs := bytes_of_string.
Arguments bs s%string.
Arguments bytes_of_string s%string.

Definition wf_byte (x : N) : bool := x <? 256.
Definition wf_bytes (l : bytes) : bool := forallb wf_byte l.

Fixpoint bytes_eqb (x y : bytes) : bool :=
  match x, y with
  | [], [] => true
  | a :: x', c :: y' => N.eqb a c && bytes_eqb x' y'
  | _, _ => false
  end.

Definition len (l : bytes) : N := N.of_nat (length l).

(* compact descriptor for long payloads used by the correspondence harness:
   [bpat p n] is the first n bytes of p repeated for ever (p non-empty) *)
Fixpoint bpat_aux (p cur : bytes) (n : nat) : bytes :=
  match n with
  | O => []
  | S n' => match cur with
            | [] => match p with [] => [] | x :: t => x :: bpat_aux p t n' end
            | x :: t => x :: bpat_aux p t n'
            end
  end.
Definition bpat (p : bytes) (n : N) : bytes := bpat_aux p p (N.to_nat n).

Fixpoint is_prefix (p l : bytes) : bool :=
  match p, l with
  | [], _ => true
  | x :: p', y :: l' => N.eqb x y && is_prefix p' l'
  | _ :: _, [] => false
  end.

(* bytes.split(sep, 1): None when sep does not occur *)
Fixpoint split_once (sep l : bytes) : option (bytes * bytes) :=
  if is_prefix sep l then Some ([], skipn (length sep) l) else
  match l with
  | [] => None
  | x :: t => match split_once sep t with Some (a, c) => Some (x :: a, c) | None => None end
  end.

Definition CR : N := 13.
Definition LF : N := 10.
Definition CRLF : bytes := [13; 10].
Definition SP : N := 32.
Definition COLON : N := 58.

(* Python slices raw[:n], raw[n:] for n >= 0 *)
(* the bound is clamped to the length first: N.to_nat of a huge length field must never be computed *)
Definition take (n : N) (l : bytes) : bytes := firstn (N.to_nat (N.min n (len l))) l.
Definition drop (n : N) (l : bytes) : bytes := skipn (N.to_nat (N.min n (len l))) l.

(* list helpers for the correspondence files *)
Fixpoint mismatches_aux {A} (f : A -> bool) (l : list A) (i : N) : list N :=
  match l with
  | [] => []
  | x :: t => if f x then mismatches_aux f t (i + 1) else i :: mismatches_aux f t (i + 1)
  end.
Definition mismatches {A} (f : A -> bool) (l : list A) : list N := mismatches_aux f l 0.

Definition option_eqb {A} (eqb : A -> A -> bool) (x y : option A) : bool :=
  match x, y with
  | None, None => true
  | Some a, Some c => eqb a c
  | _, _ => false
  end.
