(* Correspondence relation for C19: a case carries a configuration, what the kernel and CPython
   answered during the live run (results of the TCP binds in call order, iteration order of the two
   sets, pid, pre-existing files) and everything observed on the implementation; check_case runs
   proxy_setup / proxy_shutdown of Boot/Listen.v with those answers as the oracle and compares. *)
From PM Require Import Lib.Bytes Lib.PyStr Boot.Listen.

Fixpoint list_eqb {A} (eqb : A -> A -> bool) (x y : list A) : bool :=
  match x, y with
  | [], [] => true
  | a :: x', b :: y' => eqb a b && list_eqb eqb x' y'
  | _, _ => false
  end.

Fixpoint nodup_by {A} (eqb : A -> A -> bool) (l : list A) : list A :=
  match l with
  | [] => []
  | x :: t => if mem eqb x t then nodup_by eqb t else x :: nodup_by eqb t
  end.

(* a set-iteration oracle that follows an observed order: the elements of l in the order in which
   they occur in [order]; elements the observation does not mention come last.  When [order] is a
   duplicate-free enumeration of l this is [order] itself, otherwise the comparison below fails. *)
Definition order_by {A} (eqb : A -> A -> bool) (order l : list A) : list A :=
  filter (fun x => mem eqb x l) order ++ nodup_by eqb (filter (fun x => negb (mem eqb x order)) l).

Definition obs_os (binds : list (option N)) (host_order : list addr) (port_order : list N) (pid : N)
  : os_oracle :=
  {| sock_bind := fun k _ _ => match nth_error binds k with
                               | Some (Some q) => Ok q
                               | _ => Err (OSError 0)
                               end;
     set_hosts := order_by addr_eqb host_order;
     set_ports := order_by N.eqb port_order;
     getpid := pid |}.

Record started := {
  e_port : N;                      (* Proxy.flags.port *)
  e_ports : list N;                (* Proxy.flags.ports *)
  e_pool : list listener;          (* Proxy.listeners.pool: (hostname, port, _port) / unix path *)
  e_pid_file : option bytes;       (* content of the configured files after start-up *)
  e_port_file : option bytes;
  e_unix_socket : bool;            (* the unix path exists and is a socket *)
  e_acceptors : nat;               (* len(Proxy.acceptors.acceptors) *)
  e_executors : nat;               (* number of executor processes *)
  e_children : nat;                (* live child processes seen in /proc *)
  e_listening : nat;               (* listening sockets of the process seen in /proc/net *)
  e_after_err : option N;          (* exception of Proxy.shutdown *)
  e_after_files : list bool;       (* pid file, port file, unix path still exist *)
  e_after_listening : nat;
  e_after_children : nat
}.

Inductive expected := Started (s : started) | SetupErr (code : N).

Inductive case :=
| Case (c : config) (binds : list (option N)) (host_order : list addr) (port_order : list N)
       (pid : N) (pre : list (path * fkind)) (e : expected).

Definition file_content (o : option path) (w : world) : option bytes :=
  match o with
  | Some f => match fs w f with Some (Regular b) => Some b | _ => None end
  | None => None
  end.
Definition opt_exists (o : option path) (w : world) : bool :=
  match o with Some f => path_exists f w | None => false end.

Definition check_case (cs : case) : bool :=
  match cs with
  | Case c binds host_order port_order pid pre e =>
      let os := obs_os binds host_order port_order pid in
      let w0 := {| fs := fs_of_list pre; listening := []; children := [] |} in
      match proxy_setup os c w0, e with
      | Err ex, SetupErr code => exn_code ex =? code
      | Ok (p, w1), Started s =>
          (port (flags p) =? e_port s) &&
          list_eqb N.eqb (ports (flags p)) (e_ports s) &&
          list_eqb listener_eqb (listeners p) (e_pool s) &&
          option_eqb bytes_eqb (file_content (pid_file c) w1) (e_pid_file s) &&
          option_eqb bytes_eqb (file_content (port_file c) w1) (e_port_file s) &&
          Bool.eqb (match unix_socket_path c with
                    | Some u => match fs w1 u with Some SocketFile => true | _ => false end
                    | None => false end) (e_unix_socket s) &&
          Nat.eqb (length (acceptors p)) (e_acceptors s) &&
          Nat.eqb (length (executors p)) (e_executors s) &&
          Nat.eqb (length (children w1)) (e_children s) &&
          Nat.eqb (length (listening w1)) (e_listening s) &&
          match proxy_shutdown p w1, e_after_err s with
          | Err ex, Some code => exn_code ex =? code
          | Ok w2, None =>
              list_eqb Bool.eqb
                [opt_exists (pid_file c) w2; opt_exists (port_file c) w2; opt_exists (unix_socket_path c) w2]
                (e_after_files s) &&
              Nat.eqb (length (listening w2)) (e_after_listening s) &&
              Nat.eqb (length (children w2)) (e_after_children s)
          | _, _ => false
          end
      | _, _ => false
      end
  end.
