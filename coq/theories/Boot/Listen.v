(* C19 — start-up and shutdown of the proxy: which endpoints are bound, which ports are reported,
   what is left after shutdown.  Model of (the REPAIRED, see proposed_fixes/C19-primary-port-first.diff)
     proxy/core/listener/pool.py   ListenerPool.setup / add / shutdown
     proxy/core/listener/tcp.py    TcpSocketListener.listen          (bind + getsockname = oracle)
     proxy/core/listener/unix.py   UnixSocketListener.listen / shutdown
     proxy/core/listener/base.py   BaseListener.setup / shutdown
     proxy/proxy.py                Proxy.setup / shutdown / _write_pid_file / _delete_pid_file /
                                   _write_port_file / _delete_port_file / remote_executors_enabled
     proxy/core/acceptor/pool.py   AcceptorPool.setup / shutdown     (spawn / join only)
     proxy/core/work/pool.py       ThreadlessPool.setup / shutdown   (spawn / join only)
   Definitions only; lemmas are in ListenFacts.v.

   The kernel and CPython enter as the Section variable [os]:
     sock_bind k h p   result of the k-th TCP  socket();bind((h, p));listen();getsockname()[1]
                       of this start-up (Ok actual_port | Err OSError)
     set_hosts l       iteration order of the Python set built from the list l
     set_ports l       idem for a set of ints
     getpid            os.getpid()
   Scope: --enable-events, --enable-ssh-tunnel, --enable-metrics off (the defaults). *)
From PM Require Import Lib.Bytes Lib.PyStr.

(* ipaddress.IPv4Address / IPv6Address: equal iff same version and same integer *)
Inductive addr := V4 (n : N) | V6 (n : N).
Definition addr_eqb (a b : addr) : bool :=
  match a, b with
  | V4 x, V4 y => x =? y
  | V6 x, V6 y => x =? y
  | _, _ => false
  end.

Definition path := bytes.

(* the flags the anchored code reads (after FlagParser.initialize) *)
Record config := {
  hostname : addr;
  hostnames : list addr;
  port : N;
  ports : list N;
  unix_socket_path : option path;   (* None or '' = falsy *)
  port_file : option path;
  pid_file : option path;
  threadless : bool;
  local_executor : bool;
  num_acceptors : nat;
  num_workers : nat
}.

(* flags.port = p; flags.ports = ps *)
Definition with_ports (c : config) (p : N) (ps : list N) : config :=
  {| hostname := hostname c; hostnames := hostnames c; port := p; ports := ps;
     unix_socket_path := unix_socket_path c; port_file := port_file c; pid_file := pid_file c;
     threadless := threadless c; local_executor := local_executor c;
     num_acceptors := num_acceptors c; num_workers := num_workers c |}.

(* a listener object of ListenerPool.pool: TcpSocketListener(hostname, port) with _port set by
   listen(), or UnixSocketListener (path = flags.unix_socket_path) *)
Inductive listener :=
| TcpL (h : addr) (p : N) (_port : N)
| UnixL (u : path).

Definition listener_eqb (a b : listener) : bool :=
  match a, b with
  | TcpL h p q, TcpL h' p' q' => addr_eqb h h' && (p =? p') && (q =? q')
  | UnixL u, UnixL u' => bytes_eqb u u'
  | _, _ => false
  end.

Definition is_tcp (l : listener) : bool := match l with TcpL _ _ _ => true | UnixL _ => false end.
(* the actual port of a TCP listener (0 for the unix listener, which has none) *)
Definition l_port (l : listener) : N := match l with TcpL _ _ q => q | UnixL _ => 0 end.

(* ---- the world outside the Proxy object ---- *)
Inductive fkind := Regular (content : bytes) | SocketFile.
Inductive child := AcceptorProc (i : nat) | ExecutorProc (i : nat).
Definition child_eqb (a b : child) : bool :=
  match a, b with
  | AcceptorProc i, AcceptorProc j => Nat.eqb i j
  | ExecutorProc i, ExecutorProc j => Nat.eqb i j
  | _, _ => false
  end.

Definition fsmap := path -> option fkind.
Definition fs_set (f : path) (k : fkind) (m : fsmap) : fsmap :=
  fun g => if bytes_eqb g f then Some k else m g.
Definition fs_del (f : path) (m : fsmap) : fsmap :=
  fun g => if bytes_eqb g f then None else m g.
Fixpoint fs_of_list (l : list (path * fkind)) : fsmap :=
  match l with
  | [] => fun _ => None
  | (f, k) :: t => fs_set f k (fs_of_list t)
  end.

Record world := {
  fs : fsmap;                    (* directory entries the proxy may touch *)
  listening : list listener;     (* listening sockets held open by this process *)
  children : list child          (* live child processes of this process *)
}.
Definition set_fs (m : fsmap) (w : world) : world :=
  {| fs := m; listening := listening w; children := children w |}.
Definition set_listening (l : list listener) (w : world) : world :=
  {| fs := fs w; listening := l; children := children w |}.
Definition set_children (l : list child) (w : world) : world :=
  {| fs := fs w; listening := listening w; children := l |}.

(* ---- oracles ---- *)
Record os_oracle := {
  sock_bind : nat -> addr -> N -> result N;
  set_hosts : list addr -> list addr;
  set_ports : list N -> list N;
  getpid : N
}.

(* open(f, 'wb').write(c): creates or truncates; a socket file cannot be opened (ENXIO) *)
Definition write_file (f : path) (c : bytes) (w : world) : result world :=
  match fs w f with
  | Some SocketFile => Err (OSError 0)
  | _ => Ok (set_fs (fs_set f (Regular c) (fs w)) w)
  end.
(* os.remove(f): FileNotFoundError when absent *)
Definition os_remove (f : path) (w : world) : result world :=
  match fs w f with
  | None => Err (OSError 0)
  | Some _ => Ok (set_fs (fs_del f (fs w)) w)
  end.
Definition path_exists (f : path) (w : world) : bool :=
  match fs w f with Some _ => true | None => false end.

Fixpoint remove_one {A} (eqb : A -> A -> bool) (x : A) (l : list A) : list A :=
  match l with
  | [] => []
  | y :: t => if eqb x y then t else y :: remove_one eqb x t
  end.
Fixpoint mem {A} (eqb : A -> A -> bool) (x : A) (l : list A) : bool :=
  match l with [] => false | y :: t => eqb x y || mem eqb x t end.

(* itertools.product(xs, ys) = Coq's list_prod (outer loop over xs) *)
Definition product {A B} (xs : list A) (ys : list B) : list (A * B) := list_prod xs ys.

(* bytes_(n) + b'\n' for every reported port *)
Definition port_lines (l : list N) : bytes := flat_map (fun q => dec_of_N q ++ [LF]) l.

Section Model.
Variable os : os_oracle.

(* ---------------- listener/tcp.py, unix.py, base.py ---------------- *)
(* ListenerPool.add(TcpSocketListener, hostname=h, port=p): construct, setup() = listen(), append *)
Definition tcp_listen (k : nat) (h : addr) (p : N) (w : world) : result (listener * world) :=
  do q <- sock_bind os k h p;
  let l := TcpL h p q in
  Ok (l, set_listening (listening w ++ [l]) w).

(* UnixSocketListener.listen: bind(path) creates the socket file; EADDRINUSE when the path exists *)
Definition unix_listen (u : path) (w : world) : result (listener * world) :=
  if path_exists u w then Err (OSError 0) else
  let l := UnixL u in
  Ok (l, set_listening (listening w ++ [l]) (set_fs (fs_set u SocketFile (fs w)) w)).

(* BaseListener.shutdown: socket.close(); UnixSocketListener.shutdown additionally os.remove(path) *)
Definition listener_shutdown (l : listener) (w : world) : result world :=
  let w1 := set_listening (remove_one listener_eqb l (listening w)) w in
  match l with
  | TcpL _ _ _ => Ok w1
  | UnixL u => os_remove u w1
  end.

(* ---------------- listener/pool.py ---------------- *)
(* the for-loop over itertools.product(hostnames, ports); k counts the TCP binds so far *)
Fixpoint add_all (k : nat) (pairs : list (addr * N)) (w : world) : result (list listener * world) :=
  match pairs with
  | [] => Ok ([], w)
  | (h, p) :: t =>
      do ' (l, w1) <- tcp_listen k h p w;
      do ' (ls, w2) <- add_all (S k) t w1;
      Ok (l :: ls, w2)
  end.

(* ports = list(flags.ports); if not unix_socket_path: ports.insert(0, flags.port)   [repaired] *)
Definition tcp_ports (c : config) : list N :=
  match unix_socket_path c with
  | Some _ => ports c
  | None => port c :: ports c
  end.

(* ListenerPool.setup: returns self.pool *)
Definition pool_setup (c : config) (w : world) : result (list listener * world) :=
  do ' (pool0, w0) <-
     match unix_socket_path c with
     | Some u => do ' (l, w') <- unix_listen u w; Ok ([l], w')
     | None => Ok ([], w)
     end;
  let hosts := set_hosts os (hostname c :: hostnames c) in
  do ' (ls, w1) <- add_all 0 (product hosts (tcp_ports c)) w0;
  Ok (pool0 ++ ls, w1).

(* ListenerPool.shutdown: for listener in self.pool: listener.shutdown() *)
Fixpoint pool_shutdown (pool : list listener) (w : world) : result world :=
  match pool with
  | [] => Ok w
  | l :: t => do w1 <- listener_shutdown l w; pool_shutdown t w1
  end.

(* ---------------- proxy.py ---------------- *)
Record proxy := {
  flags : config;
  listeners : list listener;      (* self.listeners.pool *)
  acceptors : list child;         (* self.acceptors.acceptors *)
  executors : list child          (* self.executors._processes *)
}.

Definition remote_executors_enabled (c : config) : bool :=
  threadless c && negb (local_executor c).

Definition write_pid_file (c : config) (w : world) : result world :=
  match pid_file c with
  | Some f => write_file f (dec_of_N (getpid os)) w
  | None => Ok w
  end.

Definition write_port_file (c : config) (w : world) : result world :=
  match port_file c with
  | Some f =>
      write_file f
        ((match unix_socket_path c with None => dec_of_N (port c) ++ [LF] | Some _ => [] end)
         ++ port_lines (ports c)) w
  | None => Ok w
  end.

Definition delete_file_if_exists (o : option path) (w : world) : world :=
  match o with
  | Some f => if path_exists f w then set_fs (fs_del f (fs w)) w else w
  | None => w
  end.
Definition delete_port_file (c : config) (w : world) : world := delete_file_if_exists (port_file c) w.
Definition delete_pid_file (c : config) (w : world) : world := delete_file_if_exists (pid_file c) w.

(* cast(TcpSocketListener, pool[i])._port : IndexError past the end; a unix listener has no _port
   (AttributeError, rendered TypeError here; never reached, see ListenFacts.read_ports_block) *)
Definition nth_port (pool : list listener) (i : nat) : result N :=
  match nth_error pool i with
  | Some (TcpL _ _ q) => Ok q
  | Some (UnixL _) => Err TypeError
  | None => Err IndexError
  end.
Fixpoint read_ports (pool : list listener) (idx : list nat) : result (list N) :=
  match idx with
  | [] => Ok []
  | i :: t => do q <- nth_port pool i; do qs <- read_ports pool t; Ok (q :: qs)
  end.

(* multiprocessing: start n children / join the given children *)
Definition spawn (ps : list child) (w : world) : world := set_children (children w ++ ps) w.
Definition join_all (ps : list child) (w : world) : world :=
  set_children (filter (fun c => negb (mem child_eqb c ps)) (children w)) w.

(* Proxy.setup *)
Definition proxy_setup (c : config) (w : world) : result (proxy * world) :=
  do w1 <- write_pid_file c w;
  do ' (pool, w2) <- pool_setup c w1;
  (* flags.port = pool[0]._port unless listening on a unix socket *)
  do port' <- match unix_socket_path c with
              | None => nth_port pool 0
              | Some _ => Ok (port c)
              end;
  (* ports = set(); for index in range(offset, offset + len(flags.ports)): ports.add(pool[index]._port) *)
  let offset := 1%nat in
  do raw <- read_ports pool (seq offset (length (ports c)));
  (* if not unix_socket_path and flags.port in ports: ports.remove(flags.port)   [repaired] *)
  let raw' :=
    match unix_socket_path c with
    | None => if mem N.eqb port' raw then filter (fun q => negb (q =? port')) raw else raw
    | Some _ => raw
    end in
  (* flags.ports = list(ports) *)
  let c' := with_ports c port' (set_ports os raw') in
  do w3 <- write_port_file c' w2;
  (* ThreadlessPool only when remote executors are enabled; then AcceptorPool *)
  let ex := if remote_executors_enabled c' then map ExecutorProc (seq 0 (num_workers c')) else [] in
  let ac := map AcceptorProc (seq 0 (num_acceptors c')) in
  let w4 := spawn ac (spawn ex w3) in
  Ok ({| flags := c'; listeners := pool; acceptors := ac; executors := ex |}, w4).

(* Proxy.shutdown *)
Definition proxy_shutdown (p : proxy) (w : world) : result world :=
  let w1 := join_all (acceptors p) w in
  let w2 := if remote_executors_enabled (flags p) then join_all (executors p) w1 else w1 in
  do w3 <- pool_shutdown (listeners p) w2;
  Ok (delete_pid_file (flags p) (delete_port_file (flags p) w3)).

End Model.

(* what the embedding API and the port file report: flags.port (when it is bound) then flags.ports *)
Definition reported (c : config) : list N :=
  match unix_socket_path c with
  | None => port c :: ports c
  | Some _ => ports c
  end.

(* ---- hypotheses on the oracles (premises of every theorem) ---- *)
(* bind to a fixed port yields that port, bind to port 0 yields some non-zero port *)
Definition bind_spec (os : os_oracle) : Prop :=
  forall k h p q, sock_bind os k h p = Ok q -> (p <> 0 -> q = p) /\ q <> 0.
(* iterating a Python set built from l: every element of l exactly once, in some order *)
Definition set_spec {A} (f : list A -> list A) : Prop :=
  forall l, NoDup (f l) /\ forall x, In x (f l) <-> In x l.
Definition os_spec (os : os_oracle) : Prop :=
  bind_spec os /\ set_spec (set_hosts os) /\ set_spec (set_ports os).

(* listener l is the one created for the configured endpoint hp = (address, requested port) *)
Definition bound_as (hp : addr * N) (l : listener) : Prop :=
  exists q, l = TcpL (fst hp) (snd hp) q /\ (snd hp <> 0 -> q = snd hp) /\ q <> 0.

(* the quantifier of the property: OS-assigned ports only together with a single listening address *)
Definition single_or_fixed (c : config) : Prop :=
  (forall h, In h (hostnames c) -> h = hostname c) \/ ~ In 0 (tcp_ports c).
