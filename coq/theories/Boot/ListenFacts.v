(* C19 — lemmas and proofs about Boot/Listen.v *)
From PM Require Import Lib.Bytes Lib.BytesFacts Lib.PyStr Boot.Listen.

(* ------------------------------------------------------------------ generic *)
Lemma addr_eqb_eq a b : addr_eqb a b = true <-> a = b.
Proof.
  destruct a as [x|x], b as [y|y]; cbn [addr_eqb]; split; intros H;
    try discriminate; try (apply N.eqb_eq in H; now subst);
    try (inversion H; subst; apply N.eqb_refl).
Qed.

Lemma listener_eqb_refl l : listener_eqb l l = true.
Proof.
  destruct l as [h p q|u]; cbn [listener_eqb].
  - rewrite (proj2 (addr_eqb_eq h h) eq_refl), !N.eqb_refl. reflexivity.
  - apply bytes_eqb_refl.
Qed.

Lemma child_eqb_eq a b : child_eqb a b = true <-> a = b.
Proof.
  destruct a as [i|i], b as [j|j]; cbn [child_eqb]; split; intros H;
    try discriminate; try (apply Nat.eqb_eq in H; now subst);
    try (inversion H; subst; apply Nat.eqb_refl).
Qed.

Lemma mem_In {A} (eqb : A -> A -> bool) (Heq : forall a b, eqb a b = true <-> a = b) x l :
  mem eqb x l = true <-> In x l.
Proof.
  induction l as [|y t IH]; cbn [mem In].
  - split; [discriminate|contradiction].
  - rewrite orb_true_iff, IH, Heq. split; intros [H|H]; auto.
Qed.

Lemma fs_set_same f k m : fs_set f k m f = Some k.
Proof. unfold fs_set. now rewrite bytes_eqb_refl. Qed.
Lemma fs_set_other f g k m : g <> f -> fs_set f k m g = m g.
Proof.
  intros H. unfold fs_set. destruct (bytes_eqb g f) eqn:E; [|reflexivity].
  apply bytes_eqb_eq in E. contradiction.
Qed.
Lemma fs_del_same f m : fs_del f m f = None.
Proof. unfold fs_del. now rewrite bytes_eqb_refl. Qed.
Lemma fs_del_other f g m : g <> f -> fs_del f m g = m g.
Proof.
  intros H. unfold fs_del. destruct (bytes_eqb g f) eqn:E; [|reflexivity].
  apply bytes_eqb_eq in E. contradiction.
Qed.

Lemma path_eq_dec (f g : path) : {f = g} + {f <> g}.
Proof. apply (list_eq_dec N.eq_dec). Qed.

Lemma Forall2_nth_error {A B} (R : A -> B -> Prop) l l' i a :
  Forall2 R l l' -> nth_error l i = Some a -> exists b, nth_error l' i = Some b /\ R a b.
Proof.
  intros F; revert i; induction F as [|x y l l' Hxy F IH]; intros i Hn.
  - destruct i; discriminate.
  - destruct i as [|i]; cbn [nth_error] in *.
    + inversion Hn; subst. eauto.
    + eauto.
Qed.

Lemma Forall2_In_l {A B} (R : A -> B -> Prop) l l' a :
  Forall2 R l l' -> In a l -> exists b, In b l' /\ R a b.
Proof.
  induction 1 as [|x y l l' Hxy F IH]; intros Hin; [contradiction|].
  destruct Hin as [<-|Hin]; [exists y; split; [now left|assumption]|].
  destruct (IH Hin) as (b & Hb & HR). exists b. split; [now right|assumption].
Qed.

Lemma Forall2_In_r {A B} (R : A -> B -> Prop) l l' b :
  Forall2 R l l' -> In b l' -> exists a, In a l /\ R a b.
Proof.
  induction 1 as [|x y l l' Hxy F IH]; intros Hin; [contradiction|].
  destruct Hin as [<-|Hin]; [exists x; split; [now left|assumption]|].
  destruct (IH Hin) as (a & Ha & HR). exists a. split; [now right|assumption].
Qed.

Lemma port_lines_cons q l : port_lines (q :: l) = (dec_of_N q ++ [LF]) ++ port_lines l.
Proof. reflexivity. Qed.

(* ------------------------------------------------------------------ the model *)
Section Facts.
Variable os : os_oracle.
Hypothesis Hos : os_spec os.

Let Hbind : bind_spec os := proj1 Hos.
Let Hhosts : set_spec (set_hosts os) := proj1 (proj2 Hos).
Let Hports : set_spec (set_ports os) := proj2 (proj2 Hos).

Lemma bound_as_tcp hp l : bound_as hp l -> is_tcp l = true.
Proof. intros (q & -> & _). reflexivity. Qed.

(* ---- ListenerPool ---- *)
Lemma add_all_inv pairs : forall k w ls w',
  add_all os k pairs w = Ok (ls, w') ->
  Forall2 bound_as pairs ls /\ fs w' = fs w /\ children w' = children w /\
  listening w' = listening w ++ ls.
Proof.
  induction pairs as [|[h p] t IH]; intros k w ls w' H.
  - cbn [add_all] in H. inversion H; subst. rewrite app_nil_r. repeat split; constructor.
  - cbn [add_all] in H. unfold tcp_listen in H.
    destruct (sock_bind os k h p) as [q|e] eqn:E; cbn [bind] in H; [|discriminate].
    match type of H with context [add_all os (S k) t ?w1] =>
      destruct (add_all os (S k) t w1) as [[ls1 w2]|e] eqn:E2 end; cbn [bind] in H; [|discriminate].
    inversion H; subst; clear H.
    apply IH in E2 as (F & Hfs & Hch & Hli).
    cbn [set_listening fs children listening] in *.
    repeat split; try assumption.
    + constructor; [|assumption]. exists q. cbn [fst snd]. split; [reflexivity|]. exact (Hbind _ _ _ _ E).
    + rewrite Hli, <- app_assoc. reflexivity.
Qed.

Lemma pool_setup_inv c w pool w' :
  pool_setup os c w = Ok (pool, w') ->
  exists ls,
    Forall2 bound_as (product (set_hosts os (hostname c :: hostnames c)) (tcp_ports c)) ls /\
    children w' = children w /\ listening w' = listening w ++ pool /\
    match unix_socket_path c with
    | Some u => pool = UnixL u :: ls /\ fs w u = None /\ fs w' = fs_set u SocketFile (fs w)
    | None => pool = ls /\ fs w' = fs w
    end.
Proof.
  unfold pool_setup. intros H.
  destruct (unix_socket_path c) as [u|] eqn:Eu.
  - unfold unix_listen in H. unfold path_exists in H.
    destruct (fs w u) as [k|] eqn:Ef; cbn [bind] in H; [discriminate|].
    match type of H with context [add_all os 0 ?pp ?w1] =>
      destruct (add_all os 0 pp w1) as [[ls w2]|e] eqn:E2 end; cbn [bind] in H; [|discriminate].
    inversion H; subst; clear H.
    apply add_all_inv in E2 as (F & Hfs & Hch & Hli).
    cbn [set_listening set_fs fs children listening] in *.
    exists ls. repeat split; try assumption.
    rewrite Hli, <- app_assoc. reflexivity.
  - cbn [bind] in H.
    match type of H with context [add_all os 0 ?pp ?w1] =>
      destruct (add_all os 0 pp w1) as [[ls w2]|e] eqn:E2 end; cbn [bind] in H; [|discriminate].
    inversion H; subst; clear H.
    apply add_all_inv in E2 as (F & Hfs & Hch & Hli).
    exists pool. repeat split; assumption.
Qed.

(* ---- reading the ports back from the pool ---- *)
Lemma nth_port_mid pre l post : is_tcp l = true ->
  nth_port (pre ++ l :: post) (length pre) = Ok (l_port l).
Proof.
  intros Ht. unfold nth_port. rewrite nth_error_app2 by apply Nat.le_refl.
  rewrite Nat.sub_diag. cbn [nth_error]. destruct l; [reflexivity|discriminate].
Qed.

Lemma read_ports_block L : forall pre post,
  (forall l, In l L -> is_tcp l = true) ->
  read_ports (pre ++ L ++ post) (seq (length pre) (length L)) = Ok (map l_port L).
Proof.
  induction L as [|a L IH]; intros pre post Ht; [reflexivity|].
  cbn [length seq read_ports app map].
  rewrite nth_port_mid by (apply Ht; now left). cbn [bind].
  replace (pre ++ a :: L ++ post) with ((pre ++ [a]) ++ L ++ post) by (rewrite <- app_assoc; reflexivity).
  replace (S (length pre)) with (length (pre ++ [a])) by (rewrite app_length; cbn [length]; lia).
  rewrite IH by (intros l Hl; apply Ht; now right). reflexivity.
Qed.

End Facts.
