(* C19 — lemmas and proofs about Boot/Listen.v *)
From PM Require Import Lib.Bytes Lib.BytesFacts Lib.PyStr Lib.PyStrFacts Lib.PyStrFacts2 Boot.Listen.

(* ------------------------------------------------------------------ generic *)
Lemma addr_eqb_eq a b : addr_eqb a b = true <-> a = b.
Proof.
  destruct a as [x|x], b as [y|y]; cbn [addr_eqb]; split; intros H;
    try discriminate; try (apply N.eqb_eq in H; now subst);
    try (inversion H; subst; apply N.eqb_refl).
Qed.

Lemma listener_eqb_refl l : listener_eqb l l = true.
Proof.
  destruct l as [h p q|u]; cbn [listener_eqb].
  - rewrite (proj2 (addr_eqb_eq h h) eq_refl), !N.eqb_refl. reflexivity.
  - apply bytes_eqb_refl.
Qed.

Lemma child_eqb_eq a b : child_eqb a b = true <-> a = b.
Proof.
  destruct a as [i|i], b as [j|j]; cbn [child_eqb]; split; intros H;
    try discriminate; try (apply Nat.eqb_eq in H; now subst);
    try (inversion H; subst; apply Nat.eqb_refl).
Qed.

Lemma mem_In {A} (eqb : A -> A -> bool) (Heq : forall a b, eqb a b = true <-> a = b) x l :
  mem eqb x l = true <-> In x l.
Proof.
  induction l as [|y t IH]; cbn [mem In].
  - split; [discriminate|contradiction].
  - rewrite orb_true_iff, IH, Heq. split; intros [H|H]; auto.
Qed.

Lemma fs_set_same f k m : fs_set f k m f = Some k.
Proof. unfold fs_set. now rewrite bytes_eqb_refl. Qed.
Lemma fs_set_other f g k m : g <> f -> fs_set f k m g = m g.
Proof.
  intros H. unfold fs_set. destruct (bytes_eqb g f) eqn:E; [|reflexivity].
  apply bytes_eqb_eq in E. contradiction.
Qed.
Lemma fs_del_same f m : fs_del f m f = None.
Proof. unfold fs_del. now rewrite bytes_eqb_refl. Qed.
Lemma fs_del_other f g m : g <> f -> fs_del f m g = m g.
Proof.
  intros H. unfold fs_del. destruct (bytes_eqb g f) eqn:E; [|reflexivity].
  apply bytes_eqb_eq in E. contradiction.
Qed.

Lemma path_eq_dec (f g : path) : {f = g} + {f <> g}.
Proof. apply (list_eq_dec N.eq_dec). Qed.

Lemma Forall2_nth_error {A B} (R : A -> B -> Prop) l l' i a :
  Forall2 R l l' -> nth_error l i = Some a -> exists b, nth_error l' i = Some b /\ R a b.
Proof.
  intros F; revert i; induction F as [|x y l l' Hxy F IH]; intros i Hn.
  - destruct i; discriminate.
  - destruct i as [|i]; cbn [nth_error] in *.
    + inversion Hn; subst. eauto.
    + eauto.
Qed.

Lemma Forall2_In_l {A B} (R : A -> B -> Prop) l l' a :
  Forall2 R l l' -> In a l -> exists b, In b l' /\ R a b.
Proof.
  induction 1 as [|x y l l' Hxy F IH]; intros Hin; [contradiction|].
  destruct Hin as [<-|Hin]; [exists y; split; [now left|assumption]|].
  destruct (IH Hin) as (b & Hb & HR). exists b. split; [now right|assumption].
Qed.

Lemma Forall2_In_r {A B} (R : A -> B -> Prop) l l' b :
  Forall2 R l l' -> In b l' -> exists a, In a l /\ R a b.
Proof.
  induction 1 as [|x y l l' Hxy F IH]; intros Hin; [contradiction|].
  destruct Hin as [<-|Hin]; [exists x; split; [now left|assumption]|].
  destruct (IH Hin) as (a & Ha & HR). exists a. split; [now right|assumption].
Qed.

Lemma Forall2_len {A B} (R : A -> B -> Prop) l l' : Forall2 R l l' -> length l = length l'.
Proof. induction 1; cbn [length]; congruence. Qed.

Lemma port_lines_cons q l : port_lines (q :: l) = (dec_of_N q ++ [LF]) ++ port_lines l.
Proof. reflexivity. Qed.

(* ------------------------------------------------------------------ the model *)
Section Facts.
Variable os : os_oracle.
Hypothesis Hos : os_spec os.

Let Hbind : bind_spec os := proj1 Hos.
Let Hhosts : set_spec (set_hosts os) := proj1 (proj2 Hos).
Let Hports : set_spec (set_ports os) := proj2 (proj2 Hos).

Lemma bound_as_tcp hp l : bound_as hp l -> is_tcp l = true.
Proof. intros (q & -> & _). reflexivity. Qed.

(* ---- ListenerPool ---- *)
Lemma add_all_inv pairs : forall k w ls w',
  add_all os k pairs w = Ok (ls, w') ->
  Forall2 bound_as pairs ls /\ fs w' = fs w /\ children w' = children w /\
  listening w' = listening w ++ ls.
Proof.
  induction pairs as [|[h p] t IH]; intros k w ls w' H.
  - cbn [add_all] in H. inversion H; subst. rewrite app_nil_r. repeat split; constructor.
  - cbn [add_all] in H. unfold tcp_listen in H.
    destruct (sock_bind os k h p) as [q|e] eqn:E; cbn [bind] in H; [|discriminate].
    match type of H with context [add_all os (S k) t ?w1] =>
      destruct (add_all os (S k) t w1) as [[ls1 w2]|e] eqn:E2 end; cbn [bind] in H; [|discriminate].
    inversion H; subst; clear H.
    apply IH in E2 as (F & Hfs & Hch & Hli).
    cbn [set_listening fs children listening] in *.
    repeat split; try assumption.
    + constructor; [|assumption]. exists q. cbn [fst snd]. split; [reflexivity|]. exact (Hbind _ _ _ _ E).
    + rewrite Hli, <- app_assoc. reflexivity.
Qed.

Lemma pool_setup_inv c w pool w' :
  pool_setup os c w = Ok (pool, w') ->
  exists ls,
    Forall2 bound_as (product (set_hosts os (hostname c :: hostnames c)) (tcp_ports c)) ls /\
    children w' = children w /\ listening w' = listening w ++ pool /\
    match unix_socket_path c with
    | Some u => pool = UnixL u :: ls /\ fs w u = None /\ fs w' = fs_set u SocketFile (fs w)
    | None => pool = ls /\ fs w' = fs w
    end.
Proof.
  unfold pool_setup. intros H.
  destruct (unix_socket_path c) as [u|] eqn:Eu.
  - unfold unix_listen in H. unfold path_exists in H.
    destruct (fs w u) as [k|] eqn:Ef; cbn [bind] in H; [discriminate|].
    match type of H with context [add_all os 0 ?pp ?w1] =>
      destruct (add_all os 0 pp w1) as [[ls w2]|e] eqn:E2 end; cbn [bind] in H; [|discriminate].
    inversion H; subst; clear H.
    apply add_all_inv in E2 as (F & Hfs & Hch & Hli).
    cbn [set_listening set_fs fs children listening] in *.
    exists ls. repeat split; try assumption.
    rewrite Hli, <- app_assoc. reflexivity.
  - cbn [bind] in H.
    match type of H with context [add_all os 0 ?pp ?w1] =>
      destruct (add_all os 0 pp w1) as [[ls w2]|e] eqn:E2 end; cbn [bind] in H; [|discriminate].
    inversion H; subst; clear H.
    apply add_all_inv in E2 as (F & Hfs & Hch & Hli).
    exists pool. repeat split; assumption.
Qed.

(* ---- reading the ports back from the pool ---- *)
Lemma nth_port_mid pre l post : is_tcp l = true ->
  nth_port (pre ++ l :: post) (length pre) = Ok (l_port l).
Proof.
  intros Ht. unfold nth_port. rewrite nth_error_app2 by apply Nat.le_refl.
  rewrite Nat.sub_diag. cbn [nth_error]. destruct l; [reflexivity|discriminate].
Qed.

Lemma read_ports_block L : forall pre post,
  (forall l, In l L -> is_tcp l = true) ->
  read_ports (pre ++ L ++ post) (seq (length pre) (length L)) = Ok (map l_port L).
Proof.
  induction L as [|a L IH]; intros pre post Ht; [reflexivity|].
  cbn [length seq read_ports app map].
  rewrite nth_port_mid by (apply Ht; now left). cbn [bind].
  replace (pre ++ a :: L ++ post) with ((pre ++ [a]) ++ L ++ post) by (rewrite <- app_assoc; reflexivity).
  replace (S (length pre)) with (length (pre ++ [a])) by (rewrite app_length; cbn [length]; lia).
  rewrite IH by (intros l Hl; apply Ht; now right). reflexivity.
Qed.


(* ---- Proxy.setup, step by step ---- *)
Definition raw_after (c : config) (port' : N) (raw : list N) : list N :=
  match unix_socket_path c with
  | None => if mem N.eqb port' raw then filter (fun q => negb (q =? port')) raw else raw
  | Some _ => raw
  end.

Lemma raw_after_In c port' raw q :
  In q (raw_after c port' raw) <-> In q raw /\ (unix_socket_path c = None -> q <> port').
Proof.
  unfold raw_after. destruct (unix_socket_path c) as [u|].
  - split; [intros H; split; [assumption|discriminate]|tauto].
  - destruct (mem N.eqb port' raw) eqn:Em.
    + rewrite filter_In, negb_true_iff, N.eqb_neq. tauto.
    + split; [|tauto]. intros H. split; [assumption|]. intros _ ->.
      apply (mem_In N.eqb N.eqb_eq) in H. congruence.
Qed.

Lemma proxy_setup_steps c w p w' : proxy_setup os c w = Ok (p, w') ->
  exists w1 pool w2 port' raw w3,
    write_pid_file os c w = Ok w1 /\
    pool_setup os c w1 = Ok (pool, w2) /\
    match unix_socket_path c with None => nth_port pool 0 | Some _ => Ok (port c) end = Ok port' /\
    read_ports pool (seq 1 (length (ports c))) = Ok raw /\
    let c' := with_ports c port' (set_ports os (raw_after c port' raw)) in
    write_port_file c' w2 = Ok w3 /\
    let ex := if remote_executors_enabled c then map ExecutorProc (seq 0 (num_workers c)) else [] in
    let ac := map AcceptorProc (seq 0 (num_acceptors c)) in
    p = {| flags := c'; listeners := pool; acceptors := ac; executors := ex |} /\
    w' = spawn ac (spawn ex w3).
Proof.
  unfold proxy_setup. intros H.
  destruct (write_pid_file os c w) as [w1|e] eqn:E1; cbn [bind] in H; [|discriminate].
  destruct (pool_setup os c w1) as [[pool w2]|e] eqn:E2; cbn [bind] in H; [|discriminate].
  destruct (match unix_socket_path c with None => nth_port pool 0 | Some _ => Ok (port c) end)
    as [port'|e] eqn:E3; cbn [bind] in H; [|discriminate].
  destruct (read_ports pool (seq 1 (length (ports c)))) as [raw|e] eqn:E4; cbn [bind] in H; [|discriminate].
  fold (raw_after c port' raw) in H.
  destruct (write_port_file (with_ports c port' (set_ports os (raw_after c port' raw))) w2)
    as [w3|e] eqn:E5; cbn [bind] in H; [|discriminate].
  inversion H; subst; clear H.
  exists w1, pool, w2, port', raw, w3. repeat split; assumption.
Qed.

Lemma hosts_nonempty c : exists h0 hs, set_hosts os (hostname c :: hostnames c) = h0 :: hs.
Proof.
  destruct (Hhosts (hostname c :: hostnames c)) as [_ Hin].
  destruct (set_hosts os (hostname c :: hostnames c)) as [|h0 hs]; [|eauto].
  exfalso. apply (Hin (hostname c)). now left.
Qed.

(* the pool starts with the unix listener or the primary listener, followed by the listeners of
   flags.ports on the first address, followed by those of the remaining addresses *)
Lemma pool_shape c w pool w' : pool_setup os c w = Ok (pool, w') ->
  exists h0 hs x lsA lsB,
    set_hosts os (hostname c :: hostnames c) = h0 :: hs /\
    pool = x :: lsA ++ lsB /\
    Forall2 bound_as (map (pair h0) (ports c)) lsA /\
    Forall2 bound_as (product hs (tcp_ports c)) lsB /\
    match unix_socket_path c with
    | Some u => x = UnixL u
    | None => bound_as (h0, port c) x
    end.
Proof.
  intros H. apply pool_setup_inv in H as (ls & F & _ & _ & Hm).
  destruct (hosts_nonempty c) as (h0 & hs & Eh). rewrite Eh in F.
  unfold product in F. cbn [list_prod] in F.
  apply Forall2_app_inv_l in F as (l1 & l2 & F1 & F2 & ->).
  exists h0, hs. unfold tcp_ports in *.
  destruct (unix_socket_path c) as [u|].
  - destruct Hm as (-> & _). exists (UnixL u), l1, l2. repeat split; assumption.
  - destruct Hm as (-> & _). cbn [map] in F1. inversion F1 as [|a x l lsA Hx FA]; subst.
    exists x, lsA, l2. repeat split; assumption.
Qed.

Lemma setup_shape c w p w' : proxy_setup os c w = Ok (p, w') ->
  exists h0 hs x lsA lsB,
    set_hosts os (hostname c :: hostnames c) = h0 :: hs /\
    listeners p = x :: lsA ++ lsB /\
    Forall2 bound_as (map (pair h0) (ports c)) lsA /\
    Forall2 bound_as (product hs (tcp_ports c)) lsB /\
    match unix_socket_path c with
    | Some u => x = UnixL u /\ port (flags p) = port c
    | None => bound_as (h0, port c) x /\ port (flags p) = l_port x
    end /\
    ports (flags p) = set_ports os (raw_after c (port (flags p)) (map l_port lsA)) /\
    flags p = with_ports c (port (flags p)) (ports (flags p)).
Proof.
  intros H. apply proxy_setup_steps in H
    as (w1 & pool & w2 & port' & raw & w3 & _ & Hpool & Hport & Hraw & _ & -> & _).
  apply pool_shape in Hpool as (h0 & hs & x & lsA & lsB & Eh & -> & FA & FB & Hx).
  assert (Hlen : length lsA = length (ports c)).
  { apply Forall2_len in FA. rewrite map_length in FA. symmetry. exact FA. }
  assert (HtA : forall l, In l lsA -> is_tcp l = true).
  { intros l Hl. destruct (Forall2_In_r _ _ _ _ FA Hl) as (a & _ & Ha). exact (bound_as_tcp _ _ Ha). }
  rewrite <- Hlen in Hraw.
  change (x :: lsA ++ lsB) with ([x] ++ lsA ++ lsB) in Hraw.
  change 1%nat with (length [x]) in Hraw.
  rewrite (read_ports_block lsA [x] lsB HtA) in Hraw. inversion Hraw; subst raw; clear Hraw.
  exists h0, hs, x, lsA, lsB. cbn [flags listeners with_ports port ports].
  repeat split; try assumption; try reflexivity.
  destruct (unix_socket_path c) as [u|].
  - split; [assumption|]. now inversion Hport.
  - split; [assumption|]. pose proof (bound_as_tcp _ _ Hx) as Ht.
    pose proof (nth_port_mid [] x (lsA ++ lsB) Ht) as Hn. cbn [app length] in Hn.
    rewrite Hn in Hport. now inversion Hport.
Qed.

(* ---- files, sockets and children after start-up ---- *)
Lemma write_file_inv f k w w' : write_file f k w = Ok w' ->
  fs w' = fs_set f (Regular k) (fs w) /\ listening w' = listening w /\ children w' = children w /\
  fs w f <> Some SocketFile.
Proof.
  unfold write_file. intros H.
  destruct (fs w f) as [[c0|]|] eqn:E; inversion H; subst; cbn [set_fs fs listening children];
    repeat split; congruence.
Qed.

Lemma setup_world c w p w' : proxy_setup os c w = Ok (p, w') ->
  listening w' = listening w ++ listeners p /\
  children w' = children w ++ executors p ++ acceptors p /\
  acceptors p = map AcceptorProc (seq 0 (num_acceptors c)) /\
  executors p = (if remote_executors_enabled c then map ExecutorProc (seq 0 (num_workers c)) else []) /\
  (forall f, port_file c = Some f -> fs w' f = Some (Regular (port_lines (reported (flags p))))) /\
  (forall u, unix_socket_path c = Some u ->
     fs w' u = Some SocketFile /\ fs w u = None /\ pid_file c <> Some u /\ port_file c <> Some u) /\
  (forall f, pid_file c = Some f -> port_file c <> Some f ->
     fs w' f = Some (Regular (dec_of_N (getpid os)))) /\
  (forall f, pid_file c <> Some f -> port_file c <> Some f -> unix_socket_path c <> Some f ->
     fs w' f = fs w f).
Proof.
  intros H. apply proxy_setup_steps in H
    as (w1 & pool & w2 & port' & raw & w3 & Hpid & Hpool & _ & _ & Hpf & -> & ->).
  apply pool_setup_inv in Hpool as (ls & _ & Hch2 & Hli2 & Hm).
  set (c' := with_ports c port' (set_ports os (raw_after c port' raw))) in *.
  (* pid file *)
  assert (P1 : listening w1 = listening w /\ children w1 = children w /\
               match pid_file c with
               | Some f => fs w1 = fs_set f (Regular (dec_of_N (getpid os))) (fs w)
               | None => fs w1 = fs w end).
  { unfold write_pid_file in Hpid. destruct (pid_file c) as [f|].
    - apply write_file_inv in Hpid as (? & ? & ? & _). auto.
    - inversion Hpid; subst. auto. }
  destruct P1 as (Hli1 & Hch1 & Hfs1).
  (* port file *)
  assert (P3 : listening w3 = listening w2 /\ children w3 = children w2 /\
               match port_file c with
               | Some f => fs w3 = fs_set f (Regular (port_lines (reported c'))) (fs w2) /\
                           fs w2 f <> Some SocketFile
               | None => fs w3 = fs w2 end).
  { unfold write_port_file in Hpf. change (port_file c') with (port_file c) in Hpf.
    change (unix_socket_path c') with (unix_socket_path c) in Hpf.
    destruct (port_file c) as [f|].
    - apply write_file_inv in Hpf as (Hf & ? & ? & Hns). repeat split; try assumption.
      rewrite Hf. f_equal. f_equal. unfold reported.
      change (unix_socket_path c') with (unix_socket_path c).
      destruct (unix_socket_path c); [reflexivity|]. rewrite port_lines_cons. reflexivity.
    - inversion Hpf; subst. auto. }
  destruct P3 as (Hli3 & Hch3 & Hfs3).
  cbn [flags listeners acceptors executors spawn set_children fs listening children].
  split; [|split; [|split; [|split; [|split; [|split; [|split]]]]]].
  - rewrite Hli3, Hli2, Hli1. reflexivity.
  - rewrite Hch3, Hch2, Hch1, <- app_assoc. reflexivity.
  - reflexivity.
  - reflexivity.
  - (* port file content *)
    intros f Ef. rewrite Ef in Hfs3. destruct Hfs3 as (-> & _). apply fs_set_same.
  - (* unix socket path *)
    intros u Eu. rewrite Eu in Hm. destruct Hm as (_ & Hnone & Hfs2).
    assert (Hpidne : pid_file c <> Some u).
    { intros Ep. rewrite Ep in Hfs1. rewrite Hfs1, fs_set_same in Hnone. discriminate. }
    assert (Hw : fs w u = None).
    { destruct (pid_file c) as [f|]; [|now rewrite Hfs1 in Hnone].
      rewrite Hfs1, fs_set_other in Hnone; [assumption|congruence]. }
    assert (Hportne : port_file c <> Some u).
    { intros Ep. rewrite Ep in Hfs3. destruct Hfs3 as (_ & Hns). apply Hns.
      rewrite Hfs2. apply fs_set_same. }
    repeat split; try assumption.
    destruct (port_file c) as [f|].
    + destruct Hfs3 as (-> & _). rewrite fs_set_other by congruence. rewrite Hfs2. apply fs_set_same.
    + rewrite Hfs3, Hfs2. apply fs_set_same.
  - (* pid file content *)
    intros f Ep Hne. rewrite Ep in Hfs1.
    assert (H3 : fs w3 f = fs w2 f).
    { destruct (port_file c) as [g|]; [|now rewrite Hfs3].
      destruct Hfs3 as (-> & _). apply fs_set_other. congruence. }
    rewrite H3.
    destruct (unix_socket_path c) as [u|].
    + destruct Hm as (_ & Hnone & ->). rewrite Hfs1 in Hnone.
      rewrite fs_set_other; [rewrite Hfs1; apply fs_set_same|].
      intros ->. rewrite fs_set_same in Hnone. discriminate.
    + destruct Hm as (_ & ->). rewrite Hfs1. apply fs_set_same.
  - (* everything else untouched *)
    intros f N1 N2 N3.
    assert (H3 : fs w3 f = fs w2 f).
    { destruct (port_file c) as [g|]; [|now rewrite Hfs3].
      destruct Hfs3 as (-> & _). apply fs_set_other. congruence. }
    assert (H2 : fs w2 f = fs w1 f).
    { destruct (unix_socket_path c) as [u|].
      - destruct Hm as (_ & _ & ->). apply fs_set_other. congruence.
      - destruct Hm as (_ & ->). reflexivity. }
    assert (H1 : fs w1 f = fs w f).
    { destruct (pid_file c) as [g|]; [|now rewrite Hfs1].
      rewrite Hfs1. apply fs_set_other. congruence. }
    congruence.
Qed.


(* ------------------------------------------------------------------ C19: reported ports *)
Lemma flags_fixed_fields c w p w' : proxy_setup os c w = Ok (p, w') ->
  unix_socket_path (flags p) = unix_socket_path c /\ port_file (flags p) = port_file c /\
  pid_file (flags p) = pid_file c /\ remote_executors_enabled (flags p) = remote_executors_enabled c.
Proof.
  intros H. apply setup_shape in H as (h0 & hs & x & lsA & lsB & _ & _ & _ & _ & _ & _ & ->).
  repeat split.
Qed.

Lemma reports_truthfully c w p w' : proxy_setup os c w = Ok (p, w') ->
  let r := reported (flags p) in
  NoDup r /\
  (forall q, In q r -> exists h p0, In (TcpL h p0 q) (listeners p)) /\
  (single_or_fixed c -> forall h p0 q, In (TcpL h p0 q) (listeners p) -> In q r) /\
  (unix_socket_path c = None -> exists h0, In h0 (hostname c :: hostnames c) /\
      nth_error (listeners p) 0 = Some (TcpL h0 (port c) (port (flags p)))) /\
  (forall f, port_file c = Some f -> fs w' f = Some (Regular (port_lines r))).
Proof.
  intros H r.
  pose proof (setup_world _ _ _ _ H) as (_ & _ & _ & _ & Hpf & _).
  pose proof (flags_fixed_fields _ _ _ _ H) as (Eu & _).
  apply setup_shape in H as (h0 & hs & x & lsA & lsB & Eh & EL & FA & FB & Hx & Hps & _).
  assert (K1 : forall q, In q (ports (flags p)) <->
               In q (map l_port lsA) /\ (unix_socket_path c = None -> q <> port (flags p))).
  { intros q. rewrite Hps. rewrite (proj2 (Hports _) q). apply raw_after_In. }
  assert (K2 : NoDup (ports (flags p))).
  { rewrite Hps. apply (Hports _). }
  assert (HA : forall l, In l lsA -> In (l_port l) r).
  { intros l Hl. subst r. unfold reported. rewrite Eu.
    destruct (unix_socket_path c) as [u|] eqn:Euc.
    - apply K1. split; [now apply in_map|discriminate].
    - destruct (N.eq_dec (l_port l) (port (flags p))) as [E|E]; [left; now symmetry|].
      right. apply K1. split; [now apply in_map|]. intros _. exact E. }
  assert (HtA : forall l, In l lsA -> exists h p0, l = TcpL h p0 (l_port l)).
  { intros l Hl. destruct (Forall2_In_r _ _ _ _ FA Hl) as (a & _ & q & -> & _). eauto. }
  split; [|split; [|split; [|split]]].
  - (* no duplicates *)
    subst r. unfold reported. rewrite Eu. destruct (unix_socket_path c) as [u|] eqn:Euc; [exact K2|].
    constructor; [|exact K2]. intros Hin. apply K1 in Hin as (_ & Hne). now apply Hne.
  - (* every reported port is bound *)
    intros q Hq. subst r. unfold reported in Hq. rewrite Eu in Hq. rewrite EL.
    assert (Hin : In q (ports (flags p)) -> exists h p0, In (TcpL h p0 q) (x :: lsA ++ lsB)).
    { intros Hin. apply K1 in Hin as (Hm & _). apply in_map_iff in Hm as (l & <- & Hl).
      destruct (HtA l Hl) as (h & p0 & E). exists h, p0. rewrite <- E.
      right. apply in_or_app. now left. }
    destruct (unix_socket_path c) as [u|] eqn:Euc; [now apply Hin|].
    destruct Hq as [<-|Hq]; [|now apply Hin].
    destruct Hx as ((qx & -> & _) & ->). cbn [fst snd l_port]. exists h0, (port c). now left.
  - (* every bound port is reported *)
    intros Hsf h p0 q Hin. rewrite EL in Hin.
    assert (Hhead : unix_socket_path c = None -> In (port (flags p)) r).
    { intros Euc. subst r. unfold reported. rewrite Eu, Euc. now left. }
    destruct Hin as [Ex|Hin].
    + destruct (unix_socket_path c) as [u|] eqn:Euc.
      * destruct Hx as (-> & _). discriminate.
      * destruct Hx as (_ & Hp). rewrite Ex in Hp. cbn [l_port] in Hp. rewrite <- Hp. now apply Hhead.
    + apply in_app_or in Hin as [Hin|Hin]; [exact (HA _ Hin)|].
      destruct (Forall2_In_r _ _ _ _ FB Hin) as ([a b] & Hab & qb & E & Hfix & _).
      cbn [fst snd] in *. inversion E; subst a b qb; clear E.
      apply in_prod_iff in Hab as (Hh & Hp0).
      destruct Hsf as [Hsingle|Hnz].
      * (* a single address: there is no further address block *)
        exfalso.
        destruct (Hhosts (hostname c :: hostnames c)) as (Hnd & Hiff). rewrite Eh in Hnd, Hiff.
        assert (Hall : forall a, In a (h0 :: hs) -> a = hostname c).
        { intros a Ha. apply Hiff in Ha as [<-|Ha]; [reflexivity|now apply Hsingle]. }
        inversion Hnd as [|? ? Hnot _]; subst. apply Hnot.
        rewrite (Hall h0) by now left. rewrite <- (Hall h) by now right. exact Hh.
      * (* fixed ports only *)
        assert (Hp0nz : p0 <> 0) by (intros ->; contradiction).
        specialize (Hfix Hp0nz). subst q.
        assert (HinA : In p0 (ports c) -> In p0 r).
        { intros Hp. assert (Hpair : In (h0, p0) (map (pair h0) (ports c))) by now apply in_map.
          destruct (Forall2_In_l _ _ _ _ FA Hpair) as (l & Hl & ql & -> & Hfl & _).
          cbn [fst snd] in Hfl. specialize (Hfl Hp0nz). subst ql.
          exact (HA _ Hl). }
        unfold tcp_ports in Hp0. destruct (unix_socket_path c) as [u|] eqn:Euc; [now apply HinA|].
        destruct Hp0 as [<-|Hp0]; [|now apply HinA].
        destruct Hx as ((qx & -> & Hfx & _) & Hp). cbn [fst snd l_port] in *.
        rewrite <- (Hfx Hp0nz), <- Hp. now apply Hhead.
  - (* the primary port is the one of the first listener, created for --port *)
    intros Euc. rewrite Euc in Hx. destruct Hx as ((qx & -> & _) & ->). cbn [fst snd l_port].
    exists h0. split; [|rewrite EL; reflexivity].
    apply (proj2 (Hhosts (hostname c :: hostnames c)) h0). rewrite Eh. now left.
  - exact Hpf.
Qed.

(* ------------------------------------------------------------------ C19: every endpoint bound *)
Lemma every_endpoint_bound c w p w' : proxy_setup os c w = Ok (p, w') ->
  (forall h r, In h (hostname c :: hostnames c) -> In r (tcp_ports c) ->
     exists q, In (TcpL h r q) (listeners p) /\ (r <> 0 -> q = r) /\ q <> 0) /\
  (forall u, unix_socket_path c = Some u -> In (UnixL u) (listeners p) /\ fs w' u = Some SocketFile) /\
  (forall h r q, In (TcpL h r q) (listeners p) -> In h (hostname c :: hostnames c) /\ In r (tcp_ports c)) /\
  (forall u, In (UnixL u) (listeners p) -> unix_socket_path c = Some u) /\
  length (listeners p) =
    ((match unix_socket_path c with Some _ => 1 | None => 0 end) +
     length (set_hosts os (hostname c :: hostnames c)) * length (tcp_ports c))%nat /\
  listening w' = listening w ++ listeners p.
Proof.
  intros H.
  pose proof (setup_world _ _ _ _ H) as (Hli & _ & _ & _ & _ & Hux & _).
  apply proxy_setup_steps in H as (w1 & pool & w2 & port' & raw & w3 & _ & Hpool & _ & _ & _ & -> & _).
  cbn [listeners] in *.
  apply pool_setup_inv in Hpool as (ls & F & _ & _ & Hm).
  assert (Hsub : forall l, In l ls -> In l pool).
  { intros l Hl. destruct (unix_socket_path c); destruct Hm as (-> & _); [now right|assumption]. }
  assert (Hls : forall h r q, In (TcpL h r q) ls -> In h (hostname c :: hostnames c) /\ In r (tcp_ports c)).
  { intros h r q Hin. destruct (Forall2_In_r _ _ _ _ F Hin) as ([a b] & Hab & qb & E & _).
    cbn [fst snd] in E. inversion E; subst a b qb.
    apply in_prod_iff in Hab as (Hh & Hr). split; [|assumption].
    now apply (proj2 (Hhosts (hostname c :: hostnames c)) h). }
  assert (Hnu : forall u, ~ In (UnixL u) ls).
  { intros u Hin. destruct (Forall2_In_r _ _ _ _ F Hin) as (a & _ & q & E & _). discriminate. }
  split; [|split; [|split; [|split; [|split]]]].
  - intros h r Hh Hr.
    assert (Hpair : In (h, r) (product (set_hosts os (hostname c :: hostnames c)) (tcp_ports c))).
    { apply in_prod; [|assumption]. now apply (proj2 (Hhosts (hostname c :: hostnames c)) h). }
    destruct (Forall2_In_l _ _ _ _ F Hpair) as (l & Hl & q & -> & Hfix & Hnz). cbn [fst snd] in *.
    exists q. split; [now apply Hsub|split; assumption].
  - intros u Eu. split; [|now apply Hux]. rewrite Eu in Hm. destruct Hm as (-> & _). now left.
  - intros h r q Hin. apply (Hls h r q).
    destruct (unix_socket_path c); destruct Hm as (-> & _); [|assumption].
    destruct Hin as [E|Hin]; [discriminate|assumption].
  - intros u Hin. destruct (unix_socket_path c) as [u0|]; destruct Hm as (-> & _).
    + destruct Hin as [E|Hin]; [now inversion E|]. now apply Hnu in Hin.
    + now apply Hnu in Hin.
  - apply Forall2_len in F. unfold product in F. rewrite prod_length in F.
    destruct (unix_socket_path c); destruct Hm as (-> & _); cbn [length]; lia.
  - exact Hli.
Qed.

(* ------------------------------------------------------------------ C19: shutdown *)
Lemma tcp_shutdown ls : forall w rest,
  (forall l, In l ls -> is_tcp l = true) -> listening w = ls ++ rest ->
  exists w', pool_shutdown ls w = Ok w' /\ listening w' = rest /\ fs w' = fs w /\ children w' = children w.
Proof.
  induction ls as [|l t IH]; intros w rest Ht Hli.
  - exists w. repeat split. assumption.
  - cbn [pool_shutdown]. unfold listener_shutdown.
    assert (Hl : is_tcp l = true) by (apply Ht; now left).
    destruct l as [h p0 q|u]; [|discriminate]. cbn [bind].
    rewrite Hli. cbn [app remove_one]. rewrite listener_eqb_refl.
    destruct (IH (set_listening (t ++ rest) w) rest) as (w' & E & ? & ? & ?);
      [intros l Hl'; apply Ht; now right|reflexivity|].
    exists w'. repeat split; assumption.
Qed.

Lemma delete_fs o w g :
  fs (delete_file_if_exists o w) g =
    match o with Some f => if bytes_eqb g f then None else fs w g | None => fs w g end /\
  listening (delete_file_if_exists o w) = listening w /\
  children (delete_file_if_exists o w) = children w.
Proof.
  unfold delete_file_if_exists. destruct o as [f|]; [|repeat split].
  unfold path_exists. destruct (fs w f) as [k|] eqn:E; cbn [set_fs fs listening children];
    (split; [|split; reflexivity]).
  - reflexivity.
  - destruct (bytes_eqb g f) eqn:Eg; [|reflexivity]. apply bytes_eqb_eq in Eg. now subst.
Qed.

Lemma filter_joined (ps l : list child) : (forall x, In x l -> In x ps) ->
  filter (fun x => negb (mem child_eqb x ps)) l = [].
Proof.
  induction l as [|a l IH]; intros Hin; [reflexivity|]. cbn [filter].
  rewrite (proj2 (mem_In child_eqb child_eqb_eq a ps)) by (apply Hin; now left). cbn [negb].
  apply IH. intros x Hx. apply Hin. now right.
Qed.

Lemma shutdown_clears c w p w' : proxy_setup os c w = Ok (p, w') ->
  listening w = [] -> children w = [] ->
  exists w2, proxy_shutdown p w' = Ok w2 /\ listening w2 = [] /\ children w2 = [] /\
    (forall f, pid_file c = Some f \/ port_file c = Some f \/ unix_socket_path c = Some f ->
       fs w2 f = None) /\
    (forall f, pid_file c <> Some f -> port_file c <> Some f -> unix_socket_path c <> Some f ->
       fs w2 f = fs w f).
Proof.
  intros H Hl0 Hc0.
  pose proof (setup_world _ _ _ _ H) as (Hli & Hch & Hac & Hex & _ & Hux & _ & Hother).
  pose proof (flags_fixed_fields _ _ _ _ H) as (_ & Epf & Epid & Erem).
  rewrite Hl0 in Hli. rewrite Hc0 in Hch. cbn [app] in Hli, Hch.
  unfold proxy_shutdown. rewrite Erem.
  (* children *)
  set (wj := if remote_executors_enabled c then join_all (executors p) (join_all (acceptors p) w')
             else join_all (acceptors p) w').
  assert (Hj : fs wj = fs w' /\ listening wj = listening w' /\ children wj = []).
  { subst wj. destruct (remote_executors_enabled c);
      cbn [join_all set_children fs listening children]; (split; [reflexivity|split; [reflexivity|]]).
    - apply filter_joined. intros x Hx. apply filter_In in Hx as (Hx & Hnm).
      rewrite Hch in Hx. apply in_app_or in Hx as [Hx|Hx]; [assumption|].
      apply (mem_In child_eqb child_eqb_eq) in Hx. rewrite Hx in Hnm. discriminate.
    - rewrite Hch, Hex. cbn [app]. apply filter_joined. auto. }
  destruct Hj as (Hjf & Hjl & Hjc). fold wj. clearbody wj.
  (* listeners *)
  apply proxy_setup_steps in H as (w1 & pool & w2 & port' & raw & w3 & _ & Hpool & _ & _ & _ & Ep & _).
  assert (ELp : listeners p = pool) by (rewrite Ep; reflexivity).
  rewrite ELp in *.
  apply pool_setup_inv in Hpool as (ls & F & _ & _ & Hm).
  assert (Htl : forall l, In l ls -> is_tcp l = true).
  { intros l Hl. destruct (Forall2_In_r _ _ _ _ F Hl) as (a & _ & Ha). exact (bound_as_tcp _ _ Ha). }
  assert (Hps : exists w3', pool_shutdown pool wj = Ok w3' /\ listening w3' = [] /\ children w3' = [] /\
            forall g, fs w3' g = if match unix_socket_path c with Some u => bytes_eqb g u | None => false end
                                 then None else fs w' g).
  { destruct (unix_socket_path c) as [u|] eqn:Eu.
    - destruct Hm as (-> & _). destruct (Hux u eq_refl) as (Hsock & _).
      cbn [pool_shutdown]. unfold listener_shutdown, os_remove.
      cbn [set_listening fs listening children]. rewrite Hjl, Hli. cbn [remove_one].
      rewrite listener_eqb_refl, Hjf, Hsock. cbn [bind].
      match goal with |- context [pool_shutdown ls ?w0] =>
        destruct (tcp_shutdown ls w0 [] Htl) as (w3' & E3 & L3 & F3 & C3) end.
      { cbn [set_fs set_listening listening]. now rewrite app_nil_r. }
      exists w3'. split; [exact E3|]. split; [exact L3|]. split.
      + rewrite C3. cbn [set_fs set_listening children]. exact Hjc.
      + intros g. rewrite F3. cbn [set_fs set_listening fs]. unfold fs_del. reflexivity.
    - destruct Hm as (-> & _).
      destruct (tcp_shutdown ls wj [] Htl) as (w3' & E3 & L3 & F3 & C3).
      { rewrite Hjl, Hli. now rewrite app_nil_r. }
      exists w3'. split; [exact E3|]. split; [exact L3|]. split; [now rewrite C3|].
      intros g. now rewrite F3, Hjf. }
  destruct Hps as (w3' & E3 & L3 & C3 & F3). rewrite E3. cbn [bind].
  eexists. split; [reflexivity|].
  unfold delete_pid_file, delete_port_file. rewrite Epf, Epid.
  destruct (delete_fs (port_file c) w3' []) as (_ & La & Ca).
  destruct (delete_fs (pid_file c) (delete_file_if_exists (port_file c) w3') []) as (_ & Lb & Cb).
  split; [now rewrite Lb, La|]. split; [now rewrite Cb, Ca|].
  assert (Hfinal : forall g, fs (delete_file_if_exists (pid_file c) (delete_file_if_exists (port_file c) w3')) g =
            match pid_file c with Some f => if bytes_eqb g f then None else fs (delete_file_if_exists (port_file c) w3') g | None => fs (delete_file_if_exists (port_file c) w3') g end)
    by (intros g; apply (delete_fs (pid_file c) (delete_file_if_exists (port_file c) w3') g)).
  assert (Hmid : forall g, fs (delete_file_if_exists (port_file c) w3') g =
            match port_file c with Some f => if bytes_eqb g f then None else fs w3' g | None => fs w3' g end)
    by (intros g; apply (delete_fs (port_file c) w3' g)).
  split.
  - intros f Hf. rewrite Hfinal, Hmid, F3.
    destruct (pid_file c) as [f1|]; [destruct (bytes_eqb f f1) eqn:B1; [reflexivity|]|];
      (destruct (port_file c) as [f2|]; [destruct (bytes_eqb f f2) eqn:B2; [reflexivity|]|]);
      (destruct (unix_socket_path c) as [u|]; [destruct (bytes_eqb f u) eqn:B3; [reflexivity|]|]).
    all: exfalso.
    all: repeat match goal with
         | Hb : bytes_eqb ?a ?b = false |- _ =>
             assert (a <> b) by (intros ->; rewrite bytes_eqb_refl in Hb; discriminate); clear Hb
         end.
    all: intuition congruence.
  - intros f N1 N2 N3. rewrite Hfinal, Hmid, F3, <- (Hother f N1 N2 N3).
    assert (B : forall g, Some g <> Some f -> bytes_eqb f g = false).
    { intros g Hg. destruct (bytes_eqb f g) eqn:B; [|reflexivity]. apply bytes_eqb_eq in B. congruence. }
    destruct (pid_file c) as [f1|]; [rewrite (B f1 N1)|];
      (destruct (port_file c) as [f2|]; [rewrite (B f2 N2)|]);
      (destruct (unix_socket_path c) as [u|]; [rewrite (B u N3)|]); reflexivity.
Qed.

End Facts.

(* ------------------------------------------------------------------ a concrete oracle (non-vacuity) *)
Definition addr_eq_dec (a b : addr) : {a = b} + {a <> b}.
Proof. decide equality; apply N.eq_dec. Defined.

(* binds succeed; port 0 yields 40000 + (number of earlier binds); sets iterate in first-occurrence order *)
Definition ex_os : os_oracle :=
  {| sock_bind := fun k _ p => Ok (if p =? 0 then 40000 + N.of_nat k else p);
     set_hosts := nodup addr_eq_dec;
     set_ports := nodup N.eq_dec;
     getpid := 4242 |}.

Lemma ex_os_spec : os_spec ex_os.
Proof.
  split; [|split].
  - intros k h p q H. cbn [sock_bind ex_os] in H. inversion H; subst; clear H.
    destruct (p =? 0) eqn:E.
    + apply N.eqb_eq in E. subst. split; [intros C; exfalso; now apply C|].
      intros C. destruct (N.of_nat k); discriminate.
    + apply N.eqb_neq in E. split; [reflexivity|exact E].
  - intros l. split; [apply NoDup_nodup|intros x; apply nodup_In].
  - intros l. split; [apply NoDup_nodup|intros x; apply nodup_In].
Qed.

(* ------------------------------------------------------------------ the port file can be read back *)
(* a reader of the port file: lines terminated by LF, each a decimal integer (what a client of
   --port-file does with int(line)); specification-side, not part of the proxy *)
Fixpoint read_port_lines (acc : N) (l : bytes) : list N :=
  match l with
  | [] => []
  | x :: t => if x =? LF then acc :: read_port_lines 0 t else read_port_lines (acc * 10 + (x - 48)) t
  end.
Definition read_port_file (content : bytes) : list N := read_port_lines 0 content.

Lemma read_port_lines_line d : forall acc rest, all_digits d = true ->
  read_port_lines acc (d ++ LF :: rest) = digits_val_aux d acc :: read_port_lines 0 rest.
Proof.
  induction d as [|x t IH]; intros acc rest Hd.
  - cbn [app read_port_lines digits_val_aux]. now rewrite N.eqb_refl.
  - cbn [all_digits forallb] in Hd. apply andb_true_iff in Hd as [Hx Ht].
    cbn [app read_port_lines digits_val_aux].
    assert (E : (x =? LF) = false).
    { apply N.eqb_neq. unfold is_digit in Hx. apply andb_true_iff in Hx as [Hlo _].
      apply N.leb_le in Hlo. unfold LF. lia. }
    rewrite E. now apply IH.
Qed.

Lemma read_port_file_lines l : read_port_file (port_lines l) = l.
Proof.
  unfold read_port_file. induction l as [|q l IH]; [reflexivity|].
  rewrite port_lines_cons, <- app_assoc. cbn [app].
  destruct (dec_of_N_spec q) as (_ & Hd & Hv).
  rewrite read_port_lines_line by exact Hd. rewrite IH. f_equal. exact Hv.
Qed.

Lemma port_lines_inj a b : port_lines a = port_lines b -> a = b.
Proof. intros H. rewrite <- (read_port_file_lines a), <- (read_port_file_lines b). now rewrite H. Qed.
