(* Exec/ThreadlessOldFacts.v — the loop as found violates C05: machine-checked witnesses
   (vm_compute over the model of the unrepaired code, Exec/ThreadlessOld.v, instantiated with the
   scripted works of Exec/ThreadlessCases.v).  Each witness is replayed on the real code by the
   harness (corpus/C05/*.json).  Also: the scripted works satisfy the discipline premise of the
   non-interference theorem, and a concrete non-vacuity example. *)
From PM Require Import Lib.Bytes Lib.ZDict Lib.ZDictFacts Exec.Threadless Exec.ThreadlessOld Exec.ThreadlessCases
  Exec.ThreadlessFacts Exec.ThreadlessNI.
From Coq Require Import ZArith Lia.

Definition OLD_RUN := old_run_forever swork unit sw_initialize sw_get_events sw_handle_events sw_shutdown sw_is_inactive.
Definition NEW_RUN := run_forever swork unit sw_initialize sw_get_events sw_handle_events sw_shutdown sw_is_inactive.

(* a canary connection (work 12): registers its client descriptor for READ, serves one request, goes away *)
Definition canary : swork := mk_swork None [inl [(12%Z, 1)]; inl [(12%Z, 1)]; inl [(12%Z, 1)]] [inl false; inl true] None [].

(* (a) work 11: its shutdown() raises UnicodeDecodeError (a request path with a non-UTF-8 byte makes
   HttpProxyPlugin.on_client_connection_close raise) when the connection is torn down *)
Definition w_bad_shutdown : swork := mk_swork None [inl [(11%Z, 1)]; inl [(11%Z, 1)]] [inl true] (Some 5) [].
Definition sched_a : list sevent :=
  [ mk_event [] [] (ANew 11%Z w_bad_shutdown) [11%Z; 12%Z] 100 false;
    mk_event [] [(11%Z, 1)] (ANew 12%Z canary) [11%Z; 12%Z] 103 false;
    mk_event [] [(12%Z, 1)] ANone [11%Z; 12%Z] 106 false;
    mk_event [] [(12%Z, 1)] ANone [11%Z; 12%Z] 109 false ].

Lemma refuted_old_shutdown :
  exists st, OLD_RUN None 39 sched_a (init_state swork None) = (st, Crashed UnicodeDecodeError)
             /\ zmem 12%Z (works st) = true           (* the canary is still waiting, nobody will serve it *)
             /\ (exists w, zget 12%Z (works st) = Some w /\ s_log w = [CInit]).
Proof. eexists. vm_compute. split; [reflexivity|]. split; [reflexivity|]. eexists; split; reflexivity. Qed.

(* the repaired loop, same schedule: keeps running, the canary is served and completes *)
Lemma repaired_shutdown :
  exists st, NEW_RUN None 39 sched_a (init_state swork None) = (st, Running)
             /\ works st = [] /\ registered st = [] /\ sel st = []
             /\ gone_of swork 12%Z (gone st) =
                [mk_swork_full None [inl [(12%Z, 1)]] [] None [] [CInit; CGet; CHandle [12%Z] []; CGet; CHandle [12%Z] []; CShutdown]].
Proof. eexists. vm_compute. repeat split. Qed.

(* (b) work 11: get_events raises (b1), or the selector refuses a descriptor the work has closed or
   replaced: selector.modify -> FileNotFoundError (b2), selector.register -> OSError (b3) *)
Definition w_bad_get : swork := mk_swork None [inl [(11%Z, 1)]; inr 1] [] None [].
Definition sched_b1 : list sevent :=
  [ mk_event [] [] (ANew 11%Z w_bad_get) [11%Z; 12%Z] 100 false;
    mk_event [] [] (ANew 12%Z canary) [11%Z; 12%Z] 103 false;
    mk_event [] [(12%Z, 1)] ANone [11%Z; 12%Z] 106 false ].
Lemma refuted_old_get_events :
  exists st, OLD_RUN None 39 sched_b1 (init_state swork None) = (st, Crashed ValueError) /\ zmem 12%Z (works st) = true.
Proof. eexists. vm_compute. split; reflexivity. Qed.

Definition w_modify : swork := mk_swork None [inl [(11%Z, 1); (111%Z, 1)]; inl [(11%Z, 1); (111%Z, 3)]] [] None [].
Definition sched_b2 : list sevent :=
  [ mk_event [] [] (ANew 11%Z w_modify) [11%Z; 12%Z] 100 false;
    mk_event [] [] (ANew 12%Z canary) [11%Z; 12%Z] 103 false;
    mk_event [(111%Z, 0)] [(12%Z, 1)] ANone [11%Z; 12%Z] 106 false ].
Lemma refuted_old_modify :
  exists st, OLD_RUN None 39 sched_b2 (init_state swork None) = (st, Crashed (OSError 0)) /\ zmem 12%Z (works st) = true.
Proof. eexists. vm_compute. split; reflexivity. Qed.

Definition w_register : swork := mk_swork None [inl [(11%Z, 1)]; inl [(11%Z, 1); (112%Z, 1)]] [] None [].
Definition sched_b3 : list sevent :=
  [ mk_event [] [] (ANew 11%Z w_register) [11%Z; 12%Z] 100 false;
    mk_event [] [] (ANew 12%Z canary) [11%Z; 12%Z] 103 false;
    mk_event [(112%Z, 0)] [(12%Z, 1)] ANone [11%Z; 12%Z] 106 false ].
Lemma refuted_old_register :
  exists st, OLD_RUN None 39 sched_b3 (init_state swork None) = (st, Crashed (OSError 0)) /\ zmem 12%Z (works st) = true.
Proof. eexists. vm_compute. split; reflexivity. Qed.

(* (c) work 11: is_inactive raises during the periodic sweep *)
Definition w_bad_inactive : swork := mk_swork None [inl [(11%Z, 1)]] [] None [inr 4].
Definition sched_c : list sevent :=
  [ mk_event [] [] (ANew 11%Z w_bad_inactive) [11%Z; 12%Z] 100 false;
    mk_event [] [] (ANew 12%Z canary) [11%Z; 12%Z] 103 false;
    mk_event [] [(12%Z, 1)] ANone [11%Z; 12%Z] 106 false ].
Lemma refuted_old_is_inactive :
  exists st, OLD_RUN None 1 sched_c (init_state swork None) = (st, Crashed AssertionError) /\ zmem 12%Z (works st) = true.
Proof. eexists. vm_compute. split; reflexivity. Qed.

(* ------------------------------------------------------------------ the scripted works are disciplined *)
(* descriptor numbers used by the harness: work i owns i, 10 i + 1, 10 i + 2 *)
Definition sw_owner (f : fd) : work_id := if (f <? 100)%Z then f else (f / 10)%Z.
Definition sw_good (i : work_id) (w : swork) : Prop :=
  forall evs, In (inl evs) (s_get w) -> forall f m, In (f, m) evs -> (0 <= f)%Z -> sw_owner f = i.

Lemma sw_disciplined :
  disciplined swork unit sw_initialize sw_get_events sw_handle_events sw_is_inactive sw_owner sw_good.
Proof.
  constructor.
  - intros i w io H. exact H.
  - intros i w io H. unfold sw_get_events. cbn [logc s_get].
    destruct (s_get w) as [|x t] eqn:E.
    + cbn [fst snd]. split; [unfold sw_good; cbn [s_get logc]; rewrite E; intros ? []|].
      intros evs X; inversion X; subst. intros ? ? [].
    + cbn [fst snd]. split.
      * unfold sw_good in *. cbn [s_get]. intros evs Hin. apply H. rewrite E. right; exact Hin.
      * destruct x as [ev|c]; [|discriminate]. intros evs X; inversion X; subst.
        apply (H evs). rewrite E. left; reflexivity.
  - intros i w r wr io H. unfold sw_handle_events. cbn [logc s_handle].
    destruct (s_handle w); cbn [fst]; exact H.
  - intros i w c io H. unfold sw_is_inactive. cbn [logc s_inactive].
    destruct (s_inactive w); cbn [fst]; exact H.
Qed.

(* ------------------------------------------------------------------ non-vacuity of the premises of C05 *)
Definition all_fin (e : sevent) : sevent :=
  {| ev_kfail := ev_kfail e; ev_ready := ev_ready e; ev_arrival := ev_arrival e; ev_fin := fun _ => true;
     ev_io := ev_io e; ev_clock := ev_clock e; ev_running_set := ev_running_set e |}.
Definition sched_nv : list sevent := map all_fin sched_a.

Lemma premises_nonvacuous :
  sched_ok swork unit sw_initialize sw_get_events sw_handle_events sw_shutdown sw_is_inactive None 39
           sched_nv (init_state swork None)
  /\ Forall (arrival_good swork unit sw_good) sched_nv
  /\ Forall (prompt_ev swork unit) sched_nv
  /\ (exists st, NEW_RUN None 39 sched_nv (init_state swork None) = (st, Running) /\ length (gone st) = 2%nat).
Proof.
  split; [|split; [|split]].
  - vm_compute. repeat split; discriminate.
  - unfold sched_nv, sched_a. cbn [map]. repeat constructor; unfold arrival_good; cbn [ev_arrival all_fin mk_event].
    + unfold sw_good. cbn [s_get w_bad_shutdown mk_swork]. intros evs [X|[X|[]]]; inversion X; subst;
        intros f m [Y|[]]; inversion Y; subst; intros _; reflexivity.
    + unfold sw_good. cbn [s_get canary mk_swork]. intros evs [X|[X|[X|[]]]]; inversion X; subst;
        intros f m [Y|[]]; inversion Y; subst; intros _; reflexivity.
  - unfold sched_nv. apply Forall_forall. intros e Hin. apply in_map_iff in Hin as (e0 & <- & _). intros j; reflexivity.
  - eexists. vm_compute. split; reflexivity.
Qed.
