(* Exec/Threadless.v — model of proxy/core/work/threadless.py (the REPAIRED loop, see
   proposed_fixes/C05-guard-per-work-steps.diff), proxy/core/work/fd/fd.py (work),
   fd/local.py and fd/remote.py (receive_from_work_queue, work_queue_fileno).
   Generic in the work: the five entry points of proxy/core/work/work.py are Section variables,
   arbitrary functions that may mutate the work AND raise at every call.
   Definitions only; lemmas in ThreadlessFacts.v; the unrepaired loop is ThreadlessOld.v.

   Python                                   Gallina
   ------                                   -------
   selectors.EpollSelector.register         sel_register      (python-level map + kernel outcome)
   selectors.EpollSelector.modify           sel_modify        (a failing epoll_ctl DROPS the key)
   selectors.EpollSelector.unregister       sel_unregister
   Threadless._update_work_events           update_work_events / uwe_one (loop body)
   Threadless._update_selector              update_selector
   Threadless._selected_events              selected_events / select_one
   LocalFdExecutor/RemoteFdExecutor
     .receive_from_work_queue               receive_from_work_queue
   ThreadlessFdExecutor.work                do_work
   Threadless._create_tasks                 create_tasks
   Threadless._wait_for_tasks               wait_for_tasks (+ run_tasks: the coroutines that complete)
   Threadless._cleanup                      cleanup
   Threadless._cleanup_inactive             cleanup_inactive
   Threadless._run_once                     run_once  (= update_selector ; run_once_rest)
   Threadless._run_forever                  loop_body (one turn of the while) / run_forever
   Threadless.run                           init_state + run_forever

   Modelling decisions (all restated in notes/C05.md):
   * one [event] = everything the environment decides during one turn of the while-loop of
     _run_forever: which epoll_ctl calls fail, what select returns, what the work queue holds,
     which tasks are complete when asyncio.wait returns, the clock, the shutdown flag;
   * a task's coroutine takes effect atomically in the iteration in which it completes
     (proxy.py's own handlers never yield to the loop inside handle_events, so they complete in
     the iteration that created them);
   * connection pool off (flags.enable_conn_pool False, the default): _upstream_conn_filenos is
     empty and _update_conn_pool_events returns at once. *)
From PM Require Import Lib.Bytes Lib.ZDict.
From Coq Require Import ZArith.

Definition fd := Z.
Definition work_id := Z.
Definition mask := N.
Definition EVENT_READ : N := 1.
Definition EVENT_WRITE : N := 2.
Definition sel_events := zdict mask.          (* SelectableEvents = Dict[int, int] *)

(* ------------------------------------------------------------------ selectors.EpollSelector *)
Definition selkey := (mask * Z)%type.                 (* (events, data); fileobj = fd = the key *)
Definition selmap := zdict selkey.
Definition kfail := list (fd * N).                    (* epoll_ctl ADD/MOD on fd fails with OSError k *)

Definition sel_register (kf : kfail) (sm : selmap) (f : fd) (ev : mask) (data : Z) : result selmap :=
  if (ev =? 0) || (3 <? ev) then Err ValueError              (* "Invalid events" *)
  else if (f <? 0)%Z then Err ValueError                     (* "Invalid file descriptor" *)
  else if zmem f sm then Err KeyError                        (* "already registered" *)
  else match zget f kf with
       | Some k => Err (OSError k)                           (* key added then removed again *)
       | None => Ok (zset f (ev, data) sm)
       end.

Definition sel_modify (kf : kfail) (sm : selmap) (f : fd) (ev : mask) (data : Z) : selmap * result unit :=
  if (f <? 0)%Z then (sm, Err ValueError) else
  match zget f sm with
  | None => (sm, Err KeyError)
  | Some (oev, odata) =>
      if ev =? oev then (zset f (oev, data) sm, Ok tt)
      else match zget f kf with
           | Some k => (zdel f sm, Err (OSError k))          (* except: super().unregister(fileobj); raise *)
           | None => (zset f (ev, data) sm, Ok tt)
           end
  end.

Definition sel_unregister (sm : selmap) (f : fd) : result selmap :=
  if (f <? 0)%Z then Err ValueError
  else if zmem f sm then Ok (zdel f sm)                      (* kernel OSError is swallowed by selectors *)
  else Err KeyError.

(* ------------------------------------------------------------------ executor state *)
Record task := { t_work : work_id; t_r : list fd; t_w : list fd }.
Inductive osop := OsDup (f : fd) | OsClose (f : fd).          (* socket.dup / os.close done by the executor itself *)
Inductive status := Running | Stopped | Crashed (e : exn).

Section Exec.
  Variable W : Type.       (* the work object (mutable: every entry point returns the new one) *)
  Variable IO : Type.      (* what the environment decides for one work in one iteration *)
  Variable w_initialize : W -> IO -> W * result unit.
  Variable w_get_events : W -> IO -> W * result sel_events.
  Variable w_handle_events : W -> list fd -> list fd -> IO -> W * result bool.
  Variable w_shutdown : W -> IO -> W * result unit.
  Variable w_is_inactive : W -> N -> IO -> W * result bool.
  Variable wq : option fd.       (* work_queue_fileno(): None = LocalFdExecutor, Some = RemoteFdExecutor *)
  Variable tick_limit : N.       (* least tick with tick * (SELECT_TIMEOUT + wait_timeout) >= cleanup_inactive_timeout *)

  Record state := {
    works : zdict W;                           (* self.works *)
    registered : zdict (zdict mask);           (* self.registered_events_by_work_ids *)
    sel : selmap;                              (* self.selector.get_map() *)
    unfinished : list task;                    (* self.unfinished *)
    tick : N;                                  (* local of _run_forever *)
    total : N;                                 (* self._total *)
    gone : list (work_id * W);                 (* ghost: works after their shutdown() (most recent last) *)
    oslog : list osop                          (* ghost: descriptor operations of the executor itself *)
  }.
  Definition set_works st x := {| works := x; registered := registered st; sel := sel st; unfinished := unfinished st;
                                  tick := tick st; total := total st; gone := gone st; oslog := oslog st |}.
  Definition set_registered st x := {| works := works st; registered := x; sel := sel st; unfinished := unfinished st;
                                  tick := tick st; total := total st; gone := gone st; oslog := oslog st |}.
  Definition set_sel st x := {| works := works st; registered := registered st; sel := x; unfinished := unfinished st;
                                  tick := tick st; total := total st; gone := gone st; oslog := oslog st |}.
  Definition set_unfinished st x := {| works := works st; registered := registered st; sel := sel st; unfinished := x;
                                  tick := tick st; total := total st; gone := gone st; oslog := oslog st |}.
  Definition set_tick st x := {| works := works st; registered := registered st; sel := sel st; unfinished := unfinished st;
                                  tick := x; total := total st; gone := gone st; oslog := oslog st |}.
  Definition set_total st x := {| works := works st; registered := registered st; sel := sel st; unfinished := unfinished st;
                                  tick := tick st; total := x; gone := gone st; oslog := oslog st |}.
  Definition set_gone st x := {| works := works st; registered := registered st; sel := sel st; unfinished := unfinished st;
                                  tick := tick st; total := total st; gone := x; oslog := oslog st |}.
  Definition set_oslog st x := {| works := works st; registered := registered st; sel := sel st; unfinished := unfinished st;
                                  tick := tick st; total := total st; gone := gone st; oslog := x |}.

  Inductive arrival := ANone | AStop | ANew (id : work_id) (w : W).
  Record event := {
    ev_kfail : kfail;               (* epoll_ctl failures during this iteration *)
    ev_ready : list (fd * mask);    (* what epoll reports, as READ/WRITE bits (before `& key.events`) *)
    ev_arrival : arrival;           (* what the work queue yields if asked *)
    ev_fin : work_id -> bool;       (* is the task of this work complete when asyncio.wait returns *)
    ev_io : work_id -> IO;
    ev_clock : N;
    ev_running_set : bool           (* self.running.is_set() *)
  }.

  Definition regs_of (i : work_id) (st : state) : zdict mask :=
    match zget i (registered st) with Some d => d | None => [] end.

  (* ---------------------------------------------------------------- _cleanup (repaired) *)
  Definition unregister_tolerant (sm : selmap) (f : fd) : selmap :=
    match sel_unregister sm f with Ok sm' => sm' | Err _ => sm end.   (* except (KeyError, ValueError, OSError): pass *)

  Definition cleanup (e : event) (i : work_id) (st : state) : state :=
    let st1 := match zget i (registered st) with
               | Some regs =>
                   set_registered (set_sel st (fold_left unregister_tolerant (zkeys regs) (sel st)))
                                  (zdel i (registered st))
               | None => st
               end in
    match zget i (works st1) with
    | None => st1                                               (* work = self.works.pop(work_id, None); if work is None: return *)
    | Some w =>
        let st2 := set_works st1 (zdel i (works st1)) in
        let (w', _) := w_shutdown w (ev_io e i) in              (* try: work.shutdown() except Exception: logged *)
        let st3 := set_gone st2 (gone st2 ++ [(i, w')]) in
        match wq with
        | Some _ => set_oslog st3 (oslog st3 ++ [OsClose i])    (* finally: os.close(work_id) *)
        | None => st3
        end
    end.

  (* ---------------------------------------------------------------- _update_work_events *)
  Definition uwe_one (e : event) (i : work_id) (st : state) (fm : fd * mask) : state * result unit :=
    let (fileno, m) := fm in
    let st := if zmem i (registered st) then st else set_registered st (zset i [] (registered st)) in
    match zget fileno (regs_of i st) with
    | Some oldmask =>
        if m =? oldmask then (st, Ok tt)
        else let (sm', r) := sel_modify (ev_kfail e) (sel st) fileno m i in
             match r with
             | Err x => (set_sel st sm', Err x)
             | Ok _ => (set_registered (set_sel st sm') (zset i (zset fileno m (regs_of i st)) (registered st)), Ok tt)
             end
    | None =>
        (* elif fileno in self._upstream_conn_filenos: never, the pool is off *)
        if (fileno =? -1)%Z then (st, Ok tt)
        else match sel_register (ev_kfail e) (sel st) fileno m i with
             | Ok sm' => (set_registered (set_sel st sm') (zset i (zset fileno m (regs_of i st)) (registered st)), Ok tt)
             | Err KeyError => (st, Ok tt)                      (* except KeyError: logger.warning *)
             | Err x => (st, Err x)
             end
    end.

  Fixpoint uwe_loop (e : event) (i : work_id) (st : state) (evs : sel_events) : state * result unit :=
    match evs with
    | [] => (st, Ok tt)
    | fm :: t => let (st', r) := uwe_one e i st fm in
                 match r with Ok _ => uwe_loop e i st' t | Err x => (st', Err x) end
    end.

  Definition update_work_events (e : event) (i : work_id) (st : state) : state * result unit :=
    match zget i (works st) with
    | None => (st, Err KeyError)
    | Some w =>
        let (w', r) := w_get_events w (ev_io e i) in
        let st := set_works st (zset i w' (works st)) in
        match r with
        | Err x => (st, Err x)
        | Ok evs => uwe_loop e i st evs
        end
    end.

  (* ---------------------------------------------------------------- _update_selector (repaired) *)
  Definition update_selector_one (e : event) (unf : list work_id) (st : state) (i : work_id) : state :=
    if zin i unf then st
    else let (st', r) := update_work_events e i st in
         match r with
         | Ok _ => st'
         | Err _ => cleanup e i st'             (* except Exception: logger.exception; self._cleanup(work_id) *)
         end.

  Definition update_selector (e : event) (st : state) : state :=
    let unf := map t_work (unfinished st) in
    fold_left (update_selector_one e unf) (zkeys (works st)) st.     (* for work_id in list(self.works) *)

  (* ---------------------------------------------------------------- _selected_events (after _update_selector) *)
  Definition work_by_ids := zdict (list fd * list fd).

  Definition is_wq (f : fd) : bool := match wq with Some q => (f =? q)%Z | None => false end.

  Definition select_one (sm : selmap) (acc : work_by_ids * bool) (fm : fd * mask) : result (work_by_ids * bool) :=
    let (wbi, nwa) := acc in
    let (f, ev) := fm in
    match zget f sm with
    | None => Ok acc                                   (* selectors: `key = fd_to_key.get(fd); if key:` *)
    | Some (kev, data) =>
        let m := N.land ev kev in
        if negb nwa && is_wq f then
          if N.land m EVENT_READ =? 0 then Err AssertionError else Ok (wbi, true)
        else
          let wbi := if zmem data wbi then wbi else zset data ([], []) wbi in
          let '(rs, ws) := match zget data wbi with Some x => x | None => ([], []) end in
          let rs := if N.land m EVENT_READ =? 0 then rs else rs ++ [f] in
          let ws := if N.land m EVENT_WRITE =? 0 then ws else ws ++ [f] in
          Ok (zset data (rs, ws) wbi, nwa)
    end.

  Fixpoint select_loop (sm : selmap) (acc : work_by_ids * bool) (l : list (fd * mask)) : result (work_by_ids * bool) :=
    match l with
    | [] => Ok acc
    | fm :: t => match select_one sm acc fm with Ok acc' => select_loop sm acc' t | Err x => Err x end
    end.

  Definition selected_events (e : event) (st : state) : result (work_by_ids * bool) :=
    select_loop (sel st) ([], match wq with None => true | Some _ => false end) (ev_ready e).

  (* ---------------------------------------------------------------- work / receive_from_work_queue *)
  Definition do_work (e : event) (i : work_id) (w : W) (st : state) : state :=
    let st := match wq with                                   (* conn = conn or socket.socket(fileno=socket.dup(fileno)) *)
              | Some _ => set_oslog st (oslog st ++ [OsDup i])
              | None => st end in
    let st := set_works st (zset i w (works st)) in           (* self.works[fileno] = self.create(...) *)
    let (w', r) := w_initialize w (ev_io e i) in
    let st := set_works st (zset i w' (works st)) in
    match r with
    | Ok _ => set_total st (total st + 1)
    | Err _ => cleanup e i st                                  (* except Exception: logged; self._cleanup(fileno) *)
    end.

  Definition receive_from_work_queue (e : event) (st : state) : state * bool :=
    match ev_arrival e with
    | ANone => (st, false)                                     (* queue.Empty suppressed *)
    | AStop => (st, true)                                      (* `work is False` -> tear the loop down *)
    | ANew i w => (do_work e i w st, false)
    end.

  (* ---------------------------------------------------------------- _create_tasks *)
  Fixpoint create_tasks (st : state) (wbi : work_by_ids) : result (list task) :=
    match wbi with
    | [] => Ok []
    | (i, (rs, ws)) :: t =>
        if (i =? 0)%Z then Err AssertionError                  (* work_id 0 = connection pool: assert self._upstream_conn_pool *)
        else match zget i (works st) with
             | None => Err KeyError                            (* self.works[work_id] *)
             | Some _ => match create_tasks st t with
                         | Ok ts => Ok ({| t_work := i; t_r := rs; t_w := ws |} :: ts)
                         | Err x => Err x
                         end
             end
    end.

  (* ---------------------------------------------------------------- _wait_for_tasks + the coroutines that complete *)
  Definition wait_for_tasks (e : event) (st : state) : list task * state :=
    let fin := filter (fun t => ev_fin e (t_work t)) (unfinished st) in
    let rest := filter (fun t => negb (ev_fin e (t_work t))) (unfinished st) in
    (fin, set_unfinished st rest).

  (* the work object a task is bound to: the live one, else the one already shut down *)
  Fixpoint last_gone (i : work_id) (g : list (work_id * W)) : option W :=
    match g with
    | [] => None
    | (j, w) :: t => match last_gone i t with Some x => Some x | None => if (i =? j)%Z then Some w else None end
    end.
  Fixpoint set_last_gone (i : work_id) (w' : W) (g : list (work_id * W)) : list (work_id * W) :=
    match g with
    | [] => []
    | (j, w) :: t => match last_gone i t with
                     | Some _ => (j, w) :: set_last_gone i w' t
                     | None => if (i =? j)%Z then (j, w') :: t else (j, w) :: t
                     end
    end.

  (* run one completed coroutine: returns the `teardown` computed by
     try: teardown = task.result() except Exception: teardown = True *)
  Definition run_task (e : event) (st : state) (t : task) : state * bool :=
    let i := t_work t in
    match zget i (works st) with
    | Some w =>
        let (w', r) := w_handle_events w (t_r t) (t_w t) (ev_io e i) in
        (set_works st (zset i w' (works st)), match r with Ok b => b | Err _ => true end)
    | None =>
        match last_gone i (gone st) with
        | Some w =>
            let (w', r) := w_handle_events w (t_r t) (t_w t) (ev_io e i) in
            (set_gone st (set_last_gone i w' (gone st)), match r with Ok b => b | Err _ => true end)
        | None => (st, true)
        end
    end.

  Fixpoint run_tasks (e : event) (st : state) (ts : list task) : state * list (work_id * bool) :=
    match ts with
    | [] => (st, [])
    | t :: rest => let (st', td) := run_task e st t in
                   let (st'', l) := run_tasks e st' rest in
                   (st'', (t_work t, td) :: l)
    end.

  Definition cleanup_finished (e : event) (st : state) (res : list (work_id * bool)) : state :=
    fold_left (fun st (x : work_id * bool) => if snd x then cleanup e (fst x) st else st) res st.

  (* ---------------------------------------------------------------- _run_once *)
  Definition run_once_rest (e : event) (st : state) : state * result bool :=
    match selected_events e st with
    | Err x => (st, Err x)
    | Ok (wbi, nwa) =>
        let (st1, teardown) := if nwa then receive_from_work_queue e st else (st, false) in
        if teardown then (st1, Ok true)
        else match wbi with
             | [] => (st1, Ok false)                            (* if len(work_by_ids) == 0: return False *)
             | _ =>
                 match create_tasks st1 wbi with
                 | Err x => (st1, Err x)
                 | Ok ts =>
                     let st2 := set_unfinished st1 (unfinished st1 ++ ts) in
                     let (fin, st3) := wait_for_tasks e st2 in
                     let (st4, res) := run_tasks e st3 fin in
                     (cleanup_finished e st4 res, Ok false)
                 end
             end
    end.

  Definition run_once (e : event) (st : state) : state * result bool :=
    run_once_rest e (update_selector e st).

  (* ---------------------------------------------------------------- _cleanup_inactive (repaired) *)
  Fixpoint inactive_scan (e : event) (st : state) (ids : list work_id) : state * list work_id :=
    match ids with
    | [] => (st, [])
    | i :: t =>
        match zget i (works st) with
        | None => inactive_scan e st t
        | Some w =>
            let (w', r) := w_is_inactive w (ev_clock e) (ev_io e i) in
            let st' := set_works st (zset i w' (works st)) in
            let inactive := match r with Ok b => b | Err _ => true end in   (* except Exception: logged; inactive = True *)
            let (st'', l) := inactive_scan e st' t in
            (st'', if inactive then i :: l else l)
        end
    end.

  Definition cleanup_inactive (e : event) (st : state) : state :=
    let (st', l) := inactive_scan e st (zkeys (works st)) in
    fold_left (fun st i => cleanup e i st) l st'.

  (* ---------------------------------------------------------------- one turn of `while True` in _run_forever *)
  Definition loop_body (e : event) (st : state) : state * status :=
    let (st1, r) := run_once e st in
    match r with
    | Err x => (st1, Crashed x)
    | Ok true => (st1, Stopped)
    | Ok false =>
        if tick_limit <=? tick st1 then
          let st2 := cleanup_inactive e st1 in
          if ev_running_set e then (st2, Stopped)
          else (set_tick st2 1, Running)                       (* tick = 0 ; tick += 1 *)
        else (set_tick st1 (tick st1 + 1), Running)
    end.

  Fixpoint run_forever (evs : list event) (st : state) : state * status :=
    match evs with
    | [] => (st, Running)
    | e :: t => let (st', s) := loop_body e st in
                match s with Running => run_forever t st' | _ => (st', s) end
    end.

  (* Threadless.run: fresh selector, work-queue descriptor registered for READ with data = itself *)
  Definition init_state : state :=
    {| works := []; registered := [];
       sel := match wq with Some q => [(q, (EVENT_READ, q))] | None => [] end;
       unfinished := []; tick := 0; total := 0; gone := []; oslog := [] |}.

  (* the state the selector is in when select() is called in each iteration that starts
     (observation point of the correspondence) *)
  Fixpoint mid_states (evs : list event) (st : state) : list state :=
    match evs with
    | [] => []
    | e :: t => update_selector e st ::
                (let (st', s) := loop_body e st in
                 match s with Running => mid_states t st' | _ => [] end)
    end.
End Exec.

Arguments works {W}. Arguments registered {W}. Arguments sel {W}. Arguments unfinished {W}.
Arguments tick {W}. Arguments total {W}. Arguments gone {W}. Arguments oslog {W}.
Arguments set_works {W}. Arguments set_registered {W}. Arguments set_sel {W}. Arguments set_unfinished {W}.
Arguments set_tick {W}. Arguments set_total {W}. Arguments set_gone {W}. Arguments set_oslog {W}.
Arguments ANone {W}. Arguments AStop {W}. Arguments ANew {W}.
Arguments ev_kfail {W IO}. Arguments ev_ready {W IO}. Arguments ev_arrival {W IO}. Arguments ev_fin {W IO}.
Arguments ev_io {W IO}. Arguments ev_clock {W IO}. Arguments ev_running_set {W IO}.
