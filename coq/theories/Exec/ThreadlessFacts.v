(* Exec/ThreadlessFacts.v — lemmas about the repaired executor loop of Exec/Threadless.v.
   Part 1: the bookkeeping invariant [inv] (selector map and registered_events_by_work_ids describe
   each other, every registration belongs to a live work) is preserved by every step, for ALL
   behaviours of the works, and implies that no exception escapes _run_once. *)
From PM Require Import Lib.Bytes Lib.ZDict Lib.ZDictFacts Exec.Threadless.
From Coq Require Import ZArith Lia.

Lemma zin_app k l1 l2 : zin k (l1 ++ l2) = zin k l1 || zin k l2.
Proof. induction l1 as [|x t IH]; cbn [zin app]; [reflexivity|]. rewrite IH, orb_assoc; reflexivity. Qed.

(* ---------------------------------------------------------------- selector facts *)
Lemma unregister_tolerant_get sm g f :
  zget f (unregister_tolerant sm g) = if (f =? g)%Z && (0 <=? g)%Z then None else zget f sm.
Proof.
  unfold unregister_tolerant, sel_unregister.
  destruct (g <? 0)%Z eqn:Eneg.
  - replace (0 <=? g)%Z with false by (symmetry; apply Z.leb_gt; apply Z.ltb_lt in Eneg; lia).
    rewrite andb_false_r; reflexivity.
  - replace (0 <=? g)%Z with true by (symmetry; apply Z.leb_le; apply Z.ltb_ge in Eneg; lia).
    rewrite andb_true_r. destruct (zmem g sm) eqn:Em.
    + apply zget_zdel.
    + destruct (f =? g)%Z eqn:E; [|reflexivity].
      apply Z.eqb_eq in E; subst. apply zmem_false in Em; assumption.
Qed.

Lemma unregister_all_get l : forall sm f,
  zget f (fold_left unregister_tolerant l sm) = if zin f l && (0 <=? f)%Z then None else zget f sm.
Proof.
  induction l as [|g t IH]; intros sm f; cbn [fold_left zin]; [reflexivity|].
  rewrite IH, unregister_tolerant_get.
  destruct (f =? g)%Z eqn:E.
  - apply Z.eqb_eq in E; subst g. cbn [orb andb]. destruct (0 <=? f)%Z; [|rewrite andb_false_r]; cbn; [destruct (zin f t); reflexivity|reflexivity].
  - cbn [orb andb]. reflexivity.
Qed.

Section Facts.
  Variable W : Type.
  Variable IO : Type.
  Variable w_initialize : W -> IO -> W * result unit.
  Variable w_get_events : W -> IO -> W * result sel_events.
  Variable w_handle_events : W -> list fd -> list fd -> IO -> W * result bool.
  Variable w_shutdown : W -> IO -> W * result unit.
  Variable w_is_inactive : W -> N -> IO -> W * result bool.
  Variable wq : option fd.
  Variable tick_limit : N.

  Notation State := (state W).
  Notation Event := (event W IO).
  Notation CLEANUP := (cleanup W IO w_shutdown wq).
  Notation UWE_ONE := (uwe_one W IO).
  Notation UWE_LOOP := (uwe_loop W IO).
  Notation UWE := (update_work_events W IO w_get_events).
  Notation UPD_ONE := (update_selector_one W IO w_get_events w_shutdown wq).
  Notation UPD := (update_selector W IO w_get_events w_shutdown wq).
  Notation DO_WORK := (do_work W IO w_initialize w_shutdown wq).
  Notation RECEIVE := (receive_from_work_queue W IO w_initialize w_shutdown wq).
  Notation RUN_TASK := (run_task W IO w_handle_events).
  Notation RUN_TASKS := (run_tasks W IO w_handle_events).
  Notation CLEANUP_FIN := (cleanup_finished W IO w_shutdown wq).
  Notation REST := (run_once_rest W IO w_initialize w_handle_events w_shutdown wq).
  Notation RUN_ONCE := (run_once W IO w_initialize w_get_events w_handle_events w_shutdown wq).
  Notation SCAN := (inactive_scan W IO w_is_inactive).
  Notation CLEANUP_INACTIVE := (cleanup_inactive W IO w_shutdown w_is_inactive wq).
  Notation BODY := (loop_body W IO w_initialize w_get_events w_handle_events w_shutdown w_is_inactive wq tick_limit).
  Notation RUN := (run_forever W IO w_initialize w_get_events w_handle_events w_shutdown w_is_inactive wq tick_limit).

  (* ---------------------------------------------------------------- what _cleanup does to each component *)
  Lemma cleanup_works e i (st : State) : works (CLEANUP e i st) = zdel i (works st).
  Proof.
    unfold cleanup.
    set (st1 := match zget i (registered st) with Some _ => _ | None => st end).
    assert (Hw : works st1 = works st) by (subst st1; destruct (zget i (registered st)); reflexivity).
    rewrite Hw. destruct (zget i (works st)) as [w|] eqn:E.
    - destruct (w_shutdown w (ev_io e i)) as [w' r]. destruct wq; cbn; reflexivity.
    - rewrite Hw. symmetry; apply zdel_absent; assumption.
  Qed.

  Lemma cleanup_registered e i (st : State) : registered (CLEANUP e i st) = zdel i (registered st).
  Proof.
    unfold cleanup.
    set (st1 := match zget i (registered st) with Some _ => _ | None => st end).
    assert (Hr : registered st1 = zdel i (registered st)).
    { subst st1. destruct (zget i (registered st)) eqn:E; [reflexivity|]. symmetry; apply zdel_absent; assumption. }
    destruct (zget i (works st1)) as [w|].
    - destruct (w_shutdown w (ev_io e i)) as [w' r]. destruct wq; cbn; exact Hr.
    - exact Hr.
  Qed.

  Lemma cleanup_sel e i (st : State) :
    sel (CLEANUP e i st) = fold_left unregister_tolerant (zkeys (regs_of W i st)) (sel st).
  Proof.
    unfold cleanup, regs_of.
    set (st1 := match zget i (registered st) with Some _ => _ | None => st end).
    assert (Hs : sel st1 = fold_left unregister_tolerant
                             (zkeys match zget i (registered st) with Some d => d | None => [] end) (sel st)).
    { subst st1. destruct (zget i (registered st)); reflexivity. }
    destruct (zget i (works st1)) as [w|].
    - destruct (w_shutdown w (ev_io e i)) as [w' r]. destruct wq; cbn; exact Hs.
    - exact Hs.
  Qed.

  Lemma cleanup_unfinished e i (st : State) : unfinished (CLEANUP e i st) = unfinished st.
  Proof.
    unfold cleanup.
    set (st1 := match zget i (registered st) with Some _ => _ | None => st end).
    assert (Hu : unfinished st1 = unfinished st) by (subst st1; destruct (zget i (registered st)); reflexivity).
    destruct (zget i (works st1)) as [w|]; [|exact Hu].
    destruct (w_shutdown w (ev_io e i)) as [w' r]. destruct wq; cbn; exact Hu.
  Qed.

  Lemma cleanup_tick e i (st : State) : tick (CLEANUP e i st) = tick st.
  Proof.
    unfold cleanup.
    set (st1 := match zget i (registered st) with Some _ => _ | None => st end).
    assert (Hu : tick st1 = tick st) by (subst st1; destruct (zget i (registered st)); reflexivity).
    destruct (zget i (works st1)) as [w|]; [|exact Hu].
    destruct (w_shutdown w (ev_io e i)) as [w' r]. destruct wq; cbn; exact Hu.
  Qed.

  Lemma cleanup_gone e i (st : State) :
    gone (CLEANUP e i st) = match zget i (works st) with
                            | Some w => gone st ++ [(i, fst (w_shutdown w (ev_io e i)))]
                            | None => gone st
                            end.
  Proof.
    unfold cleanup.
    set (st1 := match zget i (registered st) with Some _ => _ | None => st end).
    assert (Hg : gone st1 = gone st /\ works st1 = works st) by (subst st1; destruct (zget i (registered st)); split; reflexivity).
    destruct Hg as [Hg Hw]. rewrite Hw.
    destruct (zget i (works st)) as [w|]; [|exact Hg].
    destruct (w_shutdown w (ev_io e i)) as [w' r]. destruct wq; cbn; rewrite Hg; reflexivity.
  Qed.

  Lemma cleanup_oslog e i (st : State) :
    oslog (CLEANUP e i st) = match zget i (works st), wq with
                             | Some _, Some _ => oslog st ++ [OsClose i]
                             | _, _ => oslog st
                             end.
  Proof.
    unfold cleanup.
    set (st1 := match zget i (registered st) with Some _ => _ | None => st end).
    assert (Hg : oslog st1 = oslog st /\ works st1 = works st) by (subst st1; destruct (zget i (registered st)); split; reflexivity).
    destruct Hg as [Hg Hw]. rewrite Hw.
    destruct (zget i (works st)) as [w|]; [|destruct wq; exact Hg].
    destruct (w_shutdown w (ev_io e i)) as [w' r]. destruct wq; cbn; rewrite Hg; reflexivity.
  Qed.

  Lemma cleanup_total e i (st : State) : total (CLEANUP e i st) = total st.
  Proof.
    unfold cleanup.
    set (st1 := match zget i (registered st) with Some _ => _ | None => st end).
    assert (Hu : total st1 = total st) by (subst st1; destruct (zget i (registered st)); reflexivity).
    destruct (zget i (works st1)) as [w|]; [|exact Hu].
    destruct (w_shutdown w (ev_io e i)) as [w' r]. destruct wq; cbn; exact Hu.
  Qed.

  Lemma regs_of_cleanup e i j (st : State) :
    regs_of W j (CLEANUP e i st) = if (j =? i)%Z then [] else regs_of W j st.
  Proof.
    unfold regs_of at 1. rewrite cleanup_registered, zget_zdel.
    destruct (j =? i)%Z; reflexivity.
  Qed.

  Lemma cleanup_sel_get e i (st : State) f :
    zget f (sel (CLEANUP e i st)) =
    if zmem f (regs_of W i st) && (0 <=? f)%Z then None else zget f (sel st).
  Proof. rewrite cleanup_sel, unregister_all_get, zin_zkeys. reflexivity. Qed.

  (* ---------------------------------------------------------------- the bookkeeping invariant *)
  Record inv (dirty : option work_id) (st : State) : Prop := {
    inv_sel_reg : forall f m d, zget f (sel st) = Some (m, d) ->
        (wq = Some f /\ m = EVENT_READ /\ d = f) \/
        (wq <> Some f /\ zmem d (works st) = true /\ zget f (regs_of W d st) = Some m);
    inv_reg_sel : forall j f m, zget f (regs_of W j st) = Some m ->
        zget f (sel st) = Some (m, j) \/ (dirty = Some j /\ zget f (sel st) = None);
    inv_reg_works : forall j, zmem j (registered st) = true -> zmem j (works st) = true;
    inv_zero : zmem 0%Z (works st) = false;
    inv_fd_nonneg : forall f k, zget f (sel st) = Some k -> wq <> Some f -> (0 <= f)%Z;
    inv_wq : forall q, wq = Some q -> zget q (sel st) = Some (EVENT_READ, q);
    inv_wq_reg : forall q j, wq = Some q -> zget q (regs_of W j st) = None;
    inv_nodup : NoDup (zkeys (works st))
  }.

  Lemma inv_weaken d st : inv None st -> inv d st.
  Proof.
    intros [A B C D E F G H]. constructor; try assumption.
    intros j f m Hj. destruct (B j f m Hj) as [X|[X _]]; [left; assumption|discriminate].
  Qed.

  Lemma inv_init : inv None (init_state W wq).
  Proof.
    unfold init_state. constructor; cbn [works registered sel regs_of zget zmem zkeys map].
    - intros f m d. destruct wq as [q|]; cbn [zget]; [|discriminate].
      destruct (f =? q)%Z eqn:E; [|discriminate]. apply Z.eqb_eq in E; subst.
      intros H; inversion H; subst. left; auto.
    - discriminate.
    - discriminate.
    - reflexivity.
    - intros f k. destruct wq as [q|] eqn:Eq; cbn [zget]; [|discriminate].
      destruct (f =? q)%Z eqn:E; [|discriminate]. intros _ Hne. apply Z.eqb_eq in E; subst f. exfalso; apply Hne; reflexivity.
    - intros q ->. cbn [zget]. rewrite Z.eqb_refl; reflexivity.
    - reflexivity.
    - constructor.
  Qed.

  Lemma cleanup_inv e i (st : State) : inv (Some i) st -> inv None (CLEANUP e i st).
  Proof.
    intros [A B C D E F G H]. constructor.
    - intros f m d Hf. rewrite cleanup_sel_get in Hf.
      destruct (zmem f (regs_of W i st) && (0 <=? f)%Z) eqn:Ex; [discriminate|].
      destruct (A f m d Hf) as [X|(Hnq & Hd & Hr)]; [left; exact X|right].
      assert (Hdi : d <> i).
      { intros ->. rewrite (zmem_some _ _ _ Hr) in Ex. cbn [andb] in Ex.
        apply Z.leb_gt in Ex. specialize (E f _ Hf Hnq). lia. }
      split; [exact Hnq|]. split.
      + rewrite cleanup_works, zmem_zdel. apply Z.eqb_neq in Hdi. rewrite Hdi. exact Hd.
      + rewrite regs_of_cleanup. apply Z.eqb_neq in Hdi. rewrite Hdi. exact Hr.
    - intros j f m Hj. rewrite regs_of_cleanup in Hj.
      destruct (j =? i)%Z eqn:Eji; [discriminate|]. apply Z.eqb_neq in Eji.
      left. destruct (B j f m Hj) as [X|[X _]]; [|congruence].
      rewrite cleanup_sel_get.
      destruct (zmem f (regs_of W i st)) eqn:Em; [|exact X].
      exfalso. apply zmem_zget in Em. destruct (zget f (regs_of W i st)) as [m'|] eqn:Ei; [|congruence].
      destruct (B i f m' Ei) as [Y|[_ Y]]; congruence.
    - intros j Hj. rewrite cleanup_registered, zmem_zdel in Hj. rewrite cleanup_works, zmem_zdel.
      destruct (j =? i)%Z; [discriminate|]. cbn [negb andb] in *. apply C; exact Hj.
    - rewrite cleanup_works, zmem_zdel, D. apply andb_false_r.
    - intros f k Hf. rewrite cleanup_sel_get in Hf.
      destruct (zmem f (regs_of W i st) && (0 <=? f)%Z); [discriminate|]. eapply E; exact Hf.
    - intros q Hq. rewrite cleanup_sel_get.
      replace (zmem q (regs_of W i st)) with false; [apply F; exact Hq|].
      symmetry. apply zmem_false. apply G; exact Hq.
    - intros q j Hq. rewrite regs_of_cleanup. destruct (j =? i)%Z; [reflexivity|apply G; exact Hq].
    - rewrite cleanup_works. apply znodup_zdel. exact H.
  Qed.

  (* ---------------------------------------------------------------- _update_work_events *)
  Definition record_fd (i : work_id) (f : fd) (m : mask) (sm' : selmap) (st : State) : State :=
    set_registered (set_sel st sm') (zset i (zset f m (regs_of W i st)) (registered st)).

  Lemma regs_of_record i f m sm' st j :
    regs_of W j (record_fd i f m sm' st) = if (j =? i)%Z then zset f m (regs_of W i st) else regs_of W j st.
  Proof.
    unfold record_fd, regs_of. cbn [registered set_registered set_sel]. rewrite zget_zset.
    destruct (j =? i)%Z; reflexivity.
  Qed.

  Lemma record_inv i f m (st : State) :
    inv None st -> zmem i (works st) = true ->
    (zget f (sel st) = None /\ (0 <= f)%Z /\ wq <> Some f) \/ (exists old, zget f (regs_of W i st) = Some old) ->
    inv None (record_fd i f m (zset f (m, i) (sel st)) st).
  Proof.
    intros [A B C D E F G H] Hi Hcase.
    assert (Hnq : wq <> Some f).
    { destruct Hcase as [(_ & _ & X)|[old X]]; [exact X|]. intros Hq. rewrite (G f i Hq) in X; discriminate. }
    assert (Hown : forall j m', zget f (regs_of W j st) = Some m' -> j = i).
    { intros j m' Hj. destruct (B j f m' Hj) as [X|[X _]]; [|discriminate].
      destruct Hcase as [(Y & _)|[old Y]]; [congruence|].
      destruct (B i f old Y) as [Z|[Z _]]; [congruence|discriminate]. }
    constructor.
    - intros g m' d Hg. unfold record_fd in Hg; cbn [sel set_registered set_sel] in Hg. rewrite zget_zset in Hg.
      destruct (g =? f)%Z eqn:Egf.
      + apply Z.eqb_eq in Egf; subst g. inversion Hg; subst m' d. right. split; [exact Hnq|]. split.
        * exact Hi.
        * rewrite regs_of_record, Z.eqb_refl. apply zget_zset_same.
      + apply Z.eqb_neq in Egf. destruct (A g m' d Hg) as [X|(X1 & X2 & X3)]; [left; exact X|right].
        split; [exact X1|]. split; [exact X2|].
        rewrite regs_of_record. destruct (d =? i)%Z eqn:Edi; [|exact X3].
        apply Z.eqb_eq in Edi; subst d. rewrite zget_zset_other by exact Egf. exact X3.
    - intros j g m' Hj. left. rewrite regs_of_record in Hj.
      unfold record_fd; cbn [sel set_registered set_sel]. rewrite zget_zset.
      destruct (j =? i)%Z eqn:Eji.
      + apply Z.eqb_eq in Eji; subst j. rewrite zget_zset in Hj. revert Hj.
        destruct (g =? f)%Z eqn:Egf; intros Hj; [inversion Hj; reflexivity|].
        destruct (B i g m' Hj) as [X|[X _]]; [exact X|discriminate].
      + destruct (g =? f)%Z eqn:Egf.
        * apply Z.eqb_eq in Egf; subst g. apply Hown in Hj. apply Z.eqb_neq in Eji. contradiction.
        * destruct (B j g m' Hj) as [X|[X _]]; [exact X|discriminate].
    - intros j Hj. unfold record_fd in Hj; cbn [registered set_registered] in Hj. rewrite zmem_zset in Hj.
      destruct (j =? i)%Z eqn:Eji; [apply Z.eqb_eq in Eji; subst; exact Hi|apply C; exact Hj].
    - exact D.
    - intros g k Hg Hq. unfold record_fd in Hg; cbn [sel set_registered set_sel] in Hg. rewrite zget_zset in Hg.
      destruct (g =? f)%Z eqn:Egf; [|eapply E; eassumption].
      apply Z.eqb_eq in Egf; subst g.
      destruct Hcase as [(_ & X & _)|[old X]]; [exact X|].
      destruct (B i f old X) as [Y|[Y _]]; [|discriminate]. eapply E; eassumption.
    - intros q Hq. unfold record_fd; cbn [sel set_registered set_sel]. rewrite zget_zset.
      destruct (q =? f)%Z eqn:Eqf; [apply Z.eqb_eq in Eqf; subst; contradiction|apply F; exact Hq].
    - intros q j Hq. rewrite regs_of_record. destruct (j =? i)%Z; [|apply G; exact Hq].
      rewrite zget_zset. destruct (q =? f)%Z eqn:Eqf; [apply Z.eqb_eq in Eqf; subst; contradiction|apply G; exact Hq].
    - exact H.
  Qed.

  (* everything but registered / sel *)
  Definition same_core (st st' : State) : Prop :=
    works st' = works st /\ unfinished st' = unfinished st /\ tick st' = tick st /\
    total st' = total st /\ gone st' = gone st /\ oslog st' = oslog st.

  Lemma same_core_refl st : same_core st st.
  Proof. repeat split. Qed.

  Definition ensure_reg (i : work_id) (st : State) : State :=
    if zmem i (registered st) then st else set_registered st (zset i [] (registered st)).

  Lemma regs_of_ensure i j st : regs_of W j (ensure_reg i st) = regs_of W j st.
  Proof.
    unfold ensure_reg. destruct (zmem i (registered st)) eqn:E; [reflexivity|].
    unfold regs_of; cbn [registered set_registered]. rewrite zget_zset.
    destruct (j =? i)%Z eqn:Eji; [|reflexivity].
    apply Z.eqb_eq in Eji; subst. apply zmem_false in E. rewrite E. reflexivity.
  Qed.

  Lemma ensure_inv i st : inv None st -> zmem i (works st) = true -> inv None (ensure_reg i st).
  Proof.
    intros Hinv Hi. pose proof (regs_of_ensure i) as R.
    destruct Hinv as [A B C D E F G H].
    assert (Hs : sel (ensure_reg i st) = sel st) by (unfold ensure_reg; destruct (zmem i (registered st)); reflexivity).
    assert (Hw : works (ensure_reg i st) = works st) by (unfold ensure_reg; destruct (zmem i (registered st)); reflexivity).
    constructor; try (rewrite ?Hs, ?Hw; assumption).
    - intros f m d. rewrite Hs, Hw, R. apply A.
    - intros j f m. rewrite Hs, R. apply B.
    - intros j. rewrite Hw. unfold ensure_reg. destruct (zmem i (registered st)) eqn:Em; [apply C|].
      cbn [registered set_registered]. rewrite zmem_zset.
      destruct (j =? i)%Z eqn:Eji; [intros _; apply Z.eqb_eq in Eji; subst; exact Hi|apply C].
    - intros q j. rewrite R. apply G.
  Qed.

  Lemma ensure_core i st : same_core st (ensure_reg i st).
  Proof. unfold ensure_reg. destruct (zmem i (registered st)); repeat split. Qed.

  Lemma same_core_trans a b c : same_core a b -> same_core b c -> same_core a c.
  Proof. unfold same_core. intros (A1&A2&A3&A4&A5&A6) (B1&B2&B3&B4&B5&B6). repeat split; congruence. Qed.

  Lemma uwe_one_inv e i (st : State) fm st' r :
    inv None st -> zmem i (works st) = true -> UWE_ONE e i st fm = (st', r) ->
    inv (Some i) st' /\ (forall u, r = Ok u -> inv None st') /\ same_core st st'.
  Proof.
    intros Hinv Hi. unfold uwe_one. destruct fm as [f m].
    change (if zmem i (registered st) then st else set_registered st (zset i [] (registered st))) with (ensure_reg i st).
    pose proof (ensure_inv i st Hinv Hi) as Hinv0. pose proof (ensure_core i st) as Hc0.
    assert (Hi0 : zmem i (works (ensure_reg i st)) = true) by (destruct Hc0 as [-> _]; exact Hi).
    set (st0 := ensure_reg i st) in *. clearbody st0.
    destruct (zget f (regs_of W i st0)) as [oldmask|] eqn:Eold.
    - destruct (m =? oldmask) eqn:Em.
      + intros X; inversion X; subst. split; [apply inv_weaken; exact Hinv0|]. split; [intros; exact Hinv0|exact Hc0].
      + unfold sel_modify.
        destruct (inv_reg_sel _ _ Hinv0 i f oldmask Eold) as [Hsel|[X _]]; [|discriminate].
        assert (Hnq : wq <> Some f).
        { intros Hq. rewrite (inv_wq_reg _ _ Hinv0 f i Hq) in Eold; discriminate. }
        assert (Hf0 : (f <? 0)%Z = false).
        { apply Z.ltb_ge. eapply inv_fd_nonneg; eassumption. }
        rewrite Hf0, Hsel, Em.
        destruct (zget f (ev_kfail e)) as [k|] eqn:Ek.
        * intros X; inversion X; subst. split; [|split; [discriminate|]].
          -- destruct Hinv0 as [A B C D E F G H]. constructor; cbn [sel set_sel works registered]; try assumption.
             ++ intros g m' d Hg. rewrite zget_zdel in Hg. destruct (g =? f)%Z; [discriminate|]. apply A; exact Hg.
             ++ intros j g m' Hj. change (regs_of W j (set_sel st0 (zdel f (sel st0)))) with (regs_of W j st0) in Hj.
                rewrite zget_zdel. destruct (B j g m' Hj) as [Y|[Y _]]; [|discriminate].
                destruct (g =? f)%Z eqn:Egf; [|left; exact Y].
                apply Z.eqb_eq in Egf; subst g. right. split; [|reflexivity]. rewrite Hsel in Y; inversion Y; reflexivity.
             ++ intros g k0 Hg. rewrite zget_zdel in Hg. destruct (g =? f)%Z; [discriminate|]. eapply E; exact Hg.
             ++ intros q Hq. rewrite zget_zdel. destruct (q =? f)%Z eqn:Eqf; [|apply F; exact Hq].
                apply Z.eqb_eq in Eqf; subst; contradiction.
          -- eapply same_core_trans; [exact Hc0|]. repeat split.
        * intros X; inversion X; subst. 
          assert (Hrec : inv None (record_fd i f m (zset f (m, i) (sel st0)) st0)).
          { apply record_inv; [exact Hinv0|exact Hi0|right; eexists; exact Eold]. }
          split; [apply inv_weaken; exact Hrec|]. split; [intros; exact Hrec|].
          eapply same_core_trans; [exact Hc0|]. repeat split.
    - destruct (f =? -1)%Z eqn:Em1.
      + intros X; inversion X; subst. split; [apply inv_weaken; exact Hinv0|]. split; [intros; exact Hinv0|exact Hc0].
      + unfold sel_register.
        destruct ((m =? 0) || (3 <? m)) eqn:Ebad.
        { intros X; inversion X; subst. split; [apply inv_weaken; exact Hinv0|]. split; [discriminate|exact Hc0]. }
        destruct (f <? 0)%Z eqn:Ef0.
        { intros X; inversion X; subst. split; [apply inv_weaken; exact Hinv0|]. split; [discriminate|exact Hc0]. }
        destruct (zmem f (sel st0)) eqn:Emem.
        { intros X; inversion X; subst. split; [apply inv_weaken; exact Hinv0|]. split; [intros; exact Hinv0|exact Hc0]. }
        destruct (zget f (ev_kfail e)) as [k|] eqn:Ek.
        { intros X; inversion X; subst. split; [apply inv_weaken; exact Hinv0|]. split; [discriminate|exact Hc0]. }
        intros X; inversion X; subst.
        assert (Hrec : inv None (record_fd i f m (zset f (m, i) (sel st0)) st0)).
        { apply record_inv; [exact Hinv0|exact Hi0|left].
          split; [apply zmem_false; exact Emem|]. split; [apply Z.ltb_ge; exact Ef0|].
          intros Hq. rewrite (zmem_some _ _ _ (inv_wq _ _ Hinv0 f Hq)) in Emem; discriminate. }
        split; [apply inv_weaken; exact Hrec|]. split; [intros; exact Hrec|].
        eapply same_core_trans; [exact Hc0|]. repeat split.
  Qed.

  Lemma uwe_loop_inv e i evs : forall (st : State) st' r,
    inv None st -> zmem i (works st) = true -> UWE_LOOP e i st evs = (st', r) ->
    inv (Some i) st' /\ (forall u, r = Ok u -> inv None st') /\ same_core st st'.
  Proof.
    induction evs as [|fm t IH]; intros st st' r Hinv Hi; cbn [uwe_loop].
    - intros X; inversion X; subst. split; [apply inv_weaken; exact Hinv|]. split; [intros; exact Hinv|apply same_core_refl].
    - destruct (UWE_ONE e i st fm) as [st1 r1] eqn:E1.
      destruct (uwe_one_inv e i st fm st1 r1 Hinv Hi E1) as (H1 & H2 & H3).
      destruct r1 as [u|x].
      + intros X. assert (Hi1 : zmem i (works st1) = true) by (destruct H3 as [-> _]; exact Hi).
        destruct (IH st1 st' r (H2 u eq_refl) Hi1 X) as (K1 & K2 & K3).
        split; [exact K1|]. split; [exact K2|]. eapply same_core_trans; eassumption.
      + intros X; inversion X; subst. split; [exact H1|]. split; [discriminate|exact H3].
  Qed.

  (* a state that differs only in the VALUES stored in works (and ghost fields) *)
  Lemma inv_ext d (st st' : State) :
    registered st' = registered st -> sel st' = sel st ->
    (forall j, zmem j (works st') = zmem j (works st)) -> NoDup (zkeys (works st')) ->
    inv d st -> inv d st'.
  Proof.
    intros Hr Hs Hw Hn [A B C D E F G H].
    assert (R : forall j, regs_of W j st' = regs_of W j st) by (intros j; unfold regs_of; rewrite Hr; reflexivity).
    constructor; try (rewrite ?Hs, ?Hw; assumption).
    - intros f m d0. rewrite Hs, Hw, R. apply A.
    - intros j f m. rewrite Hs, R. apply B.
    - intros j. rewrite Hr, Hw. apply C.
    - intros q j. rewrite R. apply G.
  Qed.

  Definition same_frame (st st' : State) : Prop :=
    (forall j, zmem j (works st') = zmem j (works st)) /\ zkeys (works st') = zkeys (works st) /\
    unfinished st' = unfinished st /\ tick st' = tick st.

  Lemma same_frame_refl st : same_frame st st.
  Proof. split; [reflexivity|]. repeat split. Qed.
  Lemma same_frame_trans a b c : same_frame a b -> same_frame b c -> same_frame a c.
  Proof. intros (A1&A2&A3&A4) (B1&B2&B3&B4). split; [intros j; rewrite B1; apply A1|]. repeat split; congruence. Qed.
  Lemma same_core_frame a b : same_core a b -> same_frame a b.
  Proof. intros (A1&A2&A3&_). split; [intros j; rewrite A1; reflexivity|]. repeat split; congruence. Qed.

  Lemma set_works_existing_inv d (st : State) i w :
    zmem i (works st) = true -> inv d st -> inv d (set_works st (zset i w (works st))).
  Proof.
    intros Hi Hinv. apply (inv_ext d st); [reflexivity|reflexivity| | |exact Hinv]; cbn [works set_works].
    - intros j. rewrite zmem_zset. destruct (j =? i)%Z eqn:E; [|reflexivity].
      apply Z.eqb_eq in E; subst; symmetry; exact Hi.
    - rewrite zkeys_zset_mem by exact Hi. apply (inv_nodup _ _ Hinv).
  Qed.

  Lemma set_works_existing_frame (st : State) i w :
    zmem i (works st) = true -> same_frame st (set_works st (zset i w (works st))).
  Proof.
    intros Hi. split; [|split; [|split; reflexivity]]; cbn [works set_works].
    - intros j. rewrite zmem_zset. destruct (j =? i)%Z eqn:E; [|reflexivity].
      apply Z.eqb_eq in E; subst; symmetry; exact Hi.
    - apply zkeys_zset_mem; exact Hi.
  Qed.

  Lemma update_work_events_inv e i (st : State) st' r :
    inv None st -> UWE e i st = (st', r) ->
    inv (Some i) st' /\ (forall u, r = Ok u -> inv None st') /\ same_frame st st'.
  Proof.
    intros Hinv. unfold update_work_events.
    destruct (zget i (works st)) as [w|] eqn:Ew.
    - pose proof (zmem_some _ _ _ Ew) as Hi.
      destruct (w_get_events w (ev_io e i)) as [w' rg].
      pose proof (set_works_existing_inv None st i w' Hi Hinv) as Hinv1.
      pose proof (set_works_existing_frame st i w' Hi) as Hf1.
      set (st1 := set_works st (zset i w' (works st))) in *.
      destruct rg as [evs|x].
      + intros X. assert (Hi1 : zmem i (works st1) = true) by (destruct Hf1 as [-> _]; exact Hi).
        destruct (uwe_loop_inv e i evs st1 st' r Hinv1 Hi1 X) as (K1 & K2 & K3).
        split; [exact K1|]. split; [exact K2|]. eapply same_frame_trans; [exact Hf1|apply same_core_frame; exact K3].
      + intros X; inversion X; subst. split; [apply inv_weaken; exact Hinv1|]. split; [discriminate|exact Hf1].
    - intros X; inversion X; subst. split; [apply inv_weaken; exact Hinv|]. split; [discriminate|apply same_frame_refl].
  Qed.

  (* what survives a cleanup: the other works, the tasks, the tick *)
  Definition shrink_frame (st st' : State) : Prop :=
    (forall j, zmem j (works st') = true -> zmem j (works st) = true) /\
    unfinished st' = unfinished st /\ tick st' = tick st.

  Lemma shrink_refl st : shrink_frame st st.
  Proof. split; [auto|split; reflexivity]. Qed.
  Lemma shrink_trans a b c : shrink_frame a b -> shrink_frame b c -> shrink_frame a c.
  Proof. intros (A1&A2&A3) (B1&B2&B3). split; [auto|]. split; congruence. Qed.
  Lemma same_frame_shrink a b : same_frame a b -> shrink_frame a b.
  Proof. intros (A1&A2&A3&A4). split; [intros j; rewrite A1; auto|]. split; assumption. Qed.
  Lemma cleanup_shrink e i st : shrink_frame st (CLEANUP e i st).
  Proof.
    split; [|split; [apply cleanup_unfinished|apply cleanup_tick]].
    intros j. rewrite cleanup_works, zmem_zdel. destruct (j =? i)%Z; [discriminate|auto].
  Qed.

  Lemma update_selector_one_inv e unf (st : State) i :
    inv None st -> inv None (UPD_ONE e unf st i) /\ shrink_frame st (UPD_ONE e unf st i).
  Proof.
    intros Hinv. unfold update_selector_one. destruct (zin i unf); [split; [exact Hinv|apply shrink_refl]|].
    destruct (UWE e i st) as [st' r] eqn:E.
    destruct (update_work_events_inv e i st st' r Hinv E) as (H1 & H2 & H3).
    destruct r as [u|x].
    - split; [apply (H2 u eq_refl)|apply same_frame_shrink; exact H3].
    - split; [apply cleanup_inv; exact H1|].
      eapply shrink_trans; [apply same_frame_shrink; exact H3|apply cleanup_shrink].
  Qed.

  Lemma update_selector_fold_inv e unf ids : forall (st : State),
    inv None st ->
    inv None (fold_left (UPD_ONE e unf) ids st) /\ shrink_frame st (fold_left (UPD_ONE e unf) ids st).
  Proof.
    induction ids as [|i t IH]; intros st Hinv; cbn [fold_left]; [split; [exact Hinv|apply shrink_refl]|].
    destruct (update_selector_one_inv e unf st i Hinv) as [H1 H2].
    destruct (IH _ H1) as [K1 K2]. split; [exact K1|eapply shrink_trans; eassumption].
  Qed.

  Lemma update_selector_inv e (st : State) :
    inv None st -> inv None (UPD e st) /\ shrink_frame st (UPD e st).
  Proof. intros Hinv. unfold update_selector. apply update_selector_fold_inv; exact Hinv. Qed.

  (* ---------------------------------------------------------------- _selected_events / _create_tasks cannot raise *)
  (* kernel premise, remote mode only: epoll reports the work-queue descriptor at most once per
     call, and (it is registered for READ only) reports it readable *)
  Fixpoint wq_ok (q : fd) (l : list (fd * mask)) : Prop :=
    match l with
    | [] => True
    | fm :: t => if (fst fm =? q)%Z
                 then N.land (snd fm) EVENT_READ <> 0 /\ Forall (fun x : fd * mask => fst x <> q) t
                 else wq_ok q t
    end.
  Definition kernel_ok (e : Event) : Prop :=
    match wq with None => True | Some q => wq_ok q (ev_ready e) end.

  Definition good_ids (st : State) (wbi : work_by_ids) : Prop :=
    Forall (fun i => zmem i (works st) = true /\ i <> 0%Z) (zkeys wbi).

  Lemma Forall_zkeys_zset {V} (P : Z -> Prop) k (v : V) d :
    Forall P (zkeys d) -> P k -> Forall P (zkeys (zset k v d)).
  Proof.
    intros Hd Hk. destruct (zmem k d) eqn:E.
    - rewrite zkeys_zset_mem by exact E. exact Hd.
    - rewrite zkeys_zset_new by exact E. apply Forall_app. split; [exact Hd|constructor; [exact Hk|constructor]].
  Qed.

  Definition sel_pre (nwa : bool) (l : list (fd * mask)) : Prop :=
    match wq with
    | None => nwa = true
    | Some q => if nwa then Forall (fun x : fd * mask => fst x <> q) l else wq_ok q l
    end.

  Lemma select_one_ok (st : State) acc fm t :
    inv None st -> good_ids st (fst acc) -> sel_pre (snd acc) (fm :: t) ->
    exists acc', select_one wq (sel st) acc fm = Ok acc' /\ good_ids st (fst acc') /\ sel_pre (snd acc') t.
  Proof.
    intros Hinv Hg Hp. destruct acc as [wbi nwa]. destruct fm as [f ev]. cbn [fst snd] in *.
    unfold select_one. destruct (zget f (sel st)) as [[kev data]|] eqn:Ef.
    - destruct (negb nwa && is_wq wq f) eqn:Ewq.
      + (* the work queue descriptor, first time *)
        apply andb_true_iff in Ewq as [En Eq]. apply negb_true_iff in En; subst nwa.
        unfold is_wq in Eq. unfold sel_pre in *. destruct wq as [q|] eqn:Hwq; [|discriminate].
        apply Z.eqb_eq in Eq; subst f. cbn [wq_ok fst snd] in Hp. rewrite Z.eqb_refl in Hp. destruct Hp as [Hr Ht].
        rewrite (inv_wq _ _ Hinv q Hwq) in Ef. inversion Ef; subst kev data.
        replace (N.land (N.land ev EVENT_READ) EVENT_READ) with (N.land ev EVENT_READ)
          by (rewrite <- N.land_assoc, N.land_diag; reflexivity).
        destruct (N.land ev EVENT_READ =? 0) eqn:E0; [apply N.eqb_eq in E0; contradiction|].
        eexists; split; [reflexivity|]. split; [exact Hg|exact Ht].
      + (* a descriptor of a work *)
        destruct (inv_sel_reg _ _ Hinv f kev data Ef) as [(Hq & _ & _)|(Hnq & Hd & _)].
        * (* would be the work-queue descriptor a second time: excluded by the premise *)
          exfalso. unfold sel_pre in Hp. rewrite Hq in Hp. unfold is_wq in Ewq. rewrite Hq, Z.eqb_refl, andb_true_r in Ewq.
          apply negb_false_iff in Ewq; subst nwa. inversion Hp as [|? ? Hx _]; subst. apply Hx; reflexivity.
        * assert (Hgood : zmem data (works st) = true /\ data <> 0%Z).
          { split; [exact Hd|]. intros ->. rewrite (inv_zero _ _ Hinv) in Hd; discriminate. }
          match goal with |- context [let '(_, _) := ?X in _] => destruct X as [rs ws] end.
          eexists; split; [reflexivity|]. cbn [fst snd]. split.
          -- apply Forall_zkeys_zset; [|exact Hgood]. destruct (zmem data wbi); [exact Hg|].
             apply Forall_zkeys_zset; [exact Hg|exact Hgood].
          -- unfold sel_pre in *. destruct wq as [q|] eqn:Hwq; [|exact Hp].
             destruct nwa; [inversion Hp; assumption|].
             cbn [wq_ok fst] in Hp. destruct (f =? q)%Z eqn:Efq; [|exact Hp].
             apply Z.eqb_eq in Efq; subst f. exfalso; apply Hnq; reflexivity.
    - eexists; split; [reflexivity|]. cbn [fst snd]. split; [exact Hg|].
      unfold sel_pre in *. destruct wq as [q|] eqn:Hwq; [|exact Hp].
      destruct nwa; [inversion Hp; assumption|].
      cbn [wq_ok fst] in Hp. destruct (f =? q)%Z eqn:Efq; [|exact Hp].
      apply Z.eqb_eq in Efq; subst f. rewrite (inv_wq _ _ Hinv q Hwq) in Ef; discriminate.
  Qed.

  Lemma select_loop_ok (st : State) l : forall acc,
    inv None st -> good_ids st (fst acc) -> sel_pre (snd acc) l ->
    exists acc', select_loop wq (sel st) acc l = Ok acc' /\ good_ids st (fst acc').
  Proof.
    induction l as [|fm t IH]; intros acc Hinv Hg Hp; cbn [select_loop].
    - eexists; split; [reflexivity|exact Hg].
    - destruct (select_one_ok st acc fm t Hinv Hg Hp) as (acc1 & E1 & Hg1 & Hp1).
      rewrite E1. apply IH; assumption.
  Qed.

  Lemma selected_events_ok e (st : State) :
    inv None st -> kernel_ok e ->
    exists wbi nwa, selected_events W IO wq e st = Ok (wbi, nwa) /\ good_ids st wbi.
  Proof.
    intros Hinv Hk. unfold selected_events.
    destruct (select_loop_ok st (ev_ready e) ([], match wq with None => true | Some _ => false end) Hinv) as ([wbi nwa] & E & Hg).
    - constructor.
    - unfold sel_pre, kernel_ok in *. cbn [snd]. destruct wq; [exact Hk|reflexivity].
    - exists wbi, nwa. split; [exact E|exact Hg].
  Qed.

  Lemma create_tasks_ok (st : State) wbi :
    good_ids st wbi -> exists ts, create_tasks W st wbi = Ok ts /\ map t_work ts = zkeys wbi.
  Proof.
    unfold good_ids. induction wbi as [|[i [rs ws]] t IH]; cbn [create_tasks zkeys map fst]; intros Hg.
    - eexists; split; reflexivity.
    - inversion Hg as [|? ? [Hi Hnz] Ht]; subst. apply Z.eqb_neq in Hnz. rewrite Hnz.
      apply zmem_zget in Hi. destruct (zget i (works st)); [|congruence].
      destruct (IH Ht) as (ts & E & Hm). rewrite E. eexists; split; [reflexivity|]. cbn [map t_work]. rewrite Hm; reflexivity.
  Qed.

  (* ---------------------------------------------------------------- arrivals *)
  (* kernel premise: accept()/recv_handle yield a descriptor number that no live work is using, and never 0 *)
  Definition arrival_fresh (e : Event) (st : State) : Prop :=
    match ev_arrival e with
    | ANew i _ => zmem i (works st) = false /\ i <> 0%Z
    | _ => True
    end.

  Definition grow_frame (st st' : State) : Prop :=
    (forall j, zmem j (works st) = true -> zmem j (works st') = true) /\
    unfinished st' = unfinished st /\ tick st' = tick st.

  Lemma inv_ext_grow d (st st' : State) :
    registered st' = registered st -> sel st' = sel st ->
    (forall j, zmem j (works st) = true -> zmem j (works st') = true) ->
    zmem 0%Z (works st') = false -> NoDup (zkeys (works st')) ->
    inv d st -> inv d st'.
  Proof.
    intros Hr Hs Hw Hz Hn [A B C D E F G H].
    assert (R : forall j, regs_of W j st' = regs_of W j st) by (intros j; unfold regs_of; rewrite Hr; reflexivity).
    constructor; try (rewrite ?Hs; assumption).
    - intros f m d0 Hf. rewrite Hs in Hf. rewrite R. destruct (A f m d0 Hf) as [X|(X1&X2&X3)]; [left; exact X|right; auto].
    - intros j f m. rewrite Hs, R. apply B.
    - intros j. rewrite Hr. intros Hj. apply Hw, C, Hj.
    - intros q j. rewrite R. apply G.
  Qed.

  Lemma do_work_inv e i w (st : State) :
    inv None st -> zmem i (works st) = false -> i <> 0%Z ->
    inv None (DO_WORK e i w st) /\ grow_frame st (DO_WORK e i w st).
  Proof.
    intros Hinv Hi Hnz. unfold do_work.
    set (st0 := match wq with Some _ => set_oslog st (oslog st ++ [OsDup i]) | None => st end).
    assert (H0 : works st0 = works st /\ registered st0 = registered st /\ sel st0 = sel st /\
                 unfinished st0 = unfinished st /\ tick st0 = tick st)
      by (subst st0; destruct wq; repeat split).
    destruct H0 as (Hw0 & Hr0 & Hs0 & Hu0 & Ht0).
    set (st1 := set_works st0 (zset i w (works st0))).
    assert (Hinv1 : inv None st1).
    { apply (inv_ext_grow None st); subst st1; cbn [registered sel works set_works]; try assumption.
      - intros j Hj. rewrite zmem_zset, Hw0, Hj. apply orb_true_r.
      - rewrite zmem_zset, Hw0, (inv_zero _ _ Hinv). apply Z.eqb_neq in Hnz. rewrite Z.eqb_sym, Hnz. reflexivity.
      - rewrite Hw0. apply znodup_zset. apply (inv_nodup _ _ Hinv). }
    assert (Hi1 : zmem i (works st1) = true) by (subst st1; cbn [works set_works]; rewrite zmem_zset, Z.eqb_refl; reflexivity).
    destruct (w_initialize w (ev_io e i)) as [w' r].
    pose proof (set_works_existing_inv None st1 i w' Hi1 Hinv1) as Hinv2.
    pose proof (set_works_existing_frame st1 i w' Hi1) as (F1 & F2 & F3 & F4).
    set (st2 := set_works st1 (zset i w' (works st1))) in *.
    assert (Hgrow : forall j, zmem j (works st) = true -> zmem j (works st2) = true /\ j <> i).
    { intros j Hj. split; [|intros ->; congruence]. rewrite F1. subst st1; cbn [works set_works].
      rewrite zmem_zset, Hw0, Hj. apply orb_true_r. }
    assert (Hu2 : unfinished st2 = unfinished st) by (rewrite F3; subst st1; cbn; exact Hu0).
    assert (Ht2 : tick st2 = tick st) by (rewrite F4; subst st1; cbn; exact Ht0).
    destruct r as [u|x].
    - split.
      + apply (inv_ext None st2); cbn; try reflexivity; [apply (inv_nodup _ _ Hinv2)|exact Hinv2].
      + split; [intros j Hj; apply (Hgrow j Hj)|]. split; cbn; assumption.
    - split; [apply cleanup_inv, inv_weaken; exact Hinv2|].
      split; [|split; [rewrite cleanup_unfinished; exact Hu2|rewrite cleanup_tick; exact Ht2]].
      intros j Hj. destruct (Hgrow j Hj) as [X Y]. rewrite cleanup_works, zmem_zdel, X.
      apply Z.eqb_neq in Y. rewrite Y. reflexivity.
  Qed.

  Lemma receive_inv e (st : State) st' b :
    inv None st -> arrival_fresh e st -> RECEIVE e st = (st', b) ->
    inv None st' /\ grow_frame st st'.
  Proof.
    intros Hinv Hf. unfold receive_from_work_queue, arrival_fresh in *.
    destruct (ev_arrival e) as [| |i w]; intros X; inversion X; subst.
    - split; [exact Hinv|]. split; [auto|split; reflexivity].
    - split; [exact Hinv|]. split; [auto|split; reflexivity].
    - destruct Hf as [Hi Hnz]. apply do_work_inv; assumption.
  Qed.

  (* ---------------------------------------------------------------- tasks *)
  Lemma run_task_inv e (st : State) t st' td :
    inv None st -> RUN_TASK e st t = (st', td) -> inv None st' /\ same_frame st st'.
  Proof.
    intros Hinv. unfold run_task.
    destruct (zget (t_work t) (works st)) as [w|] eqn:Ew.
    - destruct (w_handle_events w (t_r t) (t_w t) (ev_io e (t_work t))) as [w' r]. intros X; inversion X; subst.
      pose proof (zmem_some _ _ _ Ew) as Hi.
      split; [apply set_works_existing_inv; assumption|apply set_works_existing_frame; exact Hi].
    - destruct (last_gone W (t_work t) (gone st)) as [w|].
      + destruct (w_handle_events w (t_r t) (t_w t) (ev_io e (t_work t))) as [w' r]. intros X; inversion X; subst.
        split; [|split; [reflexivity|repeat split]].
        apply (inv_ext None st); cbn; try reflexivity; [apply (inv_nodup _ _ Hinv)|exact Hinv].
      + intros X; inversion X; subst. split; [exact Hinv|apply same_frame_refl].
  Qed.

  Lemma run_tasks_inv e ts : forall (st : State) st' res,
    inv None st -> RUN_TASKS e st ts = (st', res) -> inv None st' /\ same_frame st st'.
  Proof.
    induction ts as [|t rest IH]; intros st st' res Hinv; cbn [run_tasks].
    - intros X; inversion X; subst. split; [exact Hinv|apply same_frame_refl].
    - destruct (RUN_TASK e st t) as [st1 td] eqn:E1.
      destruct (run_task_inv e st t st1 td Hinv E1) as [H1 F1].
      destruct (RUN_TASKS e st1 rest) as [st2 l] eqn:E2.
      destruct (IH st1 st2 l H1 E2) as [H2 F2].
      intros X; inversion X; subst. split; [exact H2|eapply same_frame_trans; eassumption].
  Qed.

  Lemma cleanup_finished_inv e res : forall (st : State),
    inv None st -> inv None (CLEANUP_FIN e st res).
  Proof.
    unfold cleanup_finished. induction res as [|[i td] t IH]; intros st Hinv; cbn [fold_left]; [exact Hinv|].
    apply IH. cbn [fst snd]. destruct td; [apply cleanup_inv, inv_weaken; exact Hinv|exact Hinv].
  Qed.

  Lemma set_unfinished_inv d (st : State) u : inv d st -> inv d (set_unfinished st u).
  Proof. intros Hinv. apply (inv_ext d st); cbn; try reflexivity; [apply (inv_nodup _ _ Hinv)|exact Hinv]. Qed.

  Lemma set_tick_inv d (st : State) u : inv d st -> inv d (set_tick st u).
  Proof. intros Hinv. apply (inv_ext d st); cbn; try reflexivity; [apply (inv_nodup _ _ Hinv)|exact Hinv]. Qed.

  Lemma good_ids_grow (st st' : State) wbi :
    (forall j, zmem j (works st) = true -> zmem j (works st') = true) -> good_ids st wbi -> good_ids st' wbi.
  Proof. intros H. unfold good_ids. apply Forall_impl. intros i [A B]. split; [apply H; exact A|exact B]. Qed.

  (* ---------------------------------------------------------------- _run_once never raises *)
  Lemma run_once_rest_inv e (st : State) st' r :
    inv None st -> kernel_ok e -> arrival_fresh e st -> REST e st = (st', r) ->
    inv None st' /\ exists b, r = Ok b.
  Proof.
    intros Hinv Hk Hf. unfold run_once_rest.
    destruct (selected_events_ok e st Hinv Hk) as (wbi & nwa & Es & Hg). rewrite Es.
    destruct (if nwa then RECEIVE e st else (st, false)) as [st1 teardown] eqn:Er.
    assert (H1 : inv None st1 /\ grow_frame st st1).
    { destruct nwa; [eapply receive_inv; eassumption|].
      inversion Er; subst. split; [exact Hinv|]. split; [auto|split; reflexivity]. }
    destruct H1 as [Hinv1 (G1 & G2 & G3)].
    destruct teardown; [intros X; inversion X; subst; split; [exact Hinv1|eexists; reflexivity]|].
    destruct wbi as [|p wbi']; [intros X; inversion X; subst; split; [exact Hinv1|eexists; reflexivity]|].
    destruct (create_tasks_ok st1 (p :: wbi') (good_ids_grow st st1 _ G1 Hg)) as (ts & Ec & _). rewrite Ec.
    unfold wait_for_tasks.
    match goal with |- context [RUN_TASKS e ?s ?l] => destruct (RUN_TASKS e s l) as [st4 res] eqn:E4 end.
    intros X; inversion X; subst. split; [|eexists; reflexivity].
    apply cleanup_finished_inv.
    eapply run_tasks_inv; [|exact E4]. apply set_unfinished_inv, set_unfinished_inv. exact Hinv1.
  Qed.

  Lemma inactive_scan_inv e ids : forall (st : State) st' l,
    inv None st -> SCAN e st ids = (st', l) -> inv None st'.
  Proof.
    induction ids as [|i t IH]; intros st st' l Hinv; cbn [inactive_scan].
    - intros X; inversion X; subst; exact Hinv.
    - destruct (zget i (works st)) as [w|] eqn:Ew; [|apply IH; exact Hinv].
      destruct (w_is_inactive w (ev_clock e) (ev_io e i)) as [w' r].
      match goal with |- context [SCAN e ?s t] => destruct (SCAN e s t) as [st2 l2] eqn:E2 end.
      intros X; inversion X; subst. eapply IH; [|exact E2].
      apply set_works_existing_inv; [eapply zmem_some; exact Ew|exact Hinv].
  Qed.

  Lemma cleanup_all_inv e l : forall (st : State),
    inv None st -> inv None (fold_left (fun st i => CLEANUP e i st) l st).
  Proof.
    induction l as [|i t IH]; intros st Hinv; cbn [fold_left]; [exact Hinv|].
    apply IH, cleanup_inv, inv_weaken, Hinv.
  Qed.

  Lemma cleanup_inactive_inv e (st : State) : inv None st -> inv None (CLEANUP_INACTIVE e st).
  Proof.
    intros Hinv. unfold cleanup_inactive.
    destruct (SCAN e st (zkeys (works st))) as [st' l] eqn:E.
    apply cleanup_all_inv. eapply inactive_scan_inv; eassumption.
  Qed.

  Definition env_ok (e : Event) (st : State) : Prop := kernel_ok e /\ arrival_fresh e (UPD e st).

  Lemma loop_body_inv e (st : State) st' s :
    inv None st -> env_ok e st -> BODY e st = (st', s) ->
    inv None st' /\ forall x, s <> Crashed x.
  Proof.
    intros Hinv [Hk Hf]. unfold loop_body, run_once.
    destruct (update_selector_inv e st Hinv) as [Hu _].
    destruct (REST e (UPD e st)) as [st1 r] eqn:E1.
    destruct (run_once_rest_inv e _ st1 r Hu Hk Hf E1) as [H1 [b ->]].
    destruct b; [intros X; inversion X; subst; split; [exact H1|discriminate]|].
    destruct (tick_limit <=? tick st1).
    - destruct (ev_running_set e); intros X; inversion X; subst.
      + split; [apply cleanup_inactive_inv; exact H1|discriminate].
      + split; [apply set_tick_inv, cleanup_inactive_inv; exact H1|discriminate].
    - intros X; inversion X; subst. split; [apply set_tick_inv; exact H1|discriminate].
  Qed.

  (* the environment premises evaluated along the run *)
  Fixpoint sched_ok (evs : list Event) (st : State) : Prop :=
    match evs with
    | [] => True
    | e :: t => env_ok e st /\
                match BODY e st with
                | (st', Running) => sched_ok t st'
                | _ => True
                end
    end.

  Lemma run_forever_inv evs : forall (st : State) st' s,
    inv None st -> sched_ok evs st -> RUN evs st = (st', s) ->
    inv None st' /\ forall x, s <> Crashed x.
  Proof.
    induction evs as [|e t IH]; intros st st' s Hinv Hs; cbn [run_forever].
    - intros X; inversion X; subst. split; [exact Hinv|discriminate].
    - cbn [sched_ok] in Hs. destruct Hs as [He Ht].
      destruct (BODY e st) as [st1 s1] eqn:E1.
      destruct (loop_body_inv e st st1 s1 Hinv He E1) as [H1 Hnc].
      destruct s1.
      + apply IH; assumption.
      + intros X; inversion X; subst. split; [exact H1|discriminate].
      + exfalso. eapply Hnc; reflexivity.
  Qed.

  Lemma reachable_inv : forall evs st' s,
    sched_ok evs (init_state W wq) -> RUN evs (init_state W wq) = (st', s) -> inv None st'.
  Proof.
    intros evs st' s Hs E. eapply run_forever_inv; [apply inv_init|exact Hs|exact E].
  Qed.

  Theorem loop_survives : forall evs st' s,
    sched_ok evs (init_state W wq) -> RUN evs (init_state W wq) = (st', s) -> forall x, s <> Crashed x.
  Proof.
    intros evs st' s Hs E. eapply run_forever_inv; [apply inv_init|exact Hs|exact E].
  Qed.
End Facts.
