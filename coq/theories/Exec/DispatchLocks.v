(* Exec/DispatchLocks.v — the lock discipline of the acceptor -> remote worker hand-off (definitions only).
   Several acceptor PROCESSES, each starting one dispatcher THREAD per accepted connection, write to the same
   worker pipes concurrently.  Modelled here:
     proxy/core/acceptor/acceptor.py  Acceptor._work (threadless branch): the arguments given to the thread
                                      (executor_pids[index], executor_queues[index], executor_locks[index], conn, addr,
                                      flags.unix_socket_path);
     proxy/core/work/delegate.py      delegate_work_to_pool: the program of one dispatcher thread
                                      (with work_lock: [send(addr)]; send_handle; conn.close());
   and a small-step interleaving semantics of any number of such threads over shared locks and pipes.
   Messages and the receiver (receive_one / receive_all) are those of Exec/Dispatch.v. *)
From PM Require Import Lib.Bytes Lib.ZDict Exec.Threadless Exec.Dispatch.
From Coq Require Import ZArith.

(* ---------------------------------------------------------------- Acceptor._work *)

(* l[i] on a Python list (i >= 0): IndexError outside the list *)
Definition py_index {A} (l : list A) (i : N) : result A :=
  match nth_error l (N.to_nat i) with Some x => Ok x | None => Err IndexError end.

(* what AcceptorPool hands to EVERY acceptor (pool.py: executor_queues=self.executor_queues, ...; proxy.py: the
   work_queues / work_pids / work_locks of the one ThreadlessPool).  A pipe and a lock are OBJECTS shared between
   processes: they are named here by their identity (a number); the list position is what _work indexes *)
Record pool := mk_pool {
  executor_pids : list N;
  executor_queues : list nat;       (* identity of the pipe at each list position *)
  executor_locks : list nat         (* identity of the lock at each list position *)
}.

(* the argument tuple of threading.Thread(target=delegate_work_to_pool, args=(...)) *)
Record thread := mk_thread {
  t_pid : N;                        (* worker_pid *)
  t_queue : nat;                    (* work_queue *)
  t_lock : nat;                     (* work_lock *)
  t_conn : fd;                      (* conn *)
  t_addr : option N;                (* addr *)
  t_unix : bool                     (* unix_socket_path (truthiness) *)
}.

(* Acceptor._work, threadless branch:
     index = (self._total + self.idd) % self.flags.num_workers
     args=(self.executor_pids[index], self.executor_queues[index], self.executor_locks[index], conn, addr,
           self.flags.unix_socket_path) *)
Definition work (num_workers : N) (pl : pool) (unix : bool) (idd total : N) (addr : option N) (conn : fd)
  : result thread :=
  if num_workers =? 0 then Err ValueError                      (* modulo by zero, as in Dispatch.dispatch_all *)
  else
    let index := worker_index total idd num_workers in
    do pid <- py_index (executor_pids pl) index;
    do q <- py_index (executor_queues pl) index;
    do l <- py_index (executor_locks pl) index;
    Ok (mk_thread pid q l conn addr unix).

(* the BROKEN discipline of the independently seeded change seeded/C17-r3-1 (not the code of /repo):
     slot = self._total % num_workers ; index = (slot + self.idd) % num_workers
     args=(executor_pids[index], executor_queues[index], executor_locks[slot], ...) *)
Definition work_seeded (num_workers : N) (pl : pool) (unix : bool) (idd total : N) (addr : option N) (conn : fd)
  : result thread :=
  if num_workers =? 0 then Err ValueError
  else
    let slot := total mod num_workers in
    let index := (slot + idd) mod num_workers in
    do pid <- py_index (executor_pids pl) index;
    do q <- py_index (executor_queues pl) index;
    do l <- py_index (executor_locks pl) slot;
    Ok (mk_thread pid q l conn addr unix).

(* one accepted connection: which acceptor accepted it (idd), the value of that acceptor's _total at that moment,
   the peer address and the descriptor *)
Record conn := mk_conn { c_idd : N; c_total : N; c_addr : option N; c_fd : fd }.

Definition work_fn := N -> pool -> bool -> N -> N -> option N -> fd -> result thread.

(* the dispatcher threads started for a collection of accepted connections (any acceptors, any counters) *)
Fixpoint spawn_all (wk : work_fn) (num_workers : N) (pl : pool) (unix : bool) (cs : list conn) : result (list thread) :=
  match cs with
  | [] => Ok []
  | c :: rest =>
      do th <- wk num_workers pl unix (c_idd c) (c_total c) (c_addr c) (c_fd c);
      do ths <- spawn_all wk num_workers pl unix rest;
      Ok (th :: ths)
  end.

(* the pool as ThreadlessPool builds it: position i holds pipe i; pids and locks are whatever they are *)
Definition shared_pool (num_workers : N) (pids : list N) (locks : list nat) : pool :=
  mk_pool pids (seq 0 (N.to_nat num_workers)) locks.

(* the worker a connection is routed to *)
Definition route (num_workers : N) (c : conn) : nat := N.to_nat (worker_index (c_total c) (c_idd c) num_workers).
Definition routed_to (num_workers : N) (k : nat) (cs : list conn) : list conn :=
  filter (fun c => Nat.eqb (route num_workers c) k) cs.
(* the complete message block of a connection (Dispatch.delegate_msgs) *)
Definition conn_block (unix : bool) (c : conn) : list msg := delegate_msgs unix (c_addr c) (c_fd c).

(* ---------------------------------------------------------------- delegate_work_to_pool as a thread program *)

(* program counter of one dispatcher thread:
     PStart      before `with work_lock:` (blocked while the lock is held)
     PLocked     lock held, before `if not unix_socket_path: work_queue.send(addr)`
     PAddrSent   before `send_handle(work_queue, conn.fileno(), worker_pid)`
     PHandleSent before `conn.close()`
     PClosed     before leaving the `with` block (release)
     PDone       returned *)
Inductive pc := PStart | PLocked | PAddrSent | PHandleSent | PClosed | PDone.

Definition pc_eqb (a b : pc) : bool :=
  match a, b with
  | PStart, PStart | PLocked, PLocked | PAddrSent, PAddrSent | PHandleSent, PHandleSent
  | PClosed, PClosed | PDone, PDone => true
  | _, _ => false
  end.

(* inside the critical section *)
Definition critical (p : pc) : bool :=
  match p with PLocked | PAddrSent | PHandleSent | PClosed => true | PStart | PDone => false end.
(* the descriptor message has been written *)
Definition handle_sent (p : pc) : bool :=
  match p with PHandleSent | PClosed | PDone => true | _ => false end.

(* what the first statement of the critical section writes *)
Definition addr_part (th : thread) : list msg := if t_unix th then [] else [MAddr (t_addr th)].
(* everything a thread writes = Dispatch.delegate_msgs *)
Definition block (th : thread) : list msg := delegate_msgs (t_unix th) (t_addr th) (t_conn th).

(* global state: which locks are held and by which thread (a lock not listed is free); the pipes; the program counter
   of every thread; the connections closed so far *)
Record gstate := mk_gstate {
  g_held : list (nat * nat);        (* (lock, holder thread id) *)
  g_pipes : list (list msg);
  g_pcs : list pc;
  g_closed : list fd
}.

Fixpoint upd_with {A} (n : nat) (f : A -> A) (l : list A) : list A :=
  match l, n with
  | [], _ => []
  | x :: t, O => f x :: t
  | x :: t, S k => x :: upd_with k f t
  end.
Definition upd {A} (n : nat) (x : A) (l : list A) : list A := upd_with n (fun _ => x) l.
Definition app_at (k : nat) (ms : list msg) (pipes : list (list msg)) : list (list msg) :=
  upd_with k (fun q => q ++ ms) pipes.

Definition lock_free (held : list (nat * nat)) (l : nat) : bool := forallb (fun e => negb (Nat.eqb (fst e) l)) held.
(* multiprocessing.Lock.release has no owner check: the lock becomes free *)
Definition release (held : list (nat * nat)) (l : nat) : list (nat * nat) := filter (fun e => negb (Nat.eqb (fst e) l)) held.

(* thread [tid] takes its next atomic action; None = not a thread, finished, or blocked on its lock *)
Definition step (ths : list thread) (tid : nat) (g : gstate) : option gstate :=
  match nth_error ths tid, nth_error (g_pcs g) tid with
  | Some th, Some p =>
      match p with
      | PStart =>
          if lock_free (g_held g) (t_lock th)
          then Some (mk_gstate ((t_lock th, tid) :: g_held g) (g_pipes g) (upd tid PLocked (g_pcs g)) (g_closed g))
          else None
      | PLocked =>
          Some (mk_gstate (g_held g) (app_at (t_queue th) (addr_part th) (g_pipes g)) (upd tid PAddrSent (g_pcs g)) (g_closed g))
      | PAddrSent =>
          Some (mk_gstate (g_held g) (app_at (t_queue th) [MHandle (t_conn th)] (g_pipes g)) (upd tid PHandleSent (g_pcs g)) (g_closed g))
      | PHandleSent =>
          Some (mk_gstate (g_held g) (g_pipes g) (upd tid PClosed (g_pcs g)) (t_conn th :: g_closed g))
      | PClosed =>
          Some (mk_gstate (release (g_held g) (t_lock th)) (g_pipes g) (upd tid PDone (g_pcs g)) (g_closed g))
      | PDone => None
      end
  | _, _ => None
  end.

(* a schedule = the sequence of thread ids the scheduler picks; a pick that cannot move is skipped, so EVERY list is a
   schedule and the runs of all lists are exactly the interleavings the locks allow *)
Fixpoint run (ths : list thread) (sched : list nat) (g : gstate) : gstate :=
  match sched with
  | [] => g
  | tid :: rest => run ths rest (match step ths tid g with Some g' => g' | None => g end)
  end.

Definition init_gstate (npipes nthreads : nat) : gstate :=
  mk_gstate [] (repeat [] npipes) (repeat PStart nthreads) [].

Definition all_done (g : gstate) : bool := forallb (fun p => pc_eqb p PDone) (g_pcs g).
Definition pipe (g : gstate) (k : nat) : list msg := nth k (g_pipes g) [].

(* the run of the threads of a collection of connections from the initial state (all pipes empty, all locks free) *)
Definition run_conns (ths : list thread) (num_workers : N) (sched : list nat) : gstate :=
  run ths sched (init_gstate (N.to_nat num_workers) (length ths)).

(* one thread after the other, each to completion (what a single acceptor's synchronous dispatch does) *)
Definition seq_schedule (n : nat) : list nat := flat_map (fun tid => repeat tid 5) (seq 0 n).

(* ---------------------------------------------------------------- the invariant *)

(* thread tid exists, has arguments th and stands at p *)
Definition at_ (ths : list thread) (pcs : list pc) (tid : nat) (th : thread) (p : pc) : Prop :=
  nth_error ths tid = Some th /\ nth_error pcs tid = Some p.

(* THE discipline: two threads writing to the same pipe take the same lock *)
Definition consistent (ths : list thread) : Prop :=
  forall t1 t2 th1 th2, nth_error ths t1 = Some th1 -> nth_error ths t2 = Some th2 ->
                        t_queue th1 = t_queue th2 -> t_lock th1 = t_lock th2.

(* the complete blocks of the threads [order], one after the other *)
Definition blocks (ths : list thread) (order : list nat) : list msg :=
  flat_map (fun tid => match nth_error ths tid with Some th => block th | None => [] end) order.

(* pipe k holds the complete blocks of exactly the threads routed to it that have written their descriptor, in some
   order, followed by at most the address of the one thread that is between its two writes *)
Definition pipe_ok (ths : list thread) (g : gstate) (k : nat) : Prop :=
  exists order,
    NoDup order /\
    (forall tid, In tid order <-> exists th p, at_ ths (g_pcs g) tid th p /\ t_queue th = k /\ handle_sent p = true) /\
    ((pipe g k = blocks ths order /\ forall tid th, at_ ths (g_pcs g) tid th PAddrSent -> t_queue th <> k)
     \/ (exists tid th, at_ ths (g_pcs g) tid th PAddrSent /\ t_queue th = k /\
                        pipe g k = blocks ths order ++ addr_part th)).

Record Inv (ths : list thread) (g : gstate) : Prop := mk_Inv {
  inv_len : length (g_pcs g) = length ths;
  (* a held lock is held by a thread that is inside its critical section on that lock ... *)
  inv_held_crit : forall l tid, In (l, tid) (g_held g) ->
                    exists th p, at_ ths (g_pcs g) tid th p /\ t_lock th = l /\ critical p = true;
  (* ... every thread inside its critical section holds its lock ... *)
  inv_crit_held : forall tid th p, at_ ths (g_pcs g) tid th p -> critical p = true -> In (t_lock th, tid) (g_held g);
  (* ... and a lock has one holder *)
  inv_held_fun : forall l t1 t2, In (l, t1) (g_held g) -> In (l, t2) (g_held g) -> t1 = t2;
  inv_pipes : forall k, (k < length (g_pipes g))%nat -> pipe_ok ths g k
}.

(* mutual exclusion per pipe *)
Definition mutex (ths : list thread) (g : gstate) : Prop :=
  forall t1 t2 th1 th2 p1 p2,
    at_ ths (g_pcs g) t1 th1 p1 -> at_ ths (g_pcs g) t2 th2 p2 -> t_queue th1 = t_queue th2 ->
    critical p1 = true -> critical p2 = true -> t1 = t2.

(* no thread routed to pipe k is inside its critical section *)
Definition quiet (ths : list thread) (g : gstate) (k : nat) : Prop :=
  forall tid th p, at_ ths (g_pcs g) tid th p -> t_queue th = k -> critical p = false.

(* ---------------------------------------------------------------- concrete configurations (evaluated in the facts file) *)
(* 2 workers; pids 100, 101; pipe i guarded by lock i *)
Definition ex_pool : pool := shared_pool 2 [100; 101] [0%nat; 1%nat].

(* two acceptors (0 and 1), two connections each, TCP listener:
     thread 0: acceptor 0, _total 0 -> worker 0      thread 1: acceptor 1, _total 1 -> worker 0
     thread 2: acceptor 1, _total 0 -> worker 1      thread 3: acceptor 0, _total 1 -> worker 1 *)
Definition ex_conns : list conn :=
  [mk_conn 0 0 (Some 4000) 20%Z; mk_conn 1 1 (Some 4001) 21%Z; mk_conn 1 0 (Some 4002) 22%Z; mk_conn 0 1 (Some 4003) 23%Z].
(* a schedule with real interleaving: thread 1 enters first, thread 0 is picked while blocked (skipped), threads 1 and 2
   write alternately to their pipes, thread 3 and thread 0 are picked again while blocked, ... *)
Definition ex_sched : list nat :=
  [1; 0; 2; 1; 2; 3; 0; 2; 1; 1; 2; 2; 3; 1; 0; 3; 0; 0; 3; 3; 0; 0; 3]%nat.
(* its prefix up to the moment thread 1 stands between its two writes *)
Definition ex_prefix : list nat := [1; 0; 2; 1]%nat.

(* the witness against the broken discipline: acceptor 0 (_total 0) and acceptor 1 (_total 1) both route to worker 0;
   work_seeded gives the first lock 0 and the second lock 1 *)
Definition bad_conns : list conn := [mk_conn 0 0 (Some 4000) 20%Z; mk_conn 1 1 (Some 4001) 21%Z].
(* thread 0: enter, address; thread 1: enter (its lock is free), address, descriptor; thread 0: descriptor, ... *)
Definition bad_sched : list nat := [0; 0; 1; 1; 1; 0; 0; 0; 1; 1]%nat.
Definition bad_prefix : list nat := [0; 0; 1]%nat.
