(* Correspondence relations for Exec/FdTable.v: each case carries an input and what the real code did. *)
From PM Require Import Lib.Bytes Lib.ZDict Exec.Threadless Exec.ThreadlessOld Exec.ThreadlessCases Exec.FdTable.
From Coq Require Import ZArith.

Definition fdop_eqb (a b : fdop) : bool :=
  match a, b with
  | FOpen f c, FOpen g d | FRecv f c, FRecv g d => (f =? g)%Z && (c =? d)
  | FDup f g, FDup f' g' => (f =? f')%Z && (g =? g')%Z
  | FClose f, FClose g => (f =? g)%Z
  | _, _ => false
  end.
Fixpoint fdops_eqb (a b : list fdop) : bool :=
  match a, b with
  | [], [] => true
  | x :: a', y :: b' => fdop_eqb x y && fdops_eqb a' b'
  | _, _ => false
  end.

(* 0 nothing escapes shutdown(); 1 TcpConnectionUninitializedException; 1000 + code: a hook's exception *)
Definition escape_code (e : escape) : N :=
  match e with EscNone => 0 | EscUninit => 1 | EscHook x => 1000 + exn_code x end.

Definition exn_of (c : N) : exn :=
  if c =? 1 then ValueError else if c =? 3 then KeyError else if c =? 5 then UnicodeDecodeError
  else if 200 <=? c then OSError (c - 200) else TypeError.
Definition mk_renv (flush hook : option N) (cs us : option N) : renv :=
  {| r_flush := option_map exn_of flush; r_hook := option_map exn_of hook; r_client_shutdown := cs; r_up_shutdown := us |}.

Inductive fcase :=
(* HttpProtocolHandler.shutdown on a handler in plugin state p: descriptors closed (in order), what escapes *)
| CRelease (env : renv) (client : fd) (p : plugin) (closes : list fd) (esc : N)
(* the open/close trace of one real connection (or of a history repeated n times): does it restore the table? *)
| CHistory (n : nat) (ops : list fdop) (restored : bool)
(* acceptor -> executor hand-off, as observed on real descriptors: references to the connection held by the
   acceptor side / the executor side after the hand-off, whether handle and dup are the accepted connection,
   whether the peer still sees the connection open before the release and closed after it *)
| CHandoff (acc_refs worker_refs : N) (same_conn open_before closed_after : bool).

Definition closes_of (ops : list fdop) : list fd :=
  flat_map (fun o => match o with FClose f => [f] | _ => [] end) ops.

Definition check_fcase (c : fcase) : bool :=
  match c with
  | CRelease env client p closes esc =>
      let (ops, e) := handler_shutdown env client p in
      zlist_eqb (closes_of ops) closes && (escape_code e =? esc)
  | CHistory n ops restored =>
      Bool.eqb (restoresb [] (repeat_ops n ops)) restored
  | CHandoff acc_refs worker_refs same_conn open_before closed_after =>
      let p0 := {| acceptor := [(10%Z, 1)]; inflight := []; worker := [] |} in
      match apply_hops p0 (handoff 10%Z 11%Z 12%Z) with
      | Err _ => false
      | Ok p1 =>
          (N.of_nat (length (refs 1 (acceptor p1))) =? acc_refs)
          && (N.of_nat (length (refs 1 (worker p1))) =? worker_refs)
          && Bool.eqb same_conn (match zget 11%Z (worker p1), zget 12%Z (worker p1) with Some 1, Some 1 => true | _, _ => false end)
          && Bool.eqb open_before (negb (Nat.eqb (total_refs 1 p1) 0))
          && match apply_hops p1 (worker_release 11%Z 12%Z) with
             | Ok p2 => Bool.eqb closed_after (Nat.eqb (total_refs 1 p2) 0)
             | Err _ => false
             end
      end
  end.

(* C10 compares executor schedules (Exec/ThreadlessCases.v) and descriptor-level cases *)
Inductive c10case := C10X (c : xcase) | C10F (c : fcase).
Definition check_c10 (c : c10case) : bool :=
  match c with C10X x => check_case x | C10F f => check_fcase f end.
