(* Exec/DispatchFacts.v — the two ends of the dispatch protocol agree, for every configuration. *)
From PM Require Import Lib.Bytes Lib.ZDict Exec.Threadless Exec.Dispatch.
From Coq Require Import ZArith Lia.

(* every acceptor id, every number of dispatched connections: the index is a valid worker *)
Theorem worker_index_in_range total idd num_workers :
  num_workers <> 0 -> worker_index total idd num_workers < num_workers.
Proof. intros H. unfold worker_index. apply N.mod_lt; exact H. Qed.

(* round robin: consecutive connections go to consecutive workers *)
Theorem worker_index_round_robin total idd num_workers :
  num_workers <> 0 ->
  worker_index (total + 1) idd num_workers = (worker_index total idd num_workers + 1) mod num_workers.
Proof.
  intros H. unfold worker_index. rewrite N.add_mod_idemp_l by exact H. f_equal. lia.
Qed.

(* the sender's format is the receiver's expectation: unix or tcp listener, with or without an address,
   whatever is queued behind *)
Theorem delegate_matches_receive unix addr f rest :
  receive_one unix (delegate_msgs unix addr f ++ rest) = Ok (f, told_addr unix addr, rest).
Proof. destruct unix; reflexivity. Qed.

(* ... hence any number of connections delegated to one pipe are received in order, each with its descriptor *)
Theorem receive_all_delegated unix conns :
  receive_all unix (2 * length conns + 1) (flat_map (fun c => delegate_msgs unix (fst c) (snd c)) conns) =
  Ok (map (fun c => (snd c, told_addr unix (fst c))) conns).
Proof.
  assert (G : forall fuel, (2 * length conns + 1 <= fuel)%nat ->
              receive_all unix fuel (flat_map (fun c => delegate_msgs unix (fst c) (snd c)) conns) =
              Ok (map (fun c => (snd c, told_addr unix (fst c))) conns)).
  { induction conns as [|[a f] t IH]; intros fuel Hf; cbn [flat_map map length fst snd].
    - destruct fuel; reflexivity.
    - destruct fuel as [|k]; [cbn [length] in Hf; lia|].
      assert (Hne : delegate_msgs unix a f ++ flat_map (fun c => delegate_msgs unix (fst c) (snd c)) t <> []).
      { unfold delegate_msgs. destruct unix; discriminate. }
      destruct (delegate_msgs unix a f ++ flat_map (fun c => delegate_msgs unix (fst c) (snd c)) t) as [|m q] eqn:E; [congruence|].
      cbn [receive_all]. rewrite <- E, delegate_matches_receive.
      rewrite IH by (cbn [length] in Hf; lia). reflexivity. }
  apply G. lia.
Qed.

(* a mismatch is fatal: an address sent to a worker that does not expect one (or the reverse) makes it fail *)
Theorem mismatch_fails addr f rest :
  (exists x, receive_one true (delegate_msgs false addr f ++ rest) = Err x) /\
  (exists x, receive_one false (delegate_msgs true addr f ++ rest) = Err x).
Proof. split; eexists; reflexivity. Qed.

(* dispatching never indexes out of range when there are as many pipes as workers *)
Lemma nth_update_ok {A} n (g : A -> A) (l : list A) : (n < length l)%nat -> exists l', nth_update n g l = Some l' /\ length l' = length l.
Proof.
  revert n. induction l as [|x t IH]; intros n H; [cbn in H; lia|].
  destruct n as [|k]; cbn [nth_update]; [eexists; split; reflexivity|].
  destruct (IH k) as (t' & E & L); [cbn in H; lia|]. rewrite E. eexists; split; [reflexivity|cbn; lia].
Qed.

Theorem dispatch_never_fails unix idd num_workers conns : forall total pipes,
  num_workers <> 0 -> length pipes = N.to_nat num_workers ->
  exists pipes', dispatch_all unix idd num_workers total conns pipes = Ok pipes' /\ length pipes' = length pipes.
Proof.
  induction conns as [|[a f] t IH]; intros total pipes Hn Hl; cbn [dispatch_all]; [eexists; split; reflexivity|].
  apply N.eqb_neq in Hn as Hn'. rewrite Hn'.
  pose proof (worker_index_in_range total idd num_workers Hn) as Hi.
  destruct (nth_update_ok (N.to_nat (worker_index total idd num_workers)) (fun q => q ++ delegate_msgs unix a f) pipes) as (p' & E & L); [lia|].
  rewrite E. destruct (IH (total + 1) p' Hn) as (p'' & E2 & L2); [lia|]. rewrite E2. eexists; split; [reflexivity|lia].
Qed.
