(* Correspondence relation for the executor model: the generic model of Exec/Threadless.v (and of
   Exec/ThreadlessOld.v) instantiated with SCRIPTED works — every entry point returns or raises
   according to a per-work script and logs the call — compared with what the real
   Threadless._run_forever did with the same scripts (harness/props/exec_common.py). *)
From PM Require Import Lib.Bytes Lib.ZDict Exec.Threadless Exec.ThreadlessOld.
From Coq Require Import ZArith.

Inductive call := CInit | CGet | CHandle (r w : list fd) | CShutdown | CInactive (clock : N).

Definition exn_of_code (c : N) : exn :=
  if c =? 1 then ValueError else if c =? 2 then IndexError else if c =? 3 then KeyError
  else if c =? 4 then AssertionError else if c =? 5 then UnicodeDecodeError else if c =? 7 then TypeError
  else if 200 <=? c then OSError (c - 200) else HttpProtocolException c.

Record swork := mk_swork_full {
  s_init : option N;                       (* Some code = initialize() raises *)
  s_get : list (sel_events + N);           (* per call: events returned | exception raised *)
  s_handle : list (bool + N);
  s_shutdown : option N;
  s_inactive : list (bool + N);
  s_log : list call
}.
Definition mk_swork i g h s a := mk_swork_full i g h s a [].
Definition logc (w : swork) (c : call) : swork :=
  mk_swork_full (s_init w) (s_get w) (s_handle w) (s_shutdown w) (s_inactive w) (s_log w ++ [c]).

Definition sw_initialize (w : swork) (_ : unit) : swork * result unit :=
  let w := logc w CInit in
  (w, match s_init w with Some c => Err (exn_of_code c) | None => Ok tt end).

Definition sw_get_events (w : swork) (_ : unit) : swork * result sel_events :=
  let w := logc w CGet in
  match s_get w with
  | [] => (w, Ok [])
  | x :: t => (mk_swork_full (s_init w) t (s_handle w) (s_shutdown w) (s_inactive w) (s_log w),
               match x with inl ev => Ok ev | inr c => Err (exn_of_code c) end)
  end.

Definition sw_handle_events (w : swork) (r wr : list fd) (_ : unit) : swork * result bool :=
  let w := logc w (CHandle r wr) in
  match s_handle w with
  | [] => (w, Ok false)
  | x :: t => (mk_swork_full (s_init w) (s_get w) t (s_shutdown w) (s_inactive w) (s_log w),
               match x with inl b => Ok b | inr c => Err (exn_of_code c) end)
  end.

Definition sw_shutdown (w : swork) (_ : unit) : swork * result unit :=
  let w := logc w CShutdown in
  (w, match s_shutdown w with Some c => Err (exn_of_code c) | None => Ok tt end).

Definition sw_is_inactive (w : swork) (clock : N) (_ : unit) : swork * result bool :=
  let w := logc w (CInactive clock) in
  match s_inactive w with
  | [] => (w, Ok false)
  | x :: t => (mk_swork_full (s_init w) (s_get w) (s_handle w) (s_shutdown w) t (s_log w),
               match x with inl b => Ok b | inr c => Err (exn_of_code c) end)
  end.

Definition sevent := event swork unit.
Definition mk_event (kf : kfail) (ready : list (fd * mask)) (a : arrival swork) (fin : list work_id)
           (clock : N) (rs : bool) : sevent :=
  {| ev_kfail := kf; ev_ready := ready; ev_arrival := a; ev_fin := fun i => zin i fin; ev_io := fun _ => tt;
     ev_clock := clock; ev_running_set := rs |}.

(* ------------------------------------------------------------------ observations *)
Record snap := mk_snap {
  o_works : list work_id;
  o_registered : list (work_id * list (fd * mask));
  o_sel : list (fd * (mask * Z));
  o_unfinished : list (work_id * list fd * list fd)
}.
Record expected := mk_expected {
  x_snaps : list snap;              (* at every select() *)
  x_final : snap;
  x_status : N;                     (* 0 still running, 1 stopped, 1000 + code crashed *)
  x_live : list (work_id * list call);
  x_gone : list (work_id * list call);
  x_oslog : list osop;
  x_total : N
}.

Definition zlist_eqb := fix f (a b : list Z) : bool :=
  match a, b with [], [] => true | x :: a', y :: b' => (x =? y)%Z && f a' b' | _, _ => false end.
Definition list_eqb {A} (eqb : A -> A -> bool) := fix f (a b : list A) : bool :=
  match a, b with [], [] => true | x :: a', y :: b' => eqb x y && f a' b' | _, _ => false end.
Definition fdmask_eqb (a b : fd * mask) : bool := (fst a =? fst b)%Z && (snd a =? snd b).
Definition call_eqb (a b : call) : bool :=
  match a, b with
  | CInit, CInit | CGet, CGet | CShutdown, CShutdown => true
  | CHandle r w, CHandle r' w' => zlist_eqb r r' && zlist_eqb w w'
  | CInactive c, CInactive c' => c =? c'
  | _, _ => false
  end.
Definition osop_eqb (a b : osop) : bool :=
  match a, b with
  | OsDup x, OsDup y | OsClose x, OsClose y => (x =? y)%Z
  | _, _ => false
  end.
Definition snap_eqb (a b : snap) : bool :=
  zlist_eqb (o_works a) (o_works b)
  && list_eqb (fun x y => (fst x =? fst y)%Z && list_eqb fdmask_eqb (snd x) (snd y)) (o_registered a) (o_registered b)
  && list_eqb (fun x y => (fst x =? fst y)%Z && (fst (snd x) =? fst (snd y)) && (snd (snd x) =? snd (snd y))%Z) (o_sel a) (o_sel b)
  && list_eqb (fun x y => (fst (fst x) =? fst (fst y))%Z && zlist_eqb (snd (fst x)) (snd (fst y)) && zlist_eqb (snd x) (snd y))
       (o_unfinished a) (o_unfinished b).

Definition snap_of (st : state swork) : snap :=
  mk_snap (zkeys (works st)) (registered st) (sel st)
          (map (fun t => (t_work t, t_r t, t_w t)) (unfinished st)).

Definition status_code (s : status) : N :=
  match s with Running => 0 | Stopped => 1 | Crashed e => 1000 + exn_code e end.

Definition log_entry_eqb (x y : work_id * list call) : bool :=
  (fst x =? fst y)%Z && list_eqb call_eqb (snd x) (snd y).
(* the order in which the works finishing in one iteration are shut down is the iteration order of
   a Python set of tasks (arbitrary); shutdown logs and os.close calls are compared as multisets *)
Fixpoint remove1 {A} (eqb : A -> A -> bool) (x : A) (l : list A) : option (list A) :=
  match l with
  | [] => None
  | y :: t => if eqb x y then Some t else match remove1 eqb x t with Some t' => Some (y :: t') | None => None end
  end.
Fixpoint perm_eqb {A} (eqb : A -> A -> bool) (a b : list A) : bool :=
  match a with
  | [] => match b with [] => true | _ => false end
  | x :: a' => match remove1 eqb x b with Some b' => perm_eqb eqb a' b' | None => false end
  end.

Inductive xcase :=
| XNew (wq : option fd) (tick_limit : N) (evs : list sevent) (x : expected)
| XOld (wq : option fd) (tick_limit : N) (evs : list sevent) (x : expected).

Definition split_last {A} (l : list A) : option (list A * A) :=
  match rev l with [] => None | x :: r => Some (rev r, x) end.

Definition check_obs (mids : list (state swork)) (fin : state swork) (s : status) (x : expected) : bool :=
  list_eqb snap_eqb (map snap_of mids) (x_snaps x)
  && snap_eqb (snap_of fin) (x_final x)
  && (status_code s =? x_status x)
  && list_eqb log_entry_eqb (map (fun p => (fst p, s_log (snd p))) (works fin)) (x_live x)
  && perm_eqb log_entry_eqb (map (fun p => (fst p, s_log (snd p))) (gone fin)) (x_gone x)
  && perm_eqb osop_eqb (oslog fin) (x_oslog x)
  && (total fin =? x_total x).

Definition new_run wq tl (evs : list sevent) (epi : sevent) :=
  let run := run_forever swork unit sw_initialize sw_get_events sw_handle_events sw_shutdown sw_is_inactive wq tl in
  let upd := update_selector swork unit sw_get_events sw_shutdown wq in
  let init := init_state swork wq in
  let mids := mid_states swork unit sw_initialize sw_get_events sw_handle_events sw_shutdown sw_is_inactive wq tl
                (evs ++ [epi]) init in
  let (st, s) := run evs init in
  (mids, match s with Running => upd epi st | _ => st end, s).

Definition old_run wq tl (evs : list sevent) (epi : sevent) :=
  let run := old_run_forever swork unit sw_initialize sw_get_events sw_handle_events sw_shutdown sw_is_inactive wq tl in
  let init := init_state swork wq in
  let mids := old_mid_states swork unit sw_initialize sw_get_events sw_handle_events sw_shutdown sw_is_inactive wq tl
                (evs ++ [epi]) init in
  let (st, s) := run evs init in
  match s with
  | Running => let (st', r) := old_update_selector swork unit sw_get_events epi st in
               (mids, st', match r with Ok _ => Running | Err x => Crashed x end)
  | _ => (mids, st, s)
  end.

Definition check_case (c : xcase) : bool :=
  match c with
  | XNew wq tl evs x =>
      match split_last evs with
      | None => false
      | Some (evs', epi) => let '(mids, fin, s) := new_run wq tl evs' epi in check_obs mids fin s x
      end
  | XOld wq tl evs x =>
      match split_last evs with
      | None => false
      | Some (evs', epi) => let '(mids, fin, s) := old_run wq tl evs' epi in check_obs mids fin s x
      end
  end.
