(* Exec/Modes.v — the thread-per-connection driver of proxy/http/handler.py, generic in the work like
   Exec/Threadless.v (same five entry points), plus the two pieces that exist only in this mode:
   the blocking flush in shutdown() and the handler's private selector.  Definitions only.

   Python (proxy/http/handler.py)                         Gallina
   HttpProtocolHandler.run                                threaded_run (threaded_loop = the `while True`)
   HttpProtocolHandler._run_once                          t_run_once
   HttpProtocolHandler._selected_events                   t_selected_events (t_register_all, t_select)
   HttpProtocolHandler._flush                             t_flush (t_flush_loop)
   HttpProtocolHandler.shutdown, threaded prefix          t_shutdown  (flush, then the mode-independent w_shutdown)
   proxy/core/acceptor/acceptor.py _work /
   proxy/core/work/threaded.py start_threaded_work        one threaded_run per accepted connection (a thread each:
                                                          no shared state, hence nothing to interleave in the model)

   One [tevent] = what the environment decides during one turn of the loop in run(): what the private
   selector's select() returns, epoll_ctl failures, the I/O oracle, the clock; [te_flush] = the select() results
   seen inside _flush (only consulted by the last event, when run() leaves the loop). *)
From PM Require Import Lib.Bytes Lib.ZDict Exec.Threadless.
From Coq Require Import ZArith.

Section Modes.
  Variable W : Type.
  Variable IO : Type.
  Variable w_initialize : W -> IO -> W * result unit.
  Variable w_get_events : W -> IO -> W * result sel_events.
  Variable w_handle_events : W -> list fd -> list fd -> IO -> W * result bool.
  Variable w_shutdown : W -> IO -> W * result unit.       (* the mode-independent rest of shutdown() *)
  Variable w_is_inactive : W -> N -> IO -> W * result bool.
  (* threaded mode only *)
  Variable w_has_buffer : W -> bool.                      (* self.work.has_buffer() *)
  Variable w_client_fd : W -> fd.                         (* self.work.connection *)
  Variable w_flush_once : W -> IO -> W * result unit.     (* self.work.flush(self.flags.max_sendbuf_size) *)

  Record tevent := {
    te_kfail : kfail;
    te_ready : list (fd * mask);
    te_io : IO;
    te_clock : N;
    te_flush : list bool          (* inside _flush: is the client reported writable by each select() *)
  }.

  (* the handler's private selector: fd -> events (data is None) *)
  Definition tsel := selmap.

  (* for fd in events: self.selector.register(fd, events[fd]) — unguarded *)
  Fixpoint t_register_all (kf : kfail) (sm : tsel) (evs : sel_events) : tsel * result unit :=
    match evs with
    | [] => (sm, Ok tt)
    | (f, m) :: t => match sel_register kf sm f m 0%Z with
                     | Ok sm' => t_register_all kf sm' t
                     | Err x => (sm, Err x)
                     end
    end.

  Fixpoint t_select (sm : tsel) (ready : list (fd * mask)) : list fd * list fd :=
    match ready with
    | [] => ([], [])
    | (f, ev) :: t =>
        let (rs, ws) := t_select sm t in
        match zget f sm with
        | None => (rs, ws)
        | Some (kev, _) =>
            let m := N.land ev kev in
            (if N.land m EVENT_READ =? 0 then rs else f :: rs, if N.land m EVENT_WRITE =? 0 then ws else f :: ws)
        end
    end.

  Fixpoint t_unregister_all (sm : tsel) (fds : list fd) : tsel :=
    match fds with
    | [] => sm
    | f :: t => t_unregister_all (match sel_unregister sm f with Ok sm' => sm' | Err _ => sm end) t
    end.

  (* _run_once: (events, readables, writables) = _selected_events(); try: handle_events finally: unregister all *)
  Definition t_run_once (e : tevent) (w : W) (sm : tsel) : W * tsel * result bool :=
    let (w1, rg) := w_get_events w (te_io e) in
    match rg with
    | Err x => (w1, sm, Err x)
    | Ok evs =>
        let (sm1, rr) := t_register_all (te_kfail e) sm evs in
        match rr with
        | Err x => (w1, sm1, Err x)                        (* raised before the try/finally: nothing is unregistered *)
        | Ok _ =>
            let (rs, ws) := t_select sm1 (te_ready e) in
            let (w2, rh) := w_handle_events w1 rs ws (te_io e) in
            (w2, t_unregister_all sm1 (zkeys evs), rh)
        end
    end.

  (* _flush: register(client, WRITE); while has_buffer: ev = select(); if not ev: continue; flush()
     except OSError: pass   (since faabfc0; before: BrokenPipeError only)   finally: unregister(client) *)
  Definition is_broken_pipe (e : exn) : bool := match e with OSError _ => true | _ => false end.

  Fixpoint t_flush_loop (fl : list bool) (w : W) (io : IO) : W * result unit :=
    if w_has_buffer w then
      match fl with
      | [] => (w, Ok tt)                                   (* the thread would keep waiting; the schedule ends here *)
      | false :: t => t_flush_loop t w io                  (* len(ev) == 0: continue *)
      | true :: t => let (w', r) := w_flush_once w io in
                     match r with
                     | Ok _ => t_flush_loop t w' io
                     | Err x => (w', Err x)
                     end
      end
    else (w, Ok tt).

  Definition t_flush (e : tevent) (w : W) (sm : tsel) : W * tsel * result unit :=
    match sel_register (te_kfail e) sm (w_client_fd w) EVENT_WRITE 0%Z with
    | Err x => (w, match sel_unregister sm (w_client_fd w) with Ok sm' => sm' | Err _ => sm end,
                (* finally: unregister — which itself raises KeyError when the register failed on a fresh selector *)
                Err (match sel_unregister sm (w_client_fd w) with Ok _ => x | Err y => y end))
    | Ok sm1 =>
        let (w', r) := t_flush_loop (te_flush e) w (te_io e) in
        let sm2 := match sel_unregister sm1 (w_client_fd w) with Ok s => s | Err _ => sm1 end in
        (w', sm2, match r with
                  | Err x => if is_broken_pipe x then Ok tt else Err x
                  | Ok _ => Ok tt
                  end)
    end.

  (* shutdown() in threaded mode: try: if self.selector and has_buffer: _flush(); <rest> except OSError: pass finally: close
     The rest (plugin close handler, conn.shutdown, conn.close, Work.shutdown) is the work's w_shutdown; an OSError
     escaping _flush skips the plugin's close handler but not the close of the client socket: here the two are one
     step, so an OSError from the flush is recorded and w_shutdown still runs (the difference is C10's
     release_flush_oserror_leaks). *)
  Definition t_shutdown (e : tevent) (w : W) (sm : tsel) : W * result unit :=
    if w_has_buffer w then
      let '(w1, _, rf) := t_flush e w sm in
      let (w2, rs) := w_shutdown w1 (te_io e) in
      (w2, match rf with
           | Err x => match x with OSError _ => rs | _ => Err x end
           | Ok _ => rs
           end)
    else w_shutdown w (te_io e).

  Inductive tstatus :=
  | TRunning                     (* the schedule ran out while the loop was still going *)
  | TDone (r : result unit).     (* run() returned (Ok) or an exception escaped its finally block (Err) *)

  (* the `while True` of run(); [last] is the event in force when the loop is left *)
  Fixpoint threaded_loop (evs : list tevent) (w : W) (sm : tsel) : W * tstatus :=
    match evs with
    | [] => (w, TRunning)
    | e :: t =>
        let (w0, ri) := w_is_inactive w (te_clock e) (te_io e) in
        match ri with
        | Err _ | Ok true =>                               (* exception -> except Exception: logged; True -> break *)
            let (w', r) := t_shutdown e w0 sm in (w', TDone r)
        | Ok false =>
            let '(w1, sm1, r1) := t_run_once e w0 sm in
            match r1 with
            | Ok false => threaded_loop t w1 sm1
            | Ok true | Err _ => let (w', r) := t_shutdown e w1 sm1 in (w', TDone r)
            end
        end
    end.

  (* run(): try: self.initialize(); while True: ...  except Exception: logged  finally: self.shutdown() *)
  Definition threaded_run (e0 : tevent) (evs : list tevent) (w : W) : W * tstatus :=
    let (w0, r0) := w_initialize w (te_io e0) in
    match r0 with
    | Err _ => let (w', r) := t_shutdown e0 w0 [] in (w', TDone r)
    | Ok _ => threaded_loop evs w0 []
    end.
End Modes.

Arguments te_kfail {IO}. Arguments te_ready {IO}. Arguments te_io {IO}. Arguments te_clock {IO}. Arguments te_flush {IO}.
