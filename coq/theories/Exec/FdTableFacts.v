(* Exec/FdTableFacts.v — lemmas for C10 (and C17_remote_fd):
   A. descriptor tables: histories that give back what they took restore the table, any number of times;
   B. acceptor -> remote executor hand-off;
   C. HttpProtocolHandler.shutdown closes every socket opened on the connection's behalf;
   D. executor bookkeeping after _cleanup, at quiescence, received handles closed exactly once. *)
From PM Require Import Lib.Bytes Lib.ZDict Lib.ZDictFacts Exec.Threadless Exec.ThreadlessFacts Exec.FdTable.
From Coq Require Import ZArith Lia.

(* ------------------------------------------------------------------ A. tables *)
Lemma table_eq_refl t : table_eq t t.
Proof. intros f; reflexivity. Qed.
Lemma table_eq_sym a b : table_eq a b -> table_eq b a.
Proof. intros H f; symmetry; apply H. Qed.
Lemma table_eq_trans a b c : table_eq a b -> table_eq b c -> table_eq a c.
Proof. intros H1 H2 f. rewrite H1; apply H2. Qed.

Lemma table_eq_zmem a b f : table_eq a b -> zmem f a = zmem f b.
Proof. intros H. unfold zmem. rewrite (H f). reflexivity. Qed.
Lemma table_eq_zset a b f c : table_eq a b -> table_eq (zset f c a) (zset f c b).
Proof. intros H g. rewrite !zget_zset. destruct (g =? f)%Z; [reflexivity|apply H]. Qed.
Lemma table_eq_zdel a b f : table_eq a b -> table_eq (zdel f a) (zdel f b).
Proof. intros H g. rewrite !zget_zdel. destruct (g =? f)%Z; [reflexivity|apply H]. Qed.

Lemma apply_op_compat a b o a' :
  table_eq a b -> apply_op a o = Ok a' -> exists b', apply_op b o = Ok b' /\ table_eq a' b'.
Proof.
  intros H. destruct o as [f c|f c|f g|f]; cbn [apply_op].
  - rewrite <- (table_eq_zmem a b f H). destruct ((f <? 0)%Z || zmem f a); [discriminate|].
    intros X; inversion X; subst. eexists; split; [reflexivity|apply table_eq_zset; exact H].
  - rewrite <- (table_eq_zmem a b f H). destruct ((f <? 0)%Z || zmem f a); [discriminate|].
    intros X; inversion X; subst. eexists; split; [reflexivity|apply table_eq_zset; exact H].
  - rewrite <- (H f). destruct (zget f a) as [c|]; [|discriminate].
    rewrite <- (table_eq_zmem a b g H). destruct ((g <? 0)%Z || zmem g a); [discriminate|].
    intros X; inversion X; subst. eexists; split; [reflexivity|apply table_eq_zset; exact H].
  - rewrite <- (table_eq_zmem a b f H). destruct (zmem f a); [|discriminate].
    intros X; inversion X; subst. eexists; split; [reflexivity|apply table_eq_zdel; exact H].
Qed.

Lemma apply_ops_compat ops : forall a b a',
  table_eq a b -> apply_ops a ops = Ok a' -> exists b', apply_ops b ops = Ok b' /\ table_eq a' b'.
Proof.
  induction ops as [|o rest IH]; intros a b a' H; cbn [apply_ops].
  - intros X; inversion X; subst. eexists; split; [reflexivity|exact H].
  - destruct (apply_op a o) as [a1|] eqn:E; [|discriminate]. intros X.
    destruct (apply_op_compat a b o a1 H E) as (b1 & E1 & H1). rewrite E1. eapply IH; eassumption.
Qed.

Lemma apply_ops_app x : forall t y,
  apply_ops t (x ++ y) = match apply_ops t x with Ok t' => apply_ops t' y | Err e => Err e end.
Proof.
  induction x as [|o rest IH]; intros t y; cbn [apply_ops app]; [reflexivity|].
  destruct (apply_op t o); [apply IH|reflexivity].
Qed.

(* repeating a history that restores the table restores the table: descriptors do not grow *)
Theorem no_growth t ops : restores t ops -> forall n, restores t (repeat_ops n ops).
Proof.
  intros (t1 & E1 & H1) n. induction n as [|k IH]; cbn [repeat_ops].
  - exists t. split; [reflexivity|apply table_eq_refl].
  - destruct IH as (tk & Ek & Hk).
    (* run the remaining repetitions from t1, which equals t as a map *)
    destruct (apply_ops_compat (repeat_ops k ops) t t1 tk (table_eq_sym _ _ H1) Ek) as (u1 & Eu1 & Hu1).
    exists u1. split; [rewrite apply_ops_app, E1; exact Eu1|].
    eapply table_eq_trans; [apply table_eq_sym; exact Hu1|exact Hk].
Qed.

Lemma zget_In {V} f (c : V) (d : zdict V) : zget f d = Some c -> In (f, c) d.
Proof.
  induction d as [|[k v] t IH]; cbn [zget]; [discriminate|].
  destruct (f =? k)%Z eqn:E; [intros X; inversion X; subst; apply Z.eqb_eq in E; subst; left; reflexivity|].
  intros X; right; apply IH; exact X.
Qed.
Lemma In_zget {V} f (c : V) (d : zdict V) : In (f, c) d -> zget f d <> None.
Proof.
  intros H. apply zkeys_zget. apply in_map_iff. exists (f, c). split; [reflexivity|exact H].
Qed.

Lemma table_sub_spec a b : table_sub a b = true -> forall f c, zget f a = Some c -> zget f b = Some c.
Proof.
  unfold table_sub. rewrite forallb_forall. intros H f c Hf. specialize (H (f, c) (zget_In _ _ _ Hf)). cbn [fst snd] in H.
  destruct (zget f b) as [c'|]; [|discriminate]. apply N.eqb_eq in H; subst; reflexivity.
Qed.

Lemma table_eqb_sound a b : table_eqb a b = true -> table_eq a b.
Proof.
  unfold table_eqb. intros H. apply andb_true_iff in H as [H1 H2].
  intros f. destruct (zget f a) as [c|] eqn:Ea.
  - symmetry. eapply table_sub_spec; eassumption.
  - destruct (zget f b) as [c|] eqn:Eb; [|reflexivity].
    rewrite (table_sub_spec b a H2 f c Eb) in Ea. discriminate.
Qed.

Theorem restoresb_sound t ops : restoresb t ops = true -> restores t ops.
Proof.
  unfold restoresb, restores. destruct (apply_ops t ops) as [t'|]; [|discriminate].
  intros H. exists t'. split; [reflexivity|apply table_eqb_sound; exact H].
Qed.

(* ------------------------------------------------------------------ B. hand-off to a remote executor *)
Definition holds (c : ofd) (p : two_procs) : Prop :=
  (exists f, zget f (acceptor p) = Some c) \/ In c (inflight p) \/ (exists f, zget f (worker p) = Some c).

Theorem handoff_ok a h s c ta tw :
  zget a ta = Some c -> (forall f, zget f ta = Some c -> f = a) ->           (* the accepted socket, the acceptor's only reference *)
  (forall f, zget f tw <> Some c) ->                                         (* unknown to the worker *)
  zmem h tw = false -> zmem s tw = false -> h <> s -> (0 <= h)%Z -> (0 <= s)%Z ->   (* kernel: fresh numbers *)
  let p0 := {| acceptor := ta; inflight := []; worker := tw |} in
  exists p1 p2 p3 p4,
    apply_hop p0 (ASendHandle a) = Ok p1 /\ apply_hop p1 (AClose a) = Ok p2 /\
    apply_hop p2 (WRecvHandle h) = Ok p3 /\ apply_hop p3 (WDup h s) = Ok p4 /\
    (* the connection stays open all along *)
    holds c p1 /\ holds c p2 /\ holds c p3 /\ holds c p4 /\
    (* the acceptor keeps none *)
    (forall f, zget f (acceptor p4) <> Some c) /\ inflight p4 = [] /\
    (forall f, f <> a -> zget f (acceptor p4) = zget f ta) /\
    (* the executor holds exactly the received handle and its dup, both of the SAME open connection *)
    zget h (worker p4) = Some c /\ zget s (worker p4) = Some c /\
    (forall f, zget f (worker p4) = Some c -> f = h \/ f = s) /\
    (forall f, f <> h -> f <> s -> zget f (worker p4) = zget f tw).
Proof.
  intros Ha Honly Hw Hh Hs Hhs Hh0 Hs0 p0.
  assert (Hma : zmem a ta = true) by (eapply zmem_some; exact Ha).
  assert (Lh : (h <? 0)%Z = false) by (apply Z.ltb_ge; exact Hh0).
  assert (Ls : (s <? 0)%Z = false) by (apply Z.ltb_ge; exact Hs0).
  assert (Hs' : zmem s (zset h c tw) = false).
  { rewrite zmem_zset, Hs. apply Z.eqb_neq in Hhs. rewrite Z.eqb_sym, Hhs. reflexivity. }
  exists {| acceptor := ta; inflight := [c]; worker := tw |},
         {| acceptor := zdel a ta; inflight := [c]; worker := tw |},
         {| acceptor := zdel a ta; inflight := []; worker := zset h c tw |},
         {| acceptor := zdel a ta; inflight := []; worker := zset s c (zset h c tw) |}.
  unfold p0. cbn [apply_hop acceptor inflight worker apply_op app].
  rewrite Ha, Hma, Lh, Hh, zget_zset_same, Ls, Hs'. cbn [orb].
  split; [reflexivity|]. split; [reflexivity|]. split; [reflexivity|]. split; [reflexivity|].
  split; [left; exists a; exact Ha|].
  split; [right; left; left; reflexivity|].
  split; [right; right; exists h; apply zget_zset_same|].
  split; [right; right; exists s; apply zget_zset_same|].
  split.
  { intros f Hf. rewrite zget_zdel in Hf. destruct (f =? a)%Z eqn:E; [discriminate|].
    apply Z.eqb_neq in E. apply E. apply Honly; exact Hf. }
  split; [reflexivity|].
  split; [intros f Hf; apply zget_zdel_other; exact Hf|].
  split; [rewrite zget_zset_other by exact Hhs; apply zget_zset_same|].
  split; [apply zget_zset_same|].
  split.
  { intros f Hf. rewrite !zget_zset in Hf. destruct (f =? s)%Z eqn:E1; [right; apply Z.eqb_eq; exact E1|].
    destruct (f =? h)%Z eqn:E2; [left; apply Z.eqb_eq; exact E2|]. exfalso. eapply Hw; exact Hf. }
  intros f Hfh Hfs. rewrite !zget_zset_other by assumption. reflexivity.
Qed.

(* ... and when the work is over: shutdown() closes the dup, _cleanup closes the received handle,
   nothing refers to the connection any more (the kernel can finish it) *)
Theorem release_after_handoff h s c tw ta :
  zget h tw = Some c -> zget s tw = Some c -> h <> s -> (forall f, zget f tw = Some c -> f = h \/ f = s) ->
  (forall f, zget f ta <> Some c) ->
  let p0 := {| acceptor := ta; inflight := []; worker := tw |} in
  exists p2, apply_hops p0 (worker_release h s) = Ok p2 /\ ~ holds c p2 /\
             (forall f, f <> h -> f <> s -> zget f (worker p2) = zget f tw).
Proof.
  intros Hh Hs Hhs Honly Hta p0. unfold worker_release. cbn [apply_hops apply_hop apply_op p0 acceptor inflight worker].
  rewrite (zmem_some _ _ _ Hs).
  assert (Hm : zmem h (zdel s tw) = true).
  { rewrite zmem_zdel. apply Z.eqb_neq in Hhs. rewrite Hhs. cbn. eapply zmem_some; exact Hh. }
  cbn [apply_hops apply_hop apply_op acceptor inflight worker]. rewrite Hm.
  eexists. split; [reflexivity|]. cbn [acceptor inflight worker]. split.
  - intros [[f Hf]|[[]|[f Hf]]]; [eapply Hta; exact Hf|]. cbn [worker] in Hf.
    rewrite !zget_zdel in Hf. destruct (f =? h)%Z eqn:E1; [discriminate|]. destruct (f =? s)%Z eqn:E2; [discriminate|].
    apply Z.eqb_neq in E1, E2. destruct (Honly f Hf); contradiction.
  - intros f Hfh Hfs. rewrite !zget_zdel_other by assumption. reflexivity.
Qed.

(* ------------------------------------------------------------------ C. HttpProtocolHandler.shutdown *)
(* the threadless case (no flush) with well-behaved access-log hooks: every upstream socket the plugin
   holds open is closed, then the client socket; each exactly once; nothing else *)
Theorem release_closes_everything env client p :
  r_flush env = None -> r_hook env = None ->
  fst (handler_shutdown env client p) = map FClose (open_upstreams p) ++ [FClose client].
Proof.
  intros Hf Hh. unfold handler_shutdown. rewrite Hf.
  destruct p as [|u|r]; cbn [open_upstreams map app].
  - reflexivity.
  - unfold proxy_close. rewrite Hh. destruct u as [| |f closed]; cbn [fst open_upstreams map app]; try reflexivity.
    destruct closed; reflexivity.
  - unfold web_close. rewrite Hh. destruct r as [u|]; [|reflexivity].
    destruct u as [| |f closed]; cbn [reverse_close fst open_upstreams map app]; try reflexivity.
    destruct closed; reflexivity.
Qed.

(* a raising hook (or, in threaded mode, a flush failing with an OSError other than BrokenPipeError)
   makes shutdown skip the plugin's close handler: the upstream socket stays open *)
Theorem release_hook_raises_leaks env client f e :
  r_flush env = None -> r_hook env = Some e ->
  fst (handler_shutdown env client (PProxy (USock f false))) = [FClose client].
Proof.
  intros Hf Hh. unfold handler_shutdown, proxy_close. rewrite Hf, Hh. destruct (is_oserror e); reflexivity.
Qed.

Theorem release_flush_oserror_leaks env client f k :
  r_flush env = Some (OSError k) ->
  fst (handler_shutdown env client (PProxy (USock f false))) = [FClose client].
Proof. intros Hf. unfold handler_shutdown. rewrite Hf. reflexivity. Qed.

(* the client socket is closed whatever happens *)
Theorem client_always_closed env client p :
  exists pre, fst (handler_shutdown env client p) = pre ++ [FClose client].
Proof.
  unfold handler_shutdown. destruct (r_flush env) as [e|].
  - destruct (is_oserror e); exists []; reflexivity.
  - destruct (match p with PNone => _ | PProxy u => _ | PWeb r => _ end) as [ops esc].
    destruct esc as [|e|]; [|destruct (is_oserror e)|]; eexists; reflexivity.
Qed.

(* the whole life of a connection in a worker gives back every descriptor: local or remote executor,
   with or without an upstream socket *)
Theorem conn_history_restores remote h s cli env t (up : option (fd * ofd)) p :
  r_flush env = None -> r_hook env = None ->
  zmem h t = false -> zmem s t = false -> h <> s -> (0 <= h)%Z -> (0 <= s)%Z ->
  match up with
  | None => open_upstreams p = []
  | Some (f, c) => open_upstreams p = [f] /\ zmem f t = false /\ f <> h /\ f <> s /\ (0 <= f)%Z
  end ->
  restores t (conn_history remote h s cli
                (match up with Some (f, c) => [FOpen f c] | None => [] end) env p).
Proof.
  intros Hf Hk Hh Hs Hhs Hh0 Hs0 Hup. unfold conn_history, restores.
  rewrite (release_closes_everything env s p Hf Hk).
  assert (Lh : (h <? 0)%Z = false) by (apply Z.ltb_ge; exact Hh0).
  assert (Ls : (s <? 0)%Z = false) by (apply Z.ltb_ge; exact Hs0).
  destruct up as [[f c]|].
  - destruct Hup as (Ho & Hft & Hfh & Hfs & Hf0). rewrite Ho.
    assert (Lf : (f <? 0)%Z = false) by (apply Z.ltb_ge; exact Hf0).
    destruct remote; cbn [app map apply_ops apply_op].
    + rewrite Lh, Hh. cbn [orb]. rewrite zget_zset_same, Ls.
      rewrite zmem_zset, Hs. replace (s =? h)%Z with false by (symmetry; apply Z.eqb_neq; congruence). cbn [orb].
      rewrite Lf, !zmem_zset, Hft.
      replace (f =? s)%Z with false by (symmetry; apply Z.eqb_neq; congruence).
      replace (f =? h)%Z with false by (symmetry; apply Z.eqb_neq; congruence). cbn [orb].
      rewrite zmem_zset, Z.eqb_refl. cbn [orb].
      rewrite zmem_zdel, !zmem_zset, Z.eqb_refl.
      replace (s =? f)%Z with false by (symmetry; apply Z.eqb_neq; congruence). cbn [negb andb orb].
      rewrite !zmem_zdel, !zmem_zset, Z.eqb_refl.
      replace (h =? s)%Z with false by (symmetry; apply Z.eqb_neq; congruence).
      replace (h =? f)%Z with false by (symmetry; apply Z.eqb_neq; congruence). cbn [negb andb orb].
      eexists. split; [reflexivity|]. intros g. rewrite !zget_zdel, !zget_zset.
      destruct (g =? h)%Z eqn:E1; [apply Z.eqb_eq in E1; subst; symmetry; apply zmem_false; exact Hh|].
      destruct (g =? s)%Z eqn:E2; [apply Z.eqb_eq in E2; subst; symmetry; apply zmem_false; exact Hs|].
      destruct (g =? f)%Z eqn:E3; [apply Z.eqb_eq in E3; subst; symmetry; apply zmem_false; exact Hft|]. reflexivity.
    + rewrite Ls, Hs. cbn [orb]. rewrite Lf, zmem_zset, Hft.
      replace (f =? s)%Z with false by (symmetry; apply Z.eqb_neq; congruence). cbn [orb].
      rewrite zmem_zset, Z.eqb_refl. cbn [orb].
      rewrite zmem_zdel, !zmem_zset, Z.eqb_refl.
      replace (s =? f)%Z with false by (symmetry; apply Z.eqb_neq; congruence). cbn [negb andb orb].
      eexists. split; [reflexivity|]. intros g. rewrite !zget_zdel, !zget_zset.
      destruct (g =? s)%Z eqn:E2; [apply Z.eqb_eq in E2; subst; symmetry; apply zmem_false; exact Hs|].
      destruct (g =? f)%Z eqn:E3; [apply Z.eqb_eq in E3; subst; symmetry; apply zmem_false; exact Hft|]. reflexivity.
  - rewrite Hup. destruct remote; cbn [app map apply_ops apply_op].
    + rewrite Lh, Hh. cbn [orb]. rewrite zget_zset_same, Ls.
      rewrite zmem_zset, Hs. replace (s =? h)%Z with false by (symmetry; apply Z.eqb_neq; congruence). cbn [orb].
      rewrite zmem_zset, Z.eqb_refl. cbn [orb].
      rewrite zmem_zdel, !zmem_zset, Z.eqb_refl.
      replace (h =? s)%Z with false by (symmetry; apply Z.eqb_neq; congruence). cbn [negb andb orb].
      eexists. split; [reflexivity|]. intros g. rewrite !zget_zdel, !zget_zset.
      destruct (g =? h)%Z eqn:E1; [apply Z.eqb_eq in E1; subst; symmetry; apply zmem_false; exact Hh|].
      destruct (g =? s)%Z eqn:E2; [apply Z.eqb_eq in E2; subst; symmetry; apply zmem_false; exact Hs|]. reflexivity.
    + rewrite Ls, Hs. cbn [orb]. rewrite zmem_zset, Z.eqb_refl. cbn [orb].
      eexists. split; [reflexivity|]. intros g. rewrite !zget_zdel, !zget_zset.
      destruct (g =? s)%Z eqn:E2; [apply Z.eqb_eq in E2; subst; symmetry; apply zmem_false; exact Hs|]. reflexivity.
Qed.

(* AS FOUND, the reverse proxy replaces its upstream on every further request of a connection and forgets
   the previous socket: after two requests and the regular teardown one upstream descriptor is still open *)
Theorem reverse_replacement_leaks :
  let '(u, opens) := reverse_requests UNone [Some 8%Z; Some 9%Z] 100 in
  let ops := conn_history false 0%Z 7%Z 50 opens {| r_flush := None; r_hook := None; r_client_shutdown := None; r_up_shutdown := None |}
                          (PWeb (Some u)) in
  exists t', apply_ops [] ops = Ok t' /\ zget 8%Z t' = Some 100 /\ ~ restores [] ops.
Proof.
  cbn. eexists. split; [reflexivity|]. split; [reflexivity|].
  intros (t' & E & H). cbn in E. inversion E; subst. specialize (H 8%Z). cbn in H. discriminate.
Qed.

(* ------------------------------------------------------------------ D. executor bookkeeping *)
Section ExecC10.
  Variable W : Type.
  Variable IO : Type.
  Variable w_initialize : W -> IO -> W * result unit.
  Variable w_get_events : W -> IO -> W * result sel_events.
  Variable w_handle_events : W -> list fd -> list fd -> IO -> W * result bool.
  Variable w_shutdown : W -> IO -> W * result unit.
  Variable w_is_inactive : W -> N -> IO -> W * result bool.
  Variable wq : option fd.
  Variable tick_limit : N.

  Notation State := (state W).
  Notation Event := (event W IO).
  Notation CLEANUP := (cleanup W IO w_shutdown wq).
  Notation UWE_LOOP := (uwe_loop W IO).
  Notation UWE := (update_work_events W IO w_get_events).
  Notation UPD_ONE := (update_selector_one W IO w_get_events w_shutdown wq).
  Notation UPD := (update_selector W IO w_get_events w_shutdown wq).
  Notation DO_WORK := (do_work W IO w_initialize w_shutdown wq).
  Notation RECEIVE := (receive_from_work_queue W IO w_initialize w_shutdown wq).
  Notation RUN_TASK := (run_task W IO w_handle_events).
  Notation RUN_TASKS := (run_tasks W IO w_handle_events).
  Notation CLEANUP_FIN := (cleanup_finished W IO w_shutdown wq).
  Notation REST := (run_once_rest W IO w_initialize w_handle_events w_shutdown wq).
  Notation SCAN := (inactive_scan W IO w_is_inactive).
  Notation CLEANUP_INACTIVE := (cleanup_inactive W IO w_shutdown w_is_inactive wq).
  Notation BODY := (loop_body W IO w_initialize w_get_events w_handle_events w_shutdown w_is_inactive wq tick_limit).
  Notation RUN := (run_forever W IO w_initialize w_get_events w_handle_events w_shutdown w_is_inactive wq tick_limit).
  Notation INV := (inv W wq).
  Notation SCHED_OK := (sched_ok W IO w_initialize w_get_events w_handle_events w_shutdown w_is_inactive wq tick_limit).

  (* nothing of work i is left in the executor *)
  Definition clean (i : work_id) (st : State) : Prop :=
    zget i (works st) = None /\ zget i (registered st) = None /\
    (forall f m, zget f (sel st) <> Some (m, i)).

  Theorem gone_is_clean i (st : State) :
    INV None st -> zmem i (works st) = false -> wq <> Some i -> clean i st.
  Proof.
    intros Hinv Hi Hq. split; [apply zmem_false; exact Hi|]. split.
    - apply zmem_false. destruct (zmem i (registered st)) eqn:E; [|reflexivity].
      rewrite (inv_reg_works _ _ _ _ Hinv i E) in Hi. discriminate.
    - intros f m Hf. destruct (inv_sel_reg _ _ _ _ Hinv f m i Hf) as [(Hw & _ & Hd)|(_ & Hd & _)].
      + subst f. contradiction.
      + congruence.
  Qed.

  (* _cleanup(i): the work, its registrations and its selector keys are gone, everything else is untouched *)
  Theorem cleanup_bookkeeping e i (st : State) :
    INV None st -> wq <> Some i ->
    let st' := CLEANUP e i st in
    clean i st' /\
    (forall j, j <> i -> zget j (works st') = zget j (works st) /\ zget j (registered st') = zget j (registered st)) /\
    (forall f m d, d <> i -> (zget f (sel st') = Some (m, d) <-> zget f (sel st) = Some (m, d))) /\
    unfinished st' = unfinished st /\ tick st' = tick st /\ total st' = total st /\
    oslog st' = (match zget i (works st), wq with Some _, Some _ => oslog st ++ [OsClose i] | _, _ => oslog st end) /\
    INV None st'.
  Proof.
    intros Hinv Hq st'.
    assert (Hinv' : INV None st') by (apply cleanup_inv, inv_weaken; exact Hinv).
    split.
    { apply gone_is_clean; [exact Hinv'| |exact Hq]. subst st'. rewrite cleanup_works, zmem_zdel, Z.eqb_refl. reflexivity. }
    split.
    { intros j Hj. subst st'. rewrite cleanup_works, cleanup_registered, !zget_zdel_other by exact Hj. split; reflexivity. }
    split.
    { intros f m d Hd. subst st'. rewrite cleanup_sel_get.
      destruct (zmem f (regs_of W i st)) eqn:Em; cbn [andb].
      - apply zmem_zget in Em. destruct (zget f (regs_of W i st)) as [m'|] eqn:Er; [|congruence].
        destruct (inv_reg_sel _ _ _ _ Hinv i f m' Er) as [Hs|[X _]]; [|discriminate].
        assert (H0 : (0 <=? f)%Z = true).
        { apply Z.leb_le. eapply (inv_fd_nonneg _ _ _ _ Hinv); [exact Hs|].
          intros Hw. rewrite (inv_wq_reg _ _ _ _ Hinv f i Hw) in Er. discriminate. }
        rewrite H0. split; [discriminate|]. intros Hf. rewrite Hs in Hf. inversion Hf; subst. contradiction.
      - tauto. }
    subst st'. rewrite cleanup_unfinished, cleanup_tick, cleanup_total, cleanup_oslog.
    split; [reflexivity|]. split; [reflexivity|]. split; [reflexivity|]. split; [reflexivity|exact Hinv'].
  Qed.

  (* when no work is live the executor's bookkeeping is what it was at start-up *)
  Theorem quiescent_is_initial (st : State) :
    INV None st -> works st = [] ->
    registered st = [] /\ forall f, zget f (sel st) = zget f (sel (init_state W wq)).
  Proof.
    intros Hinv Hw. split.
    - destruct (registered st) as [|[j r] t] eqn:E; [reflexivity|]. exfalso.
      assert (Hm : zmem j (registered st) = true) by (rewrite E; unfold zmem; cbn [zget]; rewrite Z.eqb_refl; reflexivity).
      pose proof (inv_reg_works _ _ _ _ Hinv j Hm) as Hx. rewrite Hw in Hx. discriminate.
    - intros f. unfold init_state; cbn [sel].
      destruct (zget f (sel st)) as [[m d]|] eqn:Ef.
      + destruct (inv_sel_reg _ _ _ _ Hinv f m d Ef) as [(Hq & -> & ->)|(_ & Hd & _)].
        * rewrite Hq. cbn [zget]. rewrite Z.eqb_refl. reflexivity.
        * rewrite Hw in Hd. discriminate.
      + destruct wq as [q|] eqn:Hq; cbn [zget]; [|reflexivity].
        destruct (f =? q)%Z eqn:E; [|reflexivity]. apply Z.eqb_eq in E; subst f.
        rewrite (inv_wq _ _ _ _ Hinv q eq_refl) in Ef. discriminate.
  Qed.

  (* ---------------------------------------------------------------- every kind of ending removes the work in the same iteration *)
  Lemma cleanup_absent_stays e j i (st : State) :
    zmem i (works st) = false -> zmem i (works (CLEANUP e j st)) = false.
  Proof. intros H. rewrite cleanup_works, zmem_zdel, H. apply andb_false_r. Qed.

  (* E1/E2: handle_events returned True (normal end, peer closed, error answered) or raised *)
  Theorem finished_teardown_cleaned e i res : forall (st : State),
    In (i, true) res -> zmem i (works (CLEANUP_FIN e st res)) = false.
  Proof.
    unfold cleanup_finished. induction res as [|[j td] t IH]; intros st Hin; [destruct Hin|].
    cbn [fold_left fst snd]. destruct Hin as [Heq|Hin].
    - inversion Heq; subst. clear IH.
      assert (H0 : zmem i (works (CLEANUP e i st)) = false) by (rewrite cleanup_works, zmem_zdel, Z.eqb_refl; reflexivity).
      revert H0. generalize (CLEANUP e i st). induction t as [|[k tk] t' IH']; intros s0 H0; cbn [fold_left fst snd]; [exact H0|].
      apply IH'. destruct tk; [apply cleanup_absent_stays; exact H0|exact H0].
    - apply IH; exact Hin.
  Qed.

  (* E5/E6: idle timeout (is_inactive True) or is_inactive raising, at the periodic sweep *)
  Theorem inactive_cleaned e i l : forall (st : State),
    In i l -> zmem i (works (fold_left (fun st j => CLEANUP e j st) l st)) = false.
  Proof.
    induction l as [|j t IH]; intros st Hin; [destruct Hin|]. cbn [fold_left]. destruct Hin as [->|Hin].
    - assert (H0 : zmem i (works (CLEANUP e i st)) = false) by (rewrite cleanup_works, zmem_zdel, Z.eqb_refl; reflexivity).
      revert H0. generalize (CLEANUP e i st). clear IH. induction t as [|k t' IH']; intros s0 H0; cbn [fold_left]; [exact H0|].
      apply IH'. apply cleanup_absent_stays; exact H0.
    - apply IH; exact Hin.
  Qed.

  (* E3/E4: get_events raising, or the selector refusing a descriptor the work closed or replaced *)
  Theorem failed_update_cleaned e unf i (st : State) st' x :
    zin i unf = false -> UWE e i st = (st', Err x) -> zmem i (works (UPD_ONE e unf st i)) = false.
  Proof.
    intros Hu E. unfold update_selector_one. rewrite Hu, E.
    rewrite cleanup_works, zmem_zdel, Z.eqb_refl. reflexivity.
  Qed.

  (* E7: initialize raising *)
  Theorem failed_init_cleaned e i w (st : State) x :
    snd (w_initialize w (ev_io e i)) = Err x -> zmem i (works (DO_WORK e i w st)) = false.
  Proof.
    intros E. unfold do_work. destruct (w_initialize w (ev_io e i)) as [w' r]. cbn [snd] in E. subst r.
    rewrite cleanup_works, zmem_zdel, Z.eqb_refl. reflexivity.
  Qed.

  (* ---------------------------------------------------------------- received handles are closed exactly once *)
  Fixpoint balance (i : fd) (l : list osop) : Z :=
    match l with
    | [] => 0
    | OsDup j :: t => (if (j =? i)%Z then 1 else 0) + balance i t
    | OsClose j :: t => (if (j =? i)%Z then -1 else 0) + balance i t
    end%Z.

  Lemma balance_app i a b : balance i (a ++ b) = (balance i a + balance i b)%Z.
  Proof. induction a as [|[j|j] t IH]; cbn [balance app]; [reflexivity| |]; rewrite IH; lia. Qed.

  (* remote executor: a received handle is open (dup'ed, not yet closed) iff its work is live;
     local executor: the executor itself never touches descriptors *)
  Definition hb (st : State) : Prop :=
    forall i, balance i (oslog st) =
              match wq with Some _ => if zmem i (works st) then 1%Z else 0%Z | None => 0%Z end.

  Definition same_hw (st st' : State) : Prop :=
    (forall j, zmem j (works st') = zmem j (works st)) /\ oslog st' = oslog st.

  Lemma hb_same_hw st st' : same_hw st st' -> hb st -> hb st'.
  Proof. intros [Hw Ho] H i. rewrite Ho, Hw. apply H. Qed.
  Lemma same_hw_refl st : same_hw st st.
  Proof. split; [intros; reflexivity|reflexivity]. Qed.
  Lemma same_hw_trans a b c : same_hw a b -> same_hw b c -> same_hw a c.
  Proof. intros [A1 A2] [B1 B2]. split; [intros j; rewrite B1; apply A1|congruence]. Qed.

  Lemma cleanup_hb e i (st : State) : hb st -> hb (CLEANUP e i st).
  Proof.
    intros H j. rewrite cleanup_oslog, cleanup_works, zmem_zdel. specialize (H j).
    destruct wq as [q|]; [|destruct (zget i (works st)); exact H].
    destruct (zget i (works st)) as [w|] eqn:Ew.
    - rewrite balance_app. cbn [balance]. rewrite H. rewrite (Z.eqb_sym i j).
      destruct (j =? i)%Z eqn:E; cbn [negb andb].
      + apply Z.eqb_eq in E; subst. rewrite (zmem_some _ _ _ Ew). lia.
      + destruct (zmem j (works st)); lia.
    - rewrite H. destruct (j =? i)%Z eqn:E; cbn [negb andb]; [|reflexivity].
      apply Z.eqb_eq in E; subst. unfold zmem. rewrite Ew. reflexivity.
  Qed.

  Lemma set_works_existing_hw (st : State) i w :
    zmem i (works st) = true -> same_hw st (set_works st (zset i w (works st))).
  Proof.
    intros Hi. split; [|reflexivity]. intros j. cbn [works set_works]. rewrite zmem_zset.
    destruct (j =? i)%Z eqn:E; [|reflexivity]. apply Z.eqb_eq in E; subst; symmetry; exact Hi.
  Qed.

  Lemma same_core_hw (st st' : State) : same_core W st st' -> same_hw st st'.
  Proof. intros (A1&_&_&_&_&A6). split; [intros j; rewrite A1; reflexivity|exact A6]. Qed.

  Lemma uwe_loop_hw e i evs : forall (st : State) st' r, UWE_LOOP e i st evs = (st', r) -> same_hw st st'.
  Proof.
    induction evs as [|fm t IH]; intros st st' r; cbn [uwe_loop]; [intros X; inversion X; subst; apply same_hw_refl|].
    destruct (uwe_one W IO e i st fm) as [st1 r1] eqn:E1.
    assert (H1 : same_hw st st1).
    { apply same_core_hw. revert E1. unfold uwe_one. destruct fm as [f m].
      change (if zmem i (registered st) then st else set_registered st (zset i [] (registered st))) with (ensure_reg W i st).
      pose proof (ensure_core W i st) as Hc. set (st0 := ensure_reg W i st) in *. clearbody st0.
      destruct (zget f (regs_of W i st0)).
      - destruct (m =? m0); [intros X; inversion X; subst; exact Hc|].
        destruct (sel_modify (ev_kfail e) (sel st0) f m i) as [sm' rr]. destruct rr; intros X; inversion X; subst;
          (eapply same_core_trans; [exact Hc|repeat split]).
      - destruct (f =? -1)%Z; [intros X; inversion X; subst; exact Hc|].
        destruct (sel_register (ev_kfail e) (sel st0) f m i) as [sm'|x].
        + intros X; inversion X; subst. eapply same_core_trans; [exact Hc|repeat split].
        + destruct x; intros X; inversion X; subst; exact Hc. }
    destruct r1; [intros X; eapply same_hw_trans; [exact H1|eapply IH; exact X]|intros X; inversion X; subst; exact H1].
  Qed.

  Lemma update_work_events_hw e i (st : State) st' r : UWE e i st = (st', r) -> same_hw st st'.
  Proof.
    unfold update_work_events. destruct (zget i (works st)) as [w|] eqn:Ew; [|intros X; inversion X; subst; apply same_hw_refl].
    destruct (w_get_events w (ev_io e i)) as [w' rg].
    pose proof (set_works_existing_hw st i w' (zmem_some _ _ _ Ew)) as H1.
    destruct rg; [intros X; eapply same_hw_trans; [exact H1|eapply uwe_loop_hw; exact X]|intros X; inversion X; subst; exact H1].
  Qed.

  Lemma update_selector_one_hb e unf (st : State) i : hb st -> hb (UPD_ONE e unf st i).
  Proof.
    intros H. unfold update_selector_one. destruct (zin i unf); [exact H|].
    destruct (UWE e i st) as [st' r] eqn:E. pose proof (hb_same_hw _ _ (update_work_events_hw e i st st' r E) H) as H1.
    destruct r; [exact H1|apply cleanup_hb; exact H1].
  Qed.

  Lemma update_selector_hb e (st : State) : hb st -> hb (UPD e st).
  Proof.
    unfold update_selector. generalize (map t_work (unfinished st)) as unf. generalize (zkeys (works st)) as l.
    intros l unf. revert st. induction l as [|i t IH]; intros st H; cbn [fold_left]; [exact H|].
    apply IH, update_selector_one_hb, H.
  Qed.

  Lemma do_work_hb e i w (st : State) : zmem i (works st) = false -> hb st -> hb (DO_WORK e i w st).
  Proof.
    intros Hi H. unfold do_work.
    set (st0 := match wq with Some _ => set_oslog st (oslog st ++ [OsDup i]) | None => st end).
    set (st1 := set_works st0 (zset i w (works st0))).
    assert (H1 : hb st1).
    { intros j. subst st1 st0. specialize (H j). destruct wq as [q|]; cbn [oslog works set_works set_oslog].
      - rewrite balance_app, H, zmem_zset. cbn [balance]. rewrite (Z.eqb_sym i j).
        destruct (j =? i)%Z eqn:E; cbn [orb]; [apply Z.eqb_eq in E; subst; rewrite Hi; lia|destruct (zmem j (works st)); lia].
      - exact H. }
    assert (Hi1 : zmem i (works st1) = true) by (subst st1; cbn [works set_works]; rewrite zmem_zset, Z.eqb_refl; reflexivity).
    clearbody st1. destruct (w_initialize w (ev_io e i)) as [w' r].
    pose proof (hb_same_hw _ _ (set_works_existing_hw st1 i w' Hi1) H1) as H2.
    destruct r; [|apply cleanup_hb; exact H2].
    intros j. cbn [oslog works set_total]. apply H2.
  Qed.

  Lemma run_task_hw e (st : State) t st' td : RUN_TASK e st t = (st', td) -> same_hw st st'.
  Proof.
    unfold run_task. destruct (zget (t_work t) (works st)) as [w|] eqn:Ew.
    - destruct (w_handle_events w (t_r t) (t_w t) (ev_io e (t_work t))) as [w' r]. intros X; inversion X; subst.
      apply set_works_existing_hw. eapply zmem_some; exact Ew.
    - destruct (last_gone W (t_work t) (gone st)) as [w|]; [|intros X; inversion X; subst; apply same_hw_refl].
      destruct (w_handle_events w (t_r t) (t_w t) (ev_io e (t_work t))) as [w' r]. intros X; inversion X; subst.
      split; [intros; reflexivity|reflexivity].
  Qed.

  Lemma run_tasks_hw e ts : forall (st : State) st' res, RUN_TASKS e st ts = (st', res) -> same_hw st st'.
  Proof.
    induction ts as [|t rest IH]; intros st st' res; cbn [run_tasks]; [intros X; inversion X; subst; apply same_hw_refl|].
    destruct (RUN_TASK e st t) as [st1 td] eqn:E1. destruct (RUN_TASKS e st1 rest) as [st2 l] eqn:E2.
    intros X; inversion X; subst. eapply same_hw_trans; [eapply run_task_hw; exact E1|eapply IH; exact E2].
  Qed.

  Lemma cleanup_finished_hb e res : forall (st : State), hb st -> hb (CLEANUP_FIN e st res).
  Proof.
    unfold cleanup_finished. induction res as [|[i td] t IH]; intros st H; cbn [fold_left fst snd]; [exact H|].
    apply IH. destruct td; [apply cleanup_hb; exact H|exact H].
  Qed.

  Lemma inactive_scan_hw e ids : forall (st : State) st' l, SCAN e st ids = (st', l) -> same_hw st st'.
  Proof.
    induction ids as [|i t IH]; intros st st' l; cbn [inactive_scan]; [intros X; inversion X; subst; apply same_hw_refl|].
    destruct (zget i (works st)) as [w|] eqn:Ew; [|apply IH].
    destruct (w_is_inactive w (ev_clock e) (ev_io e i)) as [w' r].
    destruct (SCAN e (set_works st (zset i w' (works st))) t) as [st2 l2] eqn:E2.
    intros X; inversion X; subst. eapply same_hw_trans; [apply set_works_existing_hw; eapply zmem_some; exact Ew|eapply IH; exact E2].
  Qed.

  Lemma cleanup_inactive_hb e (st : State) : hb st -> hb (CLEANUP_INACTIVE e st).
  Proof.
    intros H. unfold cleanup_inactive. destruct (SCAN e st (zkeys (works st))) as [st' l] eqn:E.
    pose proof (hb_same_hw _ _ (inactive_scan_hw e _ st st' l E) H) as H1. clear E H.
    revert st' H1. induction l as [|i t IH]; intros st' H1; cbn [fold_left]; [exact H1|]. apply IH, cleanup_hb, H1.
  Qed.

  Lemma loop_body_hb e (st : State) st' s :
    INV None st -> env_ok W IO w_get_events w_shutdown wq e st -> hb st -> BODY e st = (st', s) -> hb st'.
  Proof.
    intros Hinv [Hk Hf] H. unfold loop_body, run_once.
    pose proof (update_selector_hb e st H) as HU.
    destruct (update_selector_inv W IO w_get_events w_shutdown wq e st Hinv) as [HinvU _].
    destruct (REST e (UPD e st)) as [st1 r] eqn:E1.
    assert (H1 : hb st1).
    { revert E1. unfold run_once_rest.
      destruct (selected_events W IO wq e (UPD e st)) as [[wbi nwa]|]; [|intros X; inversion X; subst; exact HU].
      destruct (if nwa then RECEIVE e (UPD e st) else (UPD e st, false)) as [s1 td] eqn:Er.
      assert (Hs1 : hb s1).
      { destruct nwa; [|inversion Er; subst; exact HU]. revert Er. unfold receive_from_work_queue.
        unfold arrival_fresh in Hf. destruct (ev_arrival e) as [| |i w]; intros X; inversion X; subst; try exact HU.
        apply do_work_hb; [apply Hf|exact HU]. }
      destruct td; [intros X; inversion X; subst; exact Hs1|].
      destruct wbi as [|p wbi']; [intros X; inversion X; subst; exact Hs1|].
      destruct (create_tasks W s1 (p :: wbi')) as [ts|]; [|intros X; inversion X; subst; exact Hs1].
      unfold wait_for_tasks.
      match goal with |- context [RUN_TASKS e ?s ?l] => destruct (RUN_TASKS e s l) as [s4 res] eqn:E4 end.
      intros X; inversion X; subst. apply cleanup_finished_hb.
      eapply hb_same_hw; [eapply run_tasks_hw; exact E4|]. intros j. cbn [oslog works set_unfinished]. apply Hs1. }
    destruct r as [b|x]; [|intros X; inversion X; subst; exact H1].
    destruct b; [intros X; inversion X; subst; exact H1|].
    destruct (tick_limit <=? tick st1).
    - destruct (ev_running_set e); intros X; inversion X; subst.
      + apply cleanup_inactive_hb; exact H1.
      + intros j. cbn [oslog works set_tick]. apply (cleanup_inactive_hb e st1 H1).
    - intros X; inversion X; subst. intros j. cbn [oslog works set_tick]. apply H1.
  Qed.

  Lemma hb_init : hb (init_state W wq).
  Proof. intros i. unfold init_state. cbn [oslog works balance zmem zget]. destruct wq; reflexivity. Qed.

  Theorem handles_closed_exactly_once evs : forall (st : State) st' s,
    INV None st -> hb st -> SCHED_OK evs st -> RUN evs st = (st', s) -> hb st'.
  Proof.
    induction evs as [|e t IH]; intros st st' s Hinv H Hs; cbn [run_forever]; [intros X; inversion X; subst; exact H|].
    cbn [sched_ok] in Hs. destruct Hs as [He Ht].
    destruct (BODY e st) as [st1 s1] eqn:E1.
    pose proof (loop_body_hb e st st1 s1 Hinv He H E1) as H1.
    destruct (loop_body_inv W IO w_initialize w_get_events w_handle_events w_shutdown w_is_inactive wq tick_limit e st st1 s1 Hinv He E1) as [Hinv1 _].
    destruct s1; [apply IH; assumption| |]; intros X; inversion X; subst; exact H1.
  Qed.

  Theorem handles_closed_exactly_once_run evs st' s :
    SCHED_OK evs (init_state W wq) -> RUN evs (init_state W wq) = (st', s) -> hb st'.
  Proof. intros Hs E. exact (handles_closed_exactly_once evs _ st' s (inv_init W wq) hb_init Hs E). Qed.

  (* a history — any history, repeated any number of times — that ends with no live work ends with the
     bookkeeping of a fresh executor and every received handle closed *)
  Theorem no_growth_exec n evs st' s :
    SCHED_OK (concat (repeat evs n)) (init_state W wq) ->
    RUN (concat (repeat evs n)) (init_state W wq) = (st', s) ->
    works st' = [] ->
    registered st' = [] /\ (forall f, zget f (sel st') = zget f (sel (init_state W wq))) /\
    (forall i, balance i (oslog st') = 0%Z).
  Proof.
    intros Hs E Hw.
    pose proof (reachable_inv W IO w_initialize w_get_events w_handle_events w_shutdown w_is_inactive wq tick_limit _ st' s Hs E) as Hinv.
    destruct (quiescent_is_initial st' Hinv Hw) as [Hr Hsel].
    split; [exact Hr|]. split; [exact Hsel|].
    intros i. rewrite (handles_closed_exactly_once _ _ st' s (inv_init W wq) hb_init Hs E i), Hw.
    destruct wq; reflexivity.
  Qed.
End ExecC10.
