(* Exec/FdTableFacts.v — lemmas for C10 (and C17_remote_fd):
   A. descriptor tables: histories that give back what they took restore the table, any number of times;
   B. acceptor -> remote executor hand-off;
   C. HttpProtocolHandler.shutdown closes every socket opened on the connection's behalf;
   D. executor bookkeeping after _cleanup, at quiescence, received handles closed exactly once. *)
From PM Require Import Lib.Bytes Lib.ZDict Lib.ZDictFacts Exec.Threadless Exec.ThreadlessFacts Exec.FdTable.
From Coq Require Import ZArith Lia.

(* ------------------------------------------------------------------ A. tables *)
Lemma table_eq_refl t : table_eq t t.
Proof. intros f; reflexivity. Qed.
Lemma table_eq_sym a b : table_eq a b -> table_eq b a.
Proof. intros H f; symmetry; apply H. Qed.
Lemma table_eq_trans a b c : table_eq a b -> table_eq b c -> table_eq a c.
Proof. intros H1 H2 f. rewrite H1; apply H2. Qed.

Lemma table_eq_zmem a b f : table_eq a b -> zmem f a = zmem f b.
Proof. intros H. unfold zmem. rewrite (H f). reflexivity. Qed.
Lemma table_eq_zset a b f c : table_eq a b -> table_eq (zset f c a) (zset f c b).
Proof. intros H g. rewrite !zget_zset. destruct (g =? f)%Z; [reflexivity|apply H]. Qed.
Lemma table_eq_zdel a b f : table_eq a b -> table_eq (zdel f a) (zdel f b).
Proof. intros H g. rewrite !zget_zdel. destruct (g =? f)%Z; [reflexivity|apply H]. Qed.

Lemma apply_op_compat a b o a' :
  table_eq a b -> apply_op a o = Ok a' -> exists b', apply_op b o = Ok b' /\ table_eq a' b'.
Proof.
  intros H. destruct o as [f c|f c|f g|f]; cbn [apply_op].
  - rewrite <- (table_eq_zmem a b f H). destruct ((f <? 0)%Z || zmem f a); [discriminate|].
    intros X; inversion X; subst. eexists; split; [reflexivity|apply table_eq_zset; exact H].
  - rewrite <- (table_eq_zmem a b f H). destruct ((f <? 0)%Z || zmem f a); [discriminate|].
    intros X; inversion X; subst. eexists; split; [reflexivity|apply table_eq_zset; exact H].
  - rewrite <- (H f). destruct (zget f a) as [c|]; [|discriminate].
    rewrite <- (table_eq_zmem a b g H). destruct ((g <? 0)%Z || zmem g a); [discriminate|].
    intros X; inversion X; subst. eexists; split; [reflexivity|apply table_eq_zset; exact H].
  - rewrite <- (table_eq_zmem a b f H). destruct (zmem f a); [|discriminate].
    intros X; inversion X; subst. eexists; split; [reflexivity|apply table_eq_zdel; exact H].
Qed.

Lemma apply_ops_compat ops : forall a b a',
  table_eq a b -> apply_ops a ops = Ok a' -> exists b', apply_ops b ops = Ok b' /\ table_eq a' b'.
Proof.
  induction ops as [|o rest IH]; intros a b a' H; cbn [apply_ops].
  - intros X; inversion X; subst. eexists; split; [reflexivity|exact H].
  - destruct (apply_op a o) as [a1|] eqn:E; [|discriminate]. intros X.
    destruct (apply_op_compat a b o a1 H E) as (b1 & E1 & H1). rewrite E1. eapply IH; eassumption.
Qed.

Lemma apply_ops_app x : forall t y,
  apply_ops t (x ++ y) = match apply_ops t x with Ok t' => apply_ops t' y | Err e => Err e end.
Proof.
  induction x as [|o rest IH]; intros t y; cbn [apply_ops app]; [reflexivity|].
  destruct (apply_op t o); [apply IH|reflexivity].
Qed.

(* repeating a history that restores the table restores the table: descriptors do not grow *)
Theorem no_growth t ops : restores t ops -> forall n, restores t (repeat_ops n ops).
Proof.
  intros (t1 & E1 & H1) n. induction n as [|k IH]; cbn [repeat_ops].
  - exists t. split; [reflexivity|apply table_eq_refl].
  - destruct IH as (tk & Ek & Hk). rewrite apply_ops_app, E1.
    destruct (apply_ops_compat _ t t1 tk (table_eq_sym _ _ (table_eq_sym _ _ (table_eq_refl t))) Ek) as (u & Eu & Hu).
    (* run the remaining repetitions from t1, which equals t as a map *)
    destruct (apply_ops_compat (repeat_ops k ops) t t1 tk (table_eq_sym _ _ H1) Ek) as (u1 & Eu1 & Hu1).
    exists u1. split; [exact Eu1|].
    eapply table_eq_trans; [apply table_eq_sym; exact Hu1|exact Hk].
Qed.

Lemma zget_In {V} f (c : V) (d : zdict V) : zget f d = Some c -> In (f, c) d.
Proof.
  induction d as [|[k v] t IH]; cbn [zget]; [discriminate|].
  destruct (f =? k)%Z eqn:E; [intros X; inversion X; subst; apply Z.eqb_eq in E; subst; left; reflexivity|].
  intros X; right; apply IH; exact X.
Qed.
Lemma In_zget {V} f (c : V) (d : zdict V) : In (f, c) d -> zget f d <> None.
Proof.
  intros H. apply zkeys_zget. apply in_map_iff. exists (f, c). split; [reflexivity|exact H].
Qed.

Lemma table_sub_spec a b : table_sub a b = true -> forall f c, zget f a = Some c -> zget f b = Some c.
Proof.
  unfold table_sub. rewrite forallb_forall. intros H f c Hf. specialize (H (f, c) (zget_In _ _ _ Hf)). cbn [fst snd] in H.
  destruct (zget f b) as [c'|]; [|discriminate]. apply N.eqb_eq in H; subst; reflexivity.
Qed.

Lemma table_eqb_sound a b : table_eqb a b = true -> table_eq a b.
Proof.
  unfold table_eqb. intros H. apply andb_true_iff in H as [H1 H2].
  intros f. destruct (zget f a) as [c|] eqn:Ea.
  - symmetry. eapply table_sub_spec; eassumption.
  - destruct (zget f b) as [c|] eqn:Eb; [|reflexivity].
    rewrite (table_sub_spec b a H2 f c Eb) in Ea. discriminate.
Qed.

Theorem restoresb_sound t ops : restoresb t ops = true -> restores t ops.
Proof.
  unfold restoresb, restores. destruct (apply_ops t ops) as [t'|]; [|discriminate].
  intros H. exists t'. split; [reflexivity|apply table_eqb_sound; exact H].
Qed.

(* ------------------------------------------------------------------ B. hand-off to a remote executor *)
Definition holds (c : ofd) (p : two_procs) : Prop :=
  (exists f, zget f (acceptor p) = Some c) \/ In c (inflight p) \/ (exists f, zget f (worker p) = Some c).

Theorem handoff_ok a h s c ta tw :
  zget a ta = Some c -> (forall f, zget f ta = Some c -> f = a) ->           (* the accepted socket, the acceptor's only reference *)
  (forall f, zget f tw <> Some c) ->                                         (* unknown to the worker *)
  zmem h tw = false -> zmem s tw = false -> h <> s -> (0 <= h)%Z -> (0 <= s)%Z ->   (* kernel: fresh numbers *)
  let p0 := {| acceptor := ta; inflight := []; worker := tw |} in
  exists p1 p2 p3 p4,
    apply_hop p0 (ASendHandle a) = Ok p1 /\ apply_hop p1 (AClose a) = Ok p2 /\
    apply_hop p2 (WRecvHandle h) = Ok p3 /\ apply_hop p3 (WDup h s) = Ok p4 /\
    (* the connection stays open all along *)
    holds c p1 /\ holds c p2 /\ holds c p3 /\ holds c p4 /\
    (* the acceptor keeps none *)
    (forall f, zget f (acceptor p4) <> Some c) /\ inflight p4 = [] /\
    (forall f, f <> a -> zget f (acceptor p4) = zget f ta) /\
    (* the executor holds exactly the received handle and its dup, both of the SAME open connection *)
    zget h (worker p4) = Some c /\ zget s (worker p4) = Some c /\
    (forall f, zget f (worker p4) = Some c -> f = h \/ f = s) /\
    (forall f, f <> h -> f <> s -> zget f (worker p4) = zget f tw).
Proof.
  intros Ha Honly Hw Hh Hs Hhs Hh0 Hs0 p0.
  assert (Hma : zmem a ta = true) by (eapply zmem_some; exact Ha).
  eexists _, _, _, _. cbn [apply_hop p0 acceptor inflight worker apply_op app].
  rewrite Ha. split; [reflexivity|]. rewrite Hma. split; [reflexivity|].
  replace ((h <? 0)%Z) with false by (symmetry; apply Z.ltb_ge; exact Hh0). rewrite Hh. cbn [orb].
  split; [reflexivity|]. cbn [acceptor inflight worker].
  rewrite zget_zset_same.
  replace ((s <? 0)%Z) with false by (symmetry; apply Z.ltb_ge; exact Hs0).
  assert (Hs' : zmem s (zset h c tw) = false).
  { rewrite zmem_zset, Hs. apply Z.eqb_neq in Hhs. rewrite Z.eqb_sym, Hhs. reflexivity. }
  rewrite Hs'. cbn [orb]. split; [reflexivity|]. cbn [acceptor inflight worker].
  split; [left; exists a; exact Ha|].
  split; [right; left; left; reflexivity|].
  split; [right; right; exists h; apply zget_zset_same|].
  split; [right; right; exists s; apply zget_zset_same|].
  split.
  { intros f Hf. rewrite zget_zdel in Hf. destruct (f =? a)%Z eqn:E; [discriminate|].
    apply Z.eqb_neq in E. apply E. apply Honly; exact Hf. }
  split; [reflexivity|].
  split; [intros f Hf; apply zget_zdel_other; exact Hf|].
  split; [rewrite zget_zset_other by exact Hhs; apply zget_zset_same|].
  split; [apply zget_zset_same|].
  split.
  { intros f Hf. rewrite !zget_zset in Hf. destruct (f =? s)%Z eqn:E1; [right; apply Z.eqb_eq; exact E1|].
    destruct (f =? h)%Z eqn:E2; [left; apply Z.eqb_eq; exact E2|]. exfalso. eapply Hw; exact Hf. }
  intros f Hfh Hfs. rewrite !zget_zset_other by assumption. reflexivity.
Qed.

(* ... and when the work is over: shutdown() closes the dup, _cleanup closes the received handle,
   nothing refers to the connection any more (the kernel can finish it) *)
Theorem release_after_handoff h s c tw ta :
  zget h tw = Some c -> zget s tw = Some c -> h <> s -> (forall f, zget f tw = Some c -> f = h \/ f = s) ->
  (forall f, zget f ta <> Some c) ->
  let p0 := {| acceptor := ta; inflight := []; worker := tw |} in
  exists p2, apply_hops p0 (worker_release h s) = Ok p2 /\ ~ holds c p2 /\
             (forall f, f <> h -> f <> s -> zget f (worker p2) = zget f tw).
Proof.
  intros Hh Hs Hhs Honly Hta p0. unfold worker_release. cbn [apply_hops apply_hop apply_op p0 acceptor inflight worker].
  rewrite (zmem_some _ _ _ Hs).
  assert (Hm : zmem h (zdel s tw) = true).
  { rewrite zmem_zdel. apply Z.eqb_neq in Hhs. rewrite Hhs. cbn. eapply zmem_some; exact Hh. }
  rewrite Hm. eexists. split; [reflexivity|]. cbn [acceptor inflight worker]. split.
  - intros [[f Hf]|[[]|[f Hf]]]; [eapply Hta; exact Hf|].
    rewrite !zget_zdel in Hf. destruct (f =? h)%Z eqn:E1; [discriminate|]. destruct (f =? s)%Z eqn:E2; [discriminate|].
    apply Z.eqb_neq in E1, E2. destruct (Honly f Hf); contradiction.
  - intros f Hfh Hfs. rewrite !zget_zdel_other by assumption. reflexivity.
Qed.

(* ------------------------------------------------------------------ C. HttpProtocolHandler.shutdown *)
(* the threadless case (no flush) with well-behaved access-log hooks: every upstream socket the plugin
   holds open is closed, then the client socket; each exactly once; nothing else *)
Theorem release_closes_everything env client p :
  r_flush env = None -> r_hook env = None ->
  fst (handler_shutdown env client p) = map FClose (open_upstreams p) ++ [FClose client].
Proof.
  intros Hf Hh. unfold handler_shutdown. rewrite Hf.
  destruct p as [|u|r]; cbn [open_upstreams map app].
  - reflexivity.
  - unfold proxy_close. rewrite Hh. destruct u as [| |f closed]; cbn [fst open_upstreams map app]; try reflexivity.
    destruct closed; reflexivity.
  - unfold web_close. rewrite Hh. destruct r as [u|]; [|reflexivity].
    destruct u as [| |f closed]; cbn [reverse_close fst open_upstreams map app]; try reflexivity.
    destruct closed; reflexivity.
Qed.

(* a raising hook (or, in threaded mode, a flush failing with an OSError other than BrokenPipeError)
   makes shutdown skip the plugin's close handler: the upstream socket stays open *)
Theorem release_hook_raises_leaks env client f e :
  r_flush env = None -> r_hook env = Some e ->
  fst (handler_shutdown env client (PProxy (USock f false))) = [FClose client].
Proof.
  intros Hf Hh. unfold handler_shutdown, proxy_close. rewrite Hf, Hh. destruct (is_oserror e); reflexivity.
Qed.

Theorem release_flush_oserror_leaks env client f k :
  r_flush env = Some (OSError k) ->
  fst (handler_shutdown env client (PProxy (USock f false))) = [FClose client].
Proof. intros Hf. unfold handler_shutdown. rewrite Hf. reflexivity. Qed.

(* the client socket is closed whatever happens *)
Theorem client_always_closed env client p :
  exists pre, fst (handler_shutdown env client p) = pre ++ [FClose client].
Proof.
  unfold handler_shutdown. destruct (r_flush env) as [e|].
  - destruct (is_oserror e); exists []; reflexivity.
  - destruct (match p with PNone => _ | PProxy u => _ | PWeb r => _ end) as [ops esc].
    destruct esc as [|e|]; [|destruct (is_oserror e)|]; eexists; reflexivity.
Qed.

(* the whole life of a connection in a worker gives back every descriptor: local or remote executor,
   with or without an upstream socket *)
Theorem conn_history_restores remote h s cli env t (up : option (fd * ofd)) p :
  r_flush env = None -> r_hook env = None ->
  zmem h t = false -> zmem s t = false -> h <> s -> (0 <= h)%Z -> (0 <= s)%Z ->
  match up with
  | None => open_upstreams p = []
  | Some (f, c) => open_upstreams p = [f] /\ zmem f t = false /\ f <> h /\ f <> s /\ (0 <= f)%Z
  end ->
  restores t (conn_history remote h s cli
                (match up with Some (f, c) => [FOpen f c] | None => [] end) env p).
Proof.
  intros Hf Hk Hh Hs Hhs Hh0 Hs0 Hup. unfold conn_history, restores.
  rewrite (release_closes_everything env s p Hf Hk).
  assert (Lh : (h <? 0)%Z = false) by (apply Z.ltb_ge; exact Hh0).
  assert (Ls : (s <? 0)%Z = false) by (apply Z.ltb_ge; exact Hs0).
  destruct up as [[f c]|].
  - destruct Hup as (Ho & Hft & Hfh & Hfs & Hf0). rewrite Ho.
    assert (Lf : (f <? 0)%Z = false) by (apply Z.ltb_ge; exact Hf0).
    destruct remote; cbn [app map apply_ops apply_op].
    + rewrite Lh, Hh. cbn [orb]. rewrite zget_zset_same, Ls.
      rewrite zmem_zset, Hs. replace (s =? h)%Z with false by (symmetry; apply Z.eqb_neq; congruence). cbn [orb].
      rewrite Lf, !zmem_zset, Hft.
      replace (f =? s)%Z with false by (symmetry; apply Z.eqb_neq; congruence).
      replace (f =? h)%Z with false by (symmetry; apply Z.eqb_neq; congruence). cbn [orb].
      rewrite zmem_zset, Z.eqb_refl. cbn [orb].
      rewrite zmem_zdel, !zmem_zset, Z.eqb_refl.
      replace (s =? f)%Z with false by (symmetry; apply Z.eqb_neq; congruence). cbn [negb andb orb].
      rewrite !zmem_zdel, !zmem_zset, Z.eqb_refl.
      replace (h =? s)%Z with false by (symmetry; apply Z.eqb_neq; congruence).
      replace (h =? f)%Z with false by (symmetry; apply Z.eqb_neq; congruence). cbn [negb andb orb].
      eexists. split; [reflexivity|]. intros g. rewrite !zget_zdel, !zget_zset.
      destruct (g =? h)%Z eqn:E1; [apply Z.eqb_eq in E1; subst; symmetry; apply zmem_false; exact Hh|].
      destruct (g =? s)%Z eqn:E2; [apply Z.eqb_eq in E2; subst; symmetry; apply zmem_false; exact Hs|].
      destruct (g =? f)%Z eqn:E3; [apply Z.eqb_eq in E3; subst; symmetry; apply zmem_false; exact Hft|]. reflexivity.
    + rewrite Ls, Hs. cbn [orb]. rewrite Lf, zmem_zset, Hft.
      replace (f =? s)%Z with false by (symmetry; apply Z.eqb_neq; congruence). cbn [orb].
      rewrite zmem_zset, Z.eqb_refl. cbn [orb].
      rewrite zmem_zdel, !zmem_zset, Z.eqb_refl.
      replace (s =? f)%Z with false by (symmetry; apply Z.eqb_neq; congruence). cbn [negb andb orb].
      eexists. split; [reflexivity|]. intros g. rewrite !zget_zdel, !zget_zset.
      destruct (g =? s)%Z eqn:E2; [apply Z.eqb_eq in E2; subst; symmetry; apply zmem_false; exact Hs|].
      destruct (g =? f)%Z eqn:E3; [apply Z.eqb_eq in E3; subst; symmetry; apply zmem_false; exact Hft|]. reflexivity.
  - rewrite Hup. destruct remote; cbn [app map apply_ops apply_op].
    + rewrite Lh, Hh. cbn [orb]. rewrite zget_zset_same, Ls.
      rewrite zmem_zset, Hs. replace (s =? h)%Z with false by (symmetry; apply Z.eqb_neq; congruence). cbn [orb].
      rewrite zmem_zset, Z.eqb_refl. cbn [orb].
      rewrite zmem_zdel, !zmem_zset, Z.eqb_refl.
      replace (h =? s)%Z with false by (symmetry; apply Z.eqb_neq; congruence). cbn [negb andb orb].
      eexists. split; [reflexivity|]. intros g. rewrite !zget_zdel, !zget_zset.
      destruct (g =? h)%Z eqn:E1; [apply Z.eqb_eq in E1; subst; symmetry; apply zmem_false; exact Hh|].
      destruct (g =? s)%Z eqn:E2; [apply Z.eqb_eq in E2; subst; symmetry; apply zmem_false; exact Hs|]. reflexivity.
    + rewrite Ls, Hs. cbn [orb]. rewrite zmem_zset, Z.eqb_refl. cbn [orb].
      eexists. split; [reflexivity|]. intros g. rewrite !zget_zdel, !zget_zset.
      destruct (g =? s)%Z eqn:E2; [apply Z.eqb_eq in E2; subst; symmetry; apply zmem_false; exact Hs|]. reflexivity.
Qed.

(* AS FOUND, the reverse proxy replaces its upstream on every further request of a connection and forgets
   the previous socket: after two requests and the regular teardown one upstream descriptor is still open *)
Theorem reverse_replacement_leaks :
  let '(u, opens) := reverse_requests UNone [Some 8%Z; Some 9%Z] 100 in
  let ops := conn_history false 0%Z 7%Z 50 opens {| r_flush := None; r_hook := None; r_client_shutdown := None; r_up_shutdown := None |}
                          (PWeb (Some u)) in
  exists t', apply_ops [] ops = Ok t' /\ zget 8%Z t' = Some 100 /\ ~ restores [] ops.
Proof.
  cbn. eexists. split; [reflexivity|]. split; [reflexivity|].
  intros (t' & E & H). cbn in E. inversion E; subst. specialize (H 8%Z). cbn in H. discriminate.
Qed.
