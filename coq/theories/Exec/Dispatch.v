(* Exec/Dispatch.v — the acceptor -> remote worker dispatch protocol (definitions only).
   proxy/core/acceptor/acceptor.py  Acceptor._work  (threadless branch): which worker gets the connection;
   proxy/core/work/delegate.py      delegate_work_to_pool: what is written on the worker's pipe;
   proxy/core/work/fd/remote.py     RemoteFdExecutor.receive_from_work_queue: what the worker expects to read. *)
From PM Require Import Lib.Bytes Lib.ZDict Exec.Threadless.
From Coq Require Import ZArith.

(* index = (self._total + self.idd) % self.flags.num_workers *)
Definition worker_index (total idd num_workers : N) : N := (total + idd) mod num_workers.

(* what travels over a worker's pipe *)
Inductive msg :=
| MAddr (a : option N)      (* work_queue.send(addr): a pickled object (the peer address, possibly None) *)
| MHandle (f : fd).         (* send_handle(work_queue, conn.fileno(), worker_pid) *)

(* delegate_work_to_pool, under work_lock: if not unix_socket_path: send(addr); send_handle(...); conn.close() *)
Definition delegate_msgs (unix : bool) (addr : option N) (f : fd) : list msg :=
  (if unix then [] else [MAddr addr]) ++ [MHandle f].

(* receive_from_work_queue: addr = None; if not flags.unix_socket_path: addr = work_queue.recv();
   fileno = recv_handle(work_queue); self.work(fileno, addr, None) *)
Definition receive_one (unix : bool) (q : list msg) : result (fd * option N * list msg) :=
  let step2 (addr : option N) (q' : list msg) :=
    match q' with
    | MHandle f :: rest => Ok (f, addr, rest)
    | _ => Err (OSError 0)                    (* recv_handle on something that is not a passed descriptor *)
    end in
  if unix then step2 None q
  else match q with
       | MAddr a :: rest => step2 a rest
       | _ => Err TypeError                   (* recv() on a descriptor message: not a pickled object *)
       end.

Fixpoint receive_all (unix : bool) (fuel : nat) (q : list msg) : result (list (fd * option N)) :=
  match q, fuel with
  | [], _ => Ok []
  | _, O => Err OutOfFuel
  | _, S k => match receive_one unix q with
              | Err x => Err x
              | Ok (f, a, rest) => match receive_all unix k rest with
                                   | Ok l => Ok ((f, a) :: l)
                                   | Err x => Err x
                                   end
              end
  end.

(* an acceptor dispatching a sequence of accepted connections to its num_workers pipes *)
Fixpoint nth_update {A} (n : nat) (f : A -> A) (l : list A) : option (list A) :=
  match l, n with
  | [], _ => None                                           (* executor_queues[index]: IndexError *)
  | x :: t, O => Some (f x :: t)
  | x :: t, S k => match nth_update k f t with Some t' => Some (x :: t') | None => None end
  end.

Fixpoint dispatch_all (unix : bool) (idd num_workers : N) (total : N) (conns : list (option N * fd))
         (pipes : list (list msg)) : result (list (list msg)) :=
  match conns with
  | [] => Ok pipes
  | (addr, f) :: rest =>
      if num_workers =? 0 then Err ValueError               (* modulo by zero *)
      else match nth_update (N.to_nat (worker_index total idd num_workers))
                            (fun q => q ++ delegate_msgs unix addr f) pipes with
           | None => Err IndexError
           | Some pipes' => dispatch_all unix idd num_workers (total + 1) rest pipes'
           end
  end.

(* what the worker ends up serving: the descriptor, and the address it was told *)
Definition told_addr (unix : bool) (addr : option N) : option N := if unix then None else addr.
