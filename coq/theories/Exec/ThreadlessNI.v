(* Exec/ThreadlessNI.v — non-interference of the repaired executor loop: what one work sees of a
   run shared with arbitrary other works is what it sees when it runs alone.
   Premises (all visible in the theorem):
   * [disciplined]: every work only ever names descriptors it owns (the assumption documented in
     _update_work_events: "Descriptors of interests returned by work must be unique");
   * [prompt]: tasks complete in the iteration that created them (true of every handler shipped
     with proxy.py: handle_events never yields to the loop); without it the joint run can reap a
     completed task of work i EARLIER than the alone run does (another work's readiness triggers
     asyncio.wait) — a timing difference, see notes/C05.md;
   * [sched_ok]: kernel premises of loop_survives (fresh arrival ids, sane work-queue readiness). *)
From PM Require Import Lib.Bytes Lib.ZDict Lib.ZDictFacts Exec.Threadless Exec.ThreadlessFacts.
From Coq Require Import ZArith Lia.

Section NI.
  Variable W : Type.
  Variable IO : Type.
  Variable w_initialize : W -> IO -> W * result unit.
  Variable w_get_events : W -> IO -> W * result sel_events.
  Variable w_handle_events : W -> list fd -> list fd -> IO -> W * result bool.
  Variable w_shutdown : W -> IO -> W * result unit.
  Variable w_is_inactive : W -> N -> IO -> W * result bool.
  Variable wq : option fd.
  Variable tick_limit : N.
  Variable owner : fd -> work_id.
  Variable good : work_id -> W -> Prop.

  Notation State := (state W).
  Notation Event := (event W IO).
  Notation CLEANUP := (cleanup W IO w_shutdown wq).
  Notation UWE_ONE := (uwe_one W IO).
  Notation UWE_LOOP := (uwe_loop W IO).
  Notation UWE := (update_work_events W IO w_get_events).
  Notation UPD_ONE := (update_selector_one W IO w_get_events w_shutdown wq).
  Notation UPD := (update_selector W IO w_get_events w_shutdown wq).
  Notation DO_WORK := (do_work W IO w_initialize w_shutdown wq).
  Notation RECEIVE := (receive_from_work_queue W IO w_initialize w_shutdown wq).
  Notation RUN_TASK := (run_task W IO w_handle_events).
  Notation RUN_TASKS := (run_tasks W IO w_handle_events).
  Notation CLEANUP_FIN := (cleanup_finished W IO w_shutdown wq).
  Notation REST := (run_once_rest W IO w_initialize w_handle_events w_shutdown wq).
  Notation SCAN := (inactive_scan W IO w_is_inactive).
  Notation CLEANUP_INACTIVE := (cleanup_inactive W IO w_shutdown w_is_inactive wq).
  Notation BODY := (loop_body W IO w_initialize w_get_events w_handle_events w_shutdown w_is_inactive wq tick_limit).
  Notation RUN := (run_forever W IO w_initialize w_get_events w_handle_events w_shutdown w_is_inactive wq tick_limit).
  Notation INV := (inv W wq).

  (* every entry point keeps the work within its own descriptors *)
  Record disciplined : Prop := {
    d_init : forall i w io, good i w -> good i (fst (w_initialize w io));
    d_get : forall i w io, good i w ->
            good i (fst (w_get_events w io)) /\
            forall evs, snd (w_get_events w io) = Ok evs ->
                        forall f m, In (f, m) evs -> (0 <= f)%Z -> owner f = i;
    d_handle : forall i w r wr io, good i w -> good i (fst (w_handle_events w r wr io));
    d_inactive : forall i w c io, good i w -> good i (fst (w_is_inactive w c io))
  }.

  (* the schedule seen by work i alone: the other connections never arrive *)
  Definition restrict (i : work_id) (e : Event) : Event :=
    {| ev_kfail := ev_kfail e; ev_ready := ev_ready e;
       ev_arrival := match ev_arrival e with
                     | ANew j w => if (j =? i)%Z then ANew j w else ANone
                     | a => a
                     end;
       ev_fin := ev_fin e; ev_io := ev_io e; ev_clock := ev_clock e; ev_running_set := ev_running_set e |}.

  Definition gone_of (i : work_id) (g : list (work_id * W)) : list W :=
    map snd (filter (fun p => (fst p =? i)%Z) g).
  Definition os_of (i : work_id) (l : list osop) : list osop :=
    filter (fun o => match o with OsDup f | OsClose f => (f =? i)%Z end) l.

  Lemma gone_of_app i a b : gone_of i (a ++ b) = gone_of i a ++ gone_of i b.
  Proof. unfold gone_of. rewrite filter_app, map_app. reflexivity. Qed.
  Lemma os_of_app i a b : os_of i (a ++ b) = os_of i a ++ os_of i b.
  Proof. unfold os_of. apply filter_app. Qed.

  (* ---------------------------------------------------------------- what work i sees of a state *)
  Record sim (i : work_id) (S A : State) : Prop := {
    sim_work : zget i (works S) = zget i (works A);
    sim_reg : zget i (registered S) = zget i (registered A);
    sim_sel : forall f, owner f = i -> zget f (sel S) = zget f (sel A);
    sim_gone : gone_of i (gone S) = gone_of i (gone A);
    sim_os : os_of i (oslog S) = os_of i (oslog A);
    sim_tick : tick S = tick A;
    sim_unfS : unfinished S = [];
    sim_unfA : unfinished A = [];
    sim_only : forall j, j <> i -> zget j (works A) = None
  }.

  Lemma sim_regs i S A : sim i S A -> regs_of W i S = regs_of W i A.
  Proof. intros H. unfold regs_of. rewrite (sim_reg _ _ _ H). reflexivity. Qed.

  (* all live works are disciplined, and registrations are of owned descriptors *)
  Record own (st : State) : Prop := {
    own_good : forall j w, zget j (works st) = Some w -> good j w;
    own_regs : forall j f m, zget f (regs_of W j st) = Some m -> owner f = j
  }.

  (* ---------------------------------------------------------------- a step on behalf of another work j *)
  Record frame (j : work_id) (S S' : State) : Prop := {
    fr_works : forall k, k <> j -> zget k (works S') = zget k (works S);
    fr_reg : forall k, k <> j -> zget k (registered S') = zget k (registered S);
    fr_sel : forall f, owner f <> j -> zget f (sel S') = zget f (sel S);
    fr_gone : forall k, k <> j -> gone_of k (gone S') = gone_of k (gone S);
    fr_os : forall k, k <> j -> os_of k (oslog S') = os_of k (oslog S);
    fr_tick : tick S' = tick S;
    fr_unf : unfinished S' = unfinished S
  }.

  Lemma frame_refl j S : frame j S S.
  Proof. constructor; reflexivity. Qed.

  Lemma frame_trans j a b c : frame j a b -> frame j b c -> frame j a c.
  Proof.
    intros [A1 A2 A3 A4 A5 A6 A7] [B1 B2 B3 B4 B5 B6 B7]. constructor; intros; try congruence.
    - rewrite B1, A1; auto.
    - rewrite B2, A2; auto.
    - rewrite B3, A3; auto.
    - rewrite B4, A4; auto.
    - rewrite B5, A5; auto.
  Qed.

  Lemma sim_frame i j S S' A : j <> i -> frame j S S' -> sim i S A -> sim i S' A.
  Proof.
    intros Hji [F1 F2 F3 F4 F5 F6 F7] [S1 S2 S3 S4 S5 S6 S7 S8 S9].
    constructor; try assumption.
    - rewrite F1 by auto. exact S1.
    - rewrite F2 by auto. exact S2.
    - intros f Hf. rewrite F3 by congruence. apply S3; exact Hf.
    - rewrite F4 by auto. exact S4.
    - rewrite F5 by auto. exact S5.
    - congruence.
    - congruence.
  Qed.

  Lemma same_core_frame_parts (S S' : State) :
    same_core W S S' ->
    works S' = works S /\ gone S' = gone S /\ oslog S' = oslog S /\ tick S' = tick S /\ unfinished S' = unfinished S.
  Proof. intros (A1&A2&A3&A4&A5&A6). repeat split; assumption. Qed.

  (* ---------------------------------------------------------------- effect of one registration step *)
  Lemma uwe_one_effect e j (S : State) fm S' r :
    UWE_ONE e j S fm = (S', r) ->
    same_core W S S' /\
    (forall k, k <> j -> zget k (registered S') = zget k (registered S)) /\
    (forall g, g <> fst fm -> zget g (sel S') = zget g (sel S)) /\
    ((0 <= fst fm)%Z \/ sel S' = sel S) /\
    (forall g m, zget g (regs_of W j S') = Some m ->
                 (exists m', zget g (regs_of W j S) = Some m') \/ (g = fst fm /\ (0 <= g)%Z)).
  Proof.
    unfold uwe_one. destruct fm as [f m]. cbn [fst].
    change (if zmem j (registered S) then S else set_registered S (zset j [] (registered S))) with (ensure_reg W j S).
    pose proof (ensure_core W j S) as Hc0. pose proof (regs_of_ensure W j j S) as R0.
    assert (Hr0 : forall k, k <> j -> zget k (registered (ensure_reg W j S)) = zget k (registered S)).
    { intros k Hk. unfold ensure_reg. destruct (zmem j (registered S)); [reflexivity|].
      cbn [registered set_registered]. apply zget_zset_other; exact Hk. }
    assert (Hs0 : sel (ensure_reg W j S) = sel S) by (unfold ensure_reg; destruct (zmem j (registered S)); reflexivity).
    set (S0 := ensure_reg W j S) in *. clearbody S0.
    assert (Hbase : same_core W S S0 /\
      (forall k, k <> j -> zget k (registered S0) = zget k (registered S)) /\
      (forall g, g <> f -> zget g (sel S0) = zget g (sel S)) /\
      ((0 <= f)%Z \/ sel S0 = sel S) /\
      (forall g m0, zget g (regs_of W j S0) = Some m0 ->
                 (exists m', zget g (regs_of W j S) = Some m') \/ (g = f /\ (0 <= g)%Z))).
    { split; [exact Hc0|]. split; [exact Hr0|]. split; [intros; rewrite Hs0; reflexivity|]. split; [right; exact Hs0|].
      intros g m0 Hg. left. rewrite R0 in Hg. eexists; exact Hg. }
    assert (Hrec : forall sm', (0 <= f)%Z -> (forall g, g <> f -> zget g sm' = zget g (sel S0)) ->
      same_core W S (record_fd W j f m sm' S0) /\
      (forall k, k <> j -> zget k (registered (record_fd W j f m sm' S0)) = zget k (registered S)) /\
      (forall g, g <> f -> zget g (sel (record_fd W j f m sm' S0)) = zget g (sel S)) /\
      ((0 <= f)%Z \/ sel (record_fd W j f m sm' S0) = sel S) /\
      (forall g m0, zget g (regs_of W j (record_fd W j f m sm' S0)) = Some m0 ->
                 (exists m', zget g (regs_of W j S) = Some m') \/ (g = f /\ (0 <= g)%Z))).
    { intros sm' Hf0 Hsm. split; [|split; [|split; [|split]]].
      - eapply same_core_trans; [exact Hc0|]. repeat split.
      - intros k Hk. unfold record_fd; cbn [registered set_registered]. rewrite zget_zset_other by exact Hk. apply Hr0; exact Hk.
      - intros g Hg. unfold record_fd; cbn [sel set_registered set_sel]. rewrite Hsm by exact Hg. rewrite Hs0; reflexivity.
      - left; exact Hf0.
      - intros g m0 Hg. rewrite regs_of_record, Z.eqb_refl, zget_zset in Hg.
        destruct (g =? f)%Z eqn:Egf; [right; apply Z.eqb_eq in Egf; subst; auto|].
        left. rewrite R0 in Hg. eexists; exact Hg. }
    destruct (zget f (regs_of W j S0)) as [oldmask|] eqn:Eold.
    - destruct (m =? oldmask).
      + intros X; inversion X; subst. exact Hbase.
      + unfold sel_modify. destruct (f <? 0)%Z eqn:Ef0.
        { intros X; inversion X; subst. cbn [sel set_sel]. destruct Hbase as (B1&B2&B3&B4&B5).
          split; [eapply same_core_trans; [exact Hc0|repeat split]|]. split; [exact B2|]. split; [exact B3|]. split; [exact B4|exact B5]. }
        apply Z.ltb_ge in Ef0.
        destruct (zget f (sel S0)) as [[oev odata]|] eqn:Esel.
        * destruct (m =? oev).
          -- intros X; inversion X; subst. apply Hrec; [exact Ef0|]. intros g Hg. apply zget_zset_other; exact Hg.
          -- destruct (zget f (ev_kfail e)).
             ++ intros X; inversion X; subst. destruct Hbase as (B1&B2&B3&B4&B5).
                split; [eapply same_core_trans; [exact Hc0|repeat split]|]. split; [exact B2|].
                split; [intros g Hg; cbn [sel set_sel]; rewrite zget_zdel_other by exact Hg; apply B3; exact Hg|].
                split; [left; exact Ef0|exact B5].
             ++ intros X; inversion X; subst. apply Hrec; [exact Ef0|]. intros g Hg. apply zget_zset_other; exact Hg.
        * intros X; inversion X; subst. destruct Hbase as (B1&B2&B3&B4&B5).
          split; [eapply same_core_trans; [exact Hc0|repeat split]|]. split; [exact B2|]. split; [exact B3|]. split; [exact B4|exact B5].
    - destruct (f =? -1)%Z.
      + intros X; inversion X; subst. exact Hbase.
      + unfold sel_register.
        destruct ((m =? 0) || (3 <? m)); [intros X; inversion X; subst; exact Hbase|].
        destruct (f <? 0)%Z eqn:Ef0; [intros X; inversion X; subst; exact Hbase|]. apply Z.ltb_ge in Ef0.
        destruct (zmem f (sel S0)); [intros X; inversion X; subst; exact Hbase|].
        destruct (zget f (ev_kfail e)); [intros X; inversion X; subst; exact Hbase|].
        intros X; inversion X; subst. apply Hrec; [exact Ef0|]. intros g Hg. apply zget_zset_other; exact Hg.
  Qed.

  Definition fds_owned (j : work_id) (evs : sel_events) : Prop :=
    forall f m, In (f, m) evs -> (0 <= f)%Z -> owner f = j.

  Definition regs_grow_owned (j : work_id) (S S' : State) : Prop :=
    forall g m, zget g (regs_of W j S') = Some m -> (exists m', zget g (regs_of W j S) = Some m') \/ owner g = j.

  Lemma uwe_loop_frame e j evs : forall (S : State) S' r,
    fds_owned j evs -> UWE_LOOP e j S evs = (S', r) ->
    frame j S S' /\ works S' = works S /\ regs_grow_owned j S S'.
  Proof.
    induction evs as [|[f m] t IH]; intros S S' r Hown; cbn [uwe_loop].
    - intros X; inversion X; subst. split; [apply frame_refl|]. split; [reflexivity|].
      intros g m Hg; left; eexists; exact Hg.
    - destruct (UWE_ONE e j S (f, m)) as [S1 r1] eqn:E1.
      destruct (uwe_one_effect e j S (f, m) S1 r1 E1) as (C1 & R1 & Sel1 & Neg1 & G1). cbn [fst] in *.
      destruct (same_core_frame_parts S S1 C1) as (Hw & Hg & Ho & Ht & Hu).
      assert (Hf1 : frame j S S1).
      { constructor; try (intros; congruence).
        - exact R1.
        - intros g Hgj. destruct Neg1 as [Hpos|Hsame]; [|rewrite Hsame; reflexivity].
          apply Sel1. intros ->. apply Hgj. apply (Hown f m); [left; reflexivity|exact Hpos]. }
      assert (Hgrow1 : regs_grow_owned j S S1).
      { intros g m0 Hg0. destruct (G1 g m0 Hg0) as [X|[-> Hpos]]; [left; exact X|right].
        apply (Hown f m); [left; reflexivity|exact Hpos]. }
      destruct r1 as [u|x].
      + intros X. destruct (IH S1 S' r (fun f0 m0 Hin => Hown f0 m0 (or_intror Hin)) X) as (F2 & W2 & G2).
        split; [eapply frame_trans; eassumption|]. split; [congruence|].
        intros g m0 Hg0. destruct (G2 g m0 Hg0) as [[m' X']|X']; [apply (Hgrow1 g m' X')|right; exact X'].
      + intros X; inversion X; subst. split; [exact Hf1|]. split; [exact Hw|exact Hgrow1].
  Qed.

  Lemma set_works_frame j (S : State) w : frame j S (set_works S (zset j w (works S))).
  Proof.
    constructor; try reflexivity. intros k Hk. cbn [works set_works]. apply zget_zset_other; exact Hk.
  Qed.

  Lemma regs_of_set_works j (S : State) ws : regs_of W j (set_works S ws) = regs_of W j S.
  Proof. reflexivity. Qed.

  Lemma cleanup_frame e j (S : State) :
    (forall f m, zget f (regs_of W j S) = Some m -> owner f = j) -> frame j S (CLEANUP e j S).
  Proof.
    intros Hown. constructor.
    - intros k Hk. rewrite cleanup_works. apply zget_zdel_other; exact Hk.
    - intros k Hk. rewrite cleanup_registered. apply zget_zdel_other; exact Hk.
    - intros f Hf. rewrite cleanup_sel_get. destruct (zmem f (regs_of W j S)) eqn:Em; [|reflexivity].
      exfalso. apply zmem_zget in Em. destruct (zget f (regs_of W j S)) as [m|] eqn:E; [|congruence].
      apply Hf. eapply Hown; exact E.
    - intros k Hk. rewrite cleanup_gone. destruct (zget j (works S)); [|reflexivity].
      rewrite gone_of_app. unfold gone_of at 2. cbn [filter fst]. apply Z.eqb_neq in Hk. rewrite Z.eqb_sym, Hk.
      cbn [map]. apply app_nil_r.
    - intros k Hk. rewrite cleanup_oslog. destruct (zget j (works S)); [|reflexivity]. destruct wq; [|reflexivity].
      rewrite os_of_app. cbn [os_of filter]. apply Z.eqb_neq in Hk. rewrite Z.eqb_sym, Hk. apply app_nil_r.
    - apply cleanup_tick.
    - apply cleanup_unfinished.
  Qed.

  (* own survives a cleanup: fewer works, fewer registrations *)
  Lemma cleanup_own e j (S : State) : own S -> own (CLEANUP e j S).
  Proof.
    intros [G R]. constructor.
    - intros k w. rewrite cleanup_works, zget_zdel. destruct (k =? j)%Z; [discriminate|apply G].
    - intros k f m. rewrite regs_of_cleanup. destruct (k =? j)%Z; [discriminate|apply R].
  Qed.

  Hypothesis Hdisc : disciplined.

  Lemma update_work_events_other e j (S : State) S' r :
    own S -> UWE e j S = (S', r) -> frame j S S' /\ own S'.
  Proof.
    intros [G R]. unfold update_work_events.
    destruct (zget j (works S)) as [w|] eqn:Ew.
    - pose proof (d_get Hdisc j w (ev_io e j) (G j w Ew)) as [Hgood Hfds].
      destruct (w_get_events w (ev_io e j)) as [w' rg]. cbn [fst snd] in *.
      set (S1 := set_works S (zset j w' (works S))).
      assert (Hown1 : own S1).
      { constructor.
        - intros k wk. subst S1; cbn [works set_works]. rewrite zget_zset.
          destruct (k =? j)%Z eqn:Ekj; [apply Z.eqb_eq in Ekj; subst; intros X; inversion X; subst; exact Hgood|apply G].
        - intros k f m. apply R. }
      destruct rg as [evs|x].
      + intros X. destruct (uwe_loop_frame e j evs S1 S' r (Hfds evs eq_refl) X) as (F & Hw & Gr).
        split; [eapply frame_trans; [apply set_works_frame|exact F]|].
        destruct Hown1 as [G1 R1]. constructor.
        * intros k wk. rewrite Hw. apply G1.
        * intros k f m Hk. destruct (Z.eq_dec k j) as [->|Hkj].
          -- destruct (Gr f m Hk) as [[m' X']|X']; [eapply R1; exact X'|exact X'].
          -- apply (R1 k f m). unfold regs_of in *. rewrite <- (fr_reg _ _ _ F k Hkj). exact Hk.
      + intros X; inversion X; subst. split; [apply set_works_frame|exact Hown1].
    - intros X; inversion X; subst. split; [apply frame_refl|constructor; assumption].
  Qed.

  Lemma update_selector_one_other e j (S : State) :
    own S -> frame j S (UPD_ONE e [] S j) /\ own (UPD_ONE e [] S j).
  Proof.
    intros Hown. unfold update_selector_one. cbn [zin].
    destruct (UWE e j S) as [S' r] eqn:E.
    destruct (update_work_events_other e j S S' r Hown E) as [F O].
    destruct r as [u|x]; [split; assumption|].
    split; [|apply cleanup_own; exact O].
    eapply frame_trans; [exact F|]. apply cleanup_frame. intros f m. apply (own_regs _ O).
  Qed.

  (* ---------------------------------------------------------------- the same step on behalf of work i, in both runs *)
  Lemma ensure_sim i (S A : State) : sim i S A -> sim i (ensure_reg W i S) (ensure_reg W i A).
  Proof.
    intros H. pose proof H as [S1 S2 S3 S4 S5 S6 S7 S8 S9].
    assert (Hm : zmem i (registered S) = zmem i (registered A)) by (unfold zmem; rewrite S2; reflexivity).
    unfold ensure_reg. rewrite <- Hm. destruct (zmem i (registered S)); [exact H|].
    constructor; cbn; try assumption. rewrite !zget_zset_same. reflexivity.
  Qed.

  Lemma record_sim i f m (S A : State) :
    sim i S A -> sim i (record_fd W i f m (zset f (m, i) (sel S)) S) (record_fd W i f m (zset f (m, i) (sel A)) A).
  Proof.
    intros H. pose proof (sim_regs _ _ _ H) as R. destruct H as [S1 S2 S3 S4 S5 S6 S7 S8 S9].
    unfold record_fd. constructor; cbn; try assumption.
    - rewrite !zget_zset_same, R. reflexivity.
    - intros g Hg. rewrite !zget_zset. destruct (g =? f)%Z; [reflexivity|apply S3; exact Hg].
  Qed.

  Lemma zdel_sel_sim i f (S A : State) :
    sim i S A -> sim i (set_sel S (zdel f (sel S))) (set_sel A (zdel f (sel A))).
  Proof.
    intros [S1 S2 S3 S4 S5 S6 S7 S8 S9]. constructor; cbn; try assumption.
    intros g Hg. rewrite !zget_zdel. destruct (g =? f)%Z; [reflexivity|apply S3; exact Hg].
  Qed.

  Lemma uwe_one_par e i (S A : State) fm S' r A' r' :
    sim i S A -> (forall f m, zget f (regs_of W i S) = Some m -> owner f = i) ->
    ((0 <= fst fm)%Z -> owner (fst fm) = i) ->
    UWE_ONE e i S fm = (S', r) -> UWE_ONE e i A fm = (A', r') -> r = r' /\ sim i S' A'.
  Proof.
    intros Hsim Hregs Hfm. unfold uwe_one. destruct fm as [f m]. cbn [fst] in Hfm.
    change (if zmem i (registered S) then S else set_registered S (zset i [] (registered S))) with (ensure_reg W i S).
    change (if zmem i (registered A) then A else set_registered A (zset i [] (registered A))) with (ensure_reg W i A).
    pose proof (ensure_sim i S A Hsim) as H0.
    assert (Hregs0 : forall f m, zget f (regs_of W i (ensure_reg W i S)) = Some m -> owner f = i)
      by (intros f0 m0; rewrite regs_of_ensure; apply Hregs).
    set (S0 := ensure_reg W i S) in *. set (A0 := ensure_reg W i A) in *. clearbody S0 A0.
    assert (Hz : zget f (regs_of W i A0) = zget f (regs_of W i S0)) by (rewrite (sim_regs _ _ _ H0); reflexivity).
    rewrite Hz. clear Hz.
    destruct (zget f (regs_of W i S0)) as [oldmask|] eqn:Eold.
    - destruct (m =? oldmask).
      + intros X Y; inversion X; inversion Y; subst. split; [reflexivity|exact H0].
      + unfold sel_modify. destruct (f <? 0)%Z.
        { intros X Y; inversion X; inversion Y; subst. split; [reflexivity|].
          destruct H0 as [S1 S2 S3 S4 S5 S6 S7 S8 S9]. constructor; cbn; assumption. }
        rewrite <- (sim_sel _ _ _ H0 f (Hregs0 f oldmask Eold)).
        destruct (zget f (sel S0)) as [[oev odata]|].
        * destruct (m =? oev).
          -- intros X Y; inversion X; inversion Y; subst. split; [reflexivity|].
             pose proof (sim_regs _ _ _ H0) as R. destruct H0 as [S1 S2 S3 S4 S5 S6 S7 S8 S9].
             constructor; cbn; try assumption.
             ++ rewrite !zget_zset_same, R. reflexivity.
             ++ intros g Hg. rewrite !zget_zset. destruct (g =? f)%Z; [reflexivity|apply S3; exact Hg].
          -- destruct (zget f (ev_kfail e)).
             ++ intros X Y; inversion X; inversion Y; subst. split; [reflexivity|apply zdel_sel_sim; exact H0].
             ++ intros X Y; inversion X; inversion Y; subst. split; [reflexivity|apply record_sim; exact H0].
        * intros X Y; inversion X; inversion Y; subst. split; [reflexivity|].
          destruct H0 as [S1 S2 S3 S4 S5 S6 S7 S8 S9]. constructor; cbn; assumption.
    - destruct (f =? -1)%Z.
      + intros X Y; inversion X; inversion Y; subst. split; [reflexivity|exact H0].
      + unfold sel_register.
        destruct ((m =? 0) || (3 <? m)); [intros X Y; inversion X; inversion Y; subst; split; [reflexivity|exact H0]|].
        destruct (f <? 0)%Z eqn:Ef0; [intros X Y; inversion X; inversion Y; subst; split; [reflexivity|exact H0]|].
        apply Z.ltb_ge in Ef0.
        assert (Hm : zmem f (sel S0) = zmem f (sel A0)).
        { unfold zmem. rewrite (sim_sel _ _ _ H0 f (Hfm Ef0)). reflexivity. }
        rewrite <- Hm. destruct (zmem f (sel S0)); [intros X Y; inversion X; inversion Y; subst; split; [reflexivity|exact H0]|].
        destruct (zget f (ev_kfail e)); [intros X Y; inversion X; inversion Y; subst; split; [reflexivity|exact H0]|].
        intros X Y; inversion X; inversion Y; subst. split; [reflexivity|apply record_sim; exact H0].
  Qed.

  Definition regs_owned (i : work_id) (S : State) : Prop :=
    forall f m, zget f (regs_of W i S) = Some m -> owner f = i.

  Lemma uwe_loop_par e i evs : forall (S A : State) S' r A' r',
    sim i S A -> regs_owned i S -> fds_owned i evs ->
    UWE_LOOP e i S evs = (S', r) -> UWE_LOOP e i A evs = (A', r') -> r = r' /\ sim i S' A'.
  Proof.
    induction evs as [|[f m] t IH]; intros S A S' r A' r' Hsim Hregs Hown; cbn [uwe_loop].
    - intros X Y; inversion X; inversion Y; subst. split; [reflexivity|exact Hsim].
    - destruct (UWE_ONE e i S (f, m)) as [S1 r1] eqn:E1. destruct (UWE_ONE e i A (f, m)) as [A1 a1] eqn:E2.
      assert (Hf : (0 <= f)%Z -> owner f = i) by (intros Hp; apply (Hown f m); [left; reflexivity|exact Hp]).
      destruct (uwe_one_par e i S A (f, m) S1 r1 A1 a1 Hsim Hregs Hf E1 E2) as [<- Hsim1].
      destruct r1 as [u|x].
      + apply IH; [exact Hsim1| |intros f0 m0 Hin; apply (Hown f0 m0); right; exact Hin].
        destruct (uwe_one_effect e i S (f, m) S1 (Ok u) E1) as (_ & _ & _ & _ & G1). cbn [fst] in G1.
        intros g m0 Hg. destruct (G1 g m0 Hg) as [[m' X]|[-> Hp]]; [eapply Hregs; exact X|apply Hf; exact Hp].
      + intros X Y; inversion X; inversion Y; subst. split; [reflexivity|exact Hsim1].
  Qed.

  Lemma set_works_sim i (S A : State) w :
    sim i S A -> sim i (set_works S (zset i w (works S))) (set_works A (zset i w (works A))).
  Proof.
    intros [S1 S2 S3 S4 S5 S6 S7 S8 S9]. constructor; cbn; try assumption.
    - rewrite !zget_zset_same. reflexivity.
    - intros j Hj. rewrite zget_zset_other by exact Hj. apply S9; exact Hj.
  Qed.

  Lemma update_work_events_par e i (S A : State) S' r A' r' :
    sim i S A -> own S -> UWE e i S = (S', r) -> UWE e i A = (A', r') -> r = r' /\ sim i S' A'.
  Proof.
    intros Hsim [G R]. unfold update_work_events. rewrite <- (sim_work _ _ _ Hsim).
    destruct (zget i (works S)) as [w|] eqn:Ew.
    - pose proof (d_get Hdisc i w (ev_io e i) (G i w Ew)) as [_ Hfds].
      destruct (w_get_events w (ev_io e i)) as [w' rg]. cbn [snd] in Hfds.
      pose proof (set_works_sim i S A w' Hsim) as Hsim1.
      destruct rg as [evs|x].
      + apply uwe_loop_par; [exact Hsim1|intros f m; apply R|exact (Hfds evs eq_refl)].
      + intros X Y; inversion X; inversion Y; subst. split; [reflexivity|exact Hsim1].
    - intros X Y; inversion X; inversion Y; subst. split; [reflexivity|exact Hsim].
  Qed.

  Lemma cleanup_par e i (S A : State) : sim i S A -> sim i (CLEANUP e i S) (CLEANUP e i A).
  Proof.
    intros Hsim. pose proof (sim_regs _ _ _ Hsim) as R. destruct Hsim as [S1 S2 S3 S4 S5 S6 S7 S8 S9].
    constructor.
    - rewrite !cleanup_works, !zget_zdel_same. reflexivity.
    - rewrite !cleanup_registered, !zget_zdel_same. reflexivity.
    - intros f Hf. rewrite !cleanup_sel_get, R, (S3 f Hf). reflexivity.
    - rewrite !cleanup_gone, <- S1. destruct (zget i (works S)); [|exact S4].
      rewrite !gone_of_app, S4. reflexivity.
    - rewrite !cleanup_oslog, <- S1. destruct (zget i (works S)); [|exact S5]. destruct wq; [|exact S5].
      rewrite !os_of_app, S5. reflexivity.
    - rewrite !cleanup_tick. exact S6.
    - rewrite cleanup_unfinished. exact S7.
    - rewrite cleanup_unfinished. exact S8.
    - intros j Hj. rewrite cleanup_works, zget_zdel. destruct (j =? i)%Z; [reflexivity|apply S9; exact Hj].
  Qed.

  Lemma update_selector_one_par e i (S A : State) :
    sim i S A -> own S -> sim i (UPD_ONE e [] S i) (UPD_ONE e [] A i).
  Proof.
    intros Hsim Hown. unfold update_selector_one. cbn [zin].
    destruct (UWE e i S) as [S' r] eqn:E1. destruct (UWE e i A) as [A' r'] eqn:E2.
    destruct (update_work_events_par e i S A S' r A' r' Hsim Hown E1 E2) as [<- Hsim1].
    destruct r; [exact Hsim1|apply cleanup_par; exact Hsim1].
  Qed.

  Lemma update_selector_fold_sim e i l : forall (S A : State),
    sim i S A -> own S ->
    sim i (fold_left (UPD_ONE e []) l S) (fold_left (UPD_ONE e []) (filter (fun j => (j =? i)%Z) l) A) /\
    own (fold_left (UPD_ONE e []) l S).
  Proof.
    induction l as [|j t IH]; intros S A Hsim Hown; cbn [fold_left filter]; [split; assumption|].
    destruct (update_selector_one_other e j S Hown) as [Hfr Hown1].
    destruct (j =? i)%Z eqn:Eji.
    - apply Z.eqb_eq in Eji; subst j. cbn [fold_left]. apply IH; [apply update_selector_one_par; assumption|exact Hown1].
    - apply Z.eqb_neq in Eji. apply IH; [|exact Hown1]. eapply sim_frame; eassumption.
  Qed.

  Lemma filter_eqb_nodup i l : NoDup l -> filter (fun j => (j =? i)%Z) l = if zin i l then [i] else [].
  Proof.
    induction l as [|x t IH]; intros Hn; cbn [filter zin]; [reflexivity|].
    inversion Hn as [|? ? Hx Ht]; subst. rewrite (IH Ht). rewrite Z.eqb_sym.
    destruct (i =? x)%Z eqn:E; cbn [orb]; [|reflexivity].
    apply Z.eqb_eq in E; subst x. destruct (zin i t) eqn:Ez; [|reflexivity].
    apply zin_In in Ez. contradiction.
  Qed.

  Lemma only_keys {V} i (d : zdict V) :
    (forall j, j <> i -> zget j d = None) -> NoDup (zkeys d) -> zkeys d = if zmem i d then [i] else [].
  Proof.
    intros Honly Hn.
    assert (Hall : forall j, In j (zkeys d) -> j = i).
    { intros j Hj. apply zkeys_zget in Hj. destruct (Z.eq_dec j i); [assumption|]. rewrite Honly in Hj by assumption. congruence. }
    rewrite <- zin_zkeys. destruct (zkeys d) as [|a [|b t]]; cbn [zin].
    - reflexivity.
    - rewrite (Hall a) by (left; reflexivity). rewrite Z.eqb_refl. reflexivity.
    - exfalso. inversion Hn as [|? ? Hx _]; subst. apply Hx.
      rewrite (Hall a) by (left; reflexivity). rewrite <- (Hall b) at 1 by (right; left; reflexivity). left; reflexivity.
  Qed.

  Lemma keys_alone i (S A : State) :
    sim i S A -> NoDup (zkeys (works S)) -> NoDup (zkeys (works A)) ->
    zkeys (works A) = filter (fun j => (j =? i)%Z) (zkeys (works S)).
  Proof.
    intros Hsim Hs Ha. rewrite (only_keys i (works A) (sim_only _ _ _ Hsim) Ha), (filter_eqb_nodup i _ Hs), zin_zkeys.
    unfold zmem. rewrite (sim_work _ _ _ Hsim). reflexivity.
  Qed.

  Lemma update_selector_sim e i (S A : State) :
    sim i S A -> own S -> INV None S -> INV None A ->
    sim i (UPD e S) (UPD e A) /\ own (UPD e S).
  Proof.
    intros Hsim Hown Hi Ha. unfold update_selector.
    rewrite (sim_unfS _ _ _ Hsim), (sim_unfA _ _ _ Hsim). cbn [map].
    rewrite (keys_alone i S A Hsim (inv_nodup _ _ _ _ Hi) (inv_nodup _ _ _ _ Ha)).
    apply update_selector_fold_sim; assumption.
  Qed.

  (* ---------------------------------------------------------------- select: what is ready for work i *)
  Definition wbi_entry (d : Z) (f : fd) (m : mask) (wbi : work_by_ids) : list fd * list fd :=
    let '(rs, ws) := match zget d wbi with Some x => x | None => ([], []) end in
    (if N.land m EVENT_READ =? 0 then rs else rs ++ [f], if N.land m EVENT_WRITE =? 0 then ws else ws ++ [f]).
  Definition wbi_add (d : Z) (f : fd) (m : mask) (wbi : work_by_ids) : work_by_ids :=
    zset d (wbi_entry d f m wbi) (if zmem d wbi then wbi else zset d ([], []) wbi).

  Lemma select_one_eq sm wbi nwa f ev :
    select_one wq sm (wbi, nwa) (f, ev) =
    match zget f sm with
    | None => Ok (wbi, nwa)
    | Some (kev, data) =>
        if negb nwa && is_wq wq f
        then (if N.land (N.land ev kev) EVENT_READ =? 0 then Err AssertionError else Ok (wbi, true))
        else Ok (wbi_add data f (N.land ev kev) wbi, nwa)
    end.
  Proof.
    unfold select_one. destruct (zget f sm) as [[kev data]|]; [|reflexivity].
    destruct (negb nwa && is_wq wq f); [reflexivity|].
    unfold wbi_add, wbi_entry. destruct (zmem data wbi) eqn:Em.
    - destruct (zget data wbi) as [[rs ws]|]; reflexivity.
    - rewrite zget_zset_same. apply zmem_false in Em. rewrite Em. reflexivity.
  Qed.

  Lemma zget_wbi_add k d f m wbi :
    zget k (wbi_add d f m wbi) = if (k =? d)%Z then Some (wbi_entry d f m wbi) else zget k wbi.
  Proof.
    unfold wbi_add. rewrite zget_zset. destruct (k =? d)%Z eqn:E; [reflexivity|].
    destruct (zmem d wbi); [reflexivity|]. rewrite zget_zset, E. reflexivity.
  Qed.

  Lemma wbi_add_nodup d f m wbi : NoDup (zkeys wbi) -> NoDup (zkeys (wbi_add d f m wbi)).
  Proof.
    intros H. unfold wbi_add. apply znodup_zset. destruct (zmem d wbi); [exact H|apply znodup_zset; exact H].
  Qed.

  Lemma select_one_nodup sm acc fm acc' :
    select_one wq sm acc fm = Ok acc' -> NoDup (zkeys (fst acc)) -> NoDup (zkeys (fst acc')).
  Proof.
    destruct acc as [wbi nwa], fm as [f ev]. rewrite select_one_eq. cbn [fst].
    destruct (zget f sm) as [[kev data]|]; [|intros X; inversion X; subst; auto].
    destruct (negb nwa && is_wq wq f).
    - destruct (N.land (N.land ev kev) EVENT_READ =? 0); [discriminate|intros X; inversion X; subst; auto].
    - intros X; inversion X; subst. cbn [fst]. apply wbi_add_nodup.
  Qed.

  Lemma select_loop_nodup sm l : forall acc acc',
    select_loop wq sm acc l = Ok acc' -> NoDup (zkeys (fst acc)) -> NoDup (zkeys (fst acc')).
  Proof.
    induction l as [|fm t IH]; intros acc acc'; cbn [select_loop]; [intros X; inversion X; subst; auto|].
    destruct (select_one wq sm acc fm) as [acc1|x] eqn:E; [|discriminate].
    intros X Hn. eapply IH; [exact X|]. eapply select_one_nodup; eassumption.
  Qed.

  Lemma wbi_entry_cong d f m wS wA : zget d wS = zget d wA -> wbi_entry d f m wS = wbi_entry d f m wA.
  Proof. unfold wbi_entry. intros ->. reflexivity. Qed.

  (* a descriptor registered in the alone run is registered, identically, in the joint run *)
  Lemma sel_alone_entry i (S A : State) f kev d :
    sim i S A -> INV None A -> own S -> zget f (sel A) = Some (kev, d) ->
    zget f (sel S) = Some (kev, d) \/ (wq = Some f).
  Proof.
    intros Hsim Ha Hoa Hf. destruct (inv_sel_reg _ _ _ _ Ha f kev d Hf) as [(Hq&_&_)|(Hnq & Hd & Hr)]; [right; exact Hq|left].
    assert (d = i).
    { destruct (Z.eq_dec d i) as [|Hne]; [assumption|]. apply zmem_zget in Hd. rewrite (sim_only _ _ _ Hsim d Hne) in Hd. congruence. }
    subst d. rewrite <- (sim_regs _ _ _ Hsim) in Hr. rewrite (sim_sel _ _ _ Hsim f (own_regs _ Hoa i f kev Hr)). exact Hf.
  Qed.

  Lemma select_one_sim i (S A : State) wS wA n fm wS' nS' wA' nA' :
    sim i S A -> INV None S -> INV None A -> own S ->
    select_one wq (sel S) (wS, n) fm = Ok (wS', nS') ->
    select_one wq (sel A) (wA, n) fm = Ok (wA', nA') ->
    zget i wS = zget i wA -> zget i wS' = zget i wA' /\ nS' = nA'.
  Proof.
    intros Hsim Hs Ha Hos. pose proof Hos as Hoa. destruct fm as [f ev]. rewrite !select_one_eq. intros X Y Hrel.
    destruct (zget f (sel S)) as [[kev d]|] eqn:Ef.
    - destruct (inv_sel_reg _ _ _ _ Hs f kev d Ef) as [(Hq & -> & ->)|(Hnq & Hd & Hr)].
      + (* the work-queue descriptor: registered identically in both runs *)
        rewrite (inv_wq _ _ _ _ Ha f Hq) in Y. unfold EVENT_READ in *.
        destruct (negb n && is_wq wq f).
        * destruct (N.land (N.land ev 1) 1 =? 0); [discriminate|].
          inversion X; inversion Y; subst. split; [exact Hrel|reflexivity].
        * inversion X; inversion Y; subst. split; [|reflexivity].
          rewrite !zget_wbi_add. destruct (i =? f)%Z eqn:E; [|exact Hrel].
          apply Z.eqb_eq in E; subst f. f_equal. apply wbi_entry_cong; exact Hrel.
      + assert (Hnw : is_wq wq f = false).
        { unfold is_wq. destruct wq as [q|]; [|reflexivity]. apply Z.eqb_neq. intros ->. apply Hnq; reflexivity. }
        rewrite Hnw, andb_false_r in X. inversion X; subst. clear X.
        pose proof (own_regs _ Hos d f kev Hr) as Hown.
        destruct (Z.eq_dec d i) as [->|Hdi].
        * rewrite <- (sim_sel _ _ _ Hsim f Hown), Ef, Hnw, andb_false_r in Y. inversion Y; subst.
          split; [|reflexivity]. rewrite !zget_wbi_add, Z.eqb_refl. f_equal. apply wbi_entry_cong; exact Hrel.
        * (* a descriptor of another work: unknown to the alone run *)
          destruct (zget f (sel A)) as [[kev' d']|] eqn:Efa.
          -- exfalso. destruct (sel_alone_entry i S A f kev' d' Hsim Ha Hoa Efa) as [Z0|Z0]; [|contradiction].
             rewrite Ef in Z0. injection Z0 as Ek Ed.
             destruct (inv_sel_reg _ _ _ _ Ha f kev' d' Efa) as [(Hq&_&_)|(_ & Hd' & _)]; [contradiction|].
             apply zmem_zget in Hd'. rewrite <- Ed in Hd'. rewrite (sim_only _ _ _ Hsim d Hdi) in Hd'. congruence.
          -- inversion Y; subst. split; [|reflexivity]. rewrite zget_wbi_add.
             apply Z.eqb_neq in Hdi. rewrite Z.eqb_sym, Hdi. exact Hrel.
    - inversion X; subst. clear X.
      destruct (zget f (sel A)) as [[kev' d']|] eqn:Efa.
      + exfalso. destruct (sel_alone_entry i S A f kev' d' Hsim Ha Hoa Efa) as [Z0|Z0]; [congruence|].
        rewrite (inv_wq _ _ _ _ Hs f Z0) in Ef. discriminate.
      + inversion Y; subst. split; [exact Hrel|reflexivity].
  Qed.

  Lemma select_loop_sim i (S A : State) l : forall wS wA n wS' nS' wA' nA',
    sim i S A -> INV None S -> INV None A -> own S ->
    select_loop wq (sel S) (wS, n) l = Ok (wS', nS') ->
    select_loop wq (sel A) (wA, n) l = Ok (wA', nA') ->
    zget i wS = zget i wA -> zget i wS' = zget i wA' /\ nS' = nA'.
  Proof.
    induction l as [|fm t IH]; intros wS wA n wS' nS' wA' nA' Hsim Hs Ha Hos; cbn [select_loop].
    - intros X Y; inversion X; inversion Y; subst. auto.
    - destruct (select_one wq (sel S) (wS, n) fm) as [[wS1 nS1]|] eqn:E1; [|discriminate].
      destruct (select_one wq (sel A) (wA, n) fm) as [[wA1 nA1]|] eqn:E2; [|discriminate].
      intros X Y Hrel.
      destruct (select_one_sim i S A wS wA n fm wS1 nS1 wA1 nA1 Hsim Hs Ha Hos E1 E2 Hrel) as [Hrel1 <-].
      eapply IH; eassumption.
  Qed.

  (* ---------------------------------------------------------------- arrivals *)
  Lemma do_work_other e j w (S : State) :
    own S -> good j w -> frame j S (DO_WORK e j w S) /\ own (DO_WORK e j w S).
  Proof.
    intros [G R] Hg. unfold do_work.
    set (S0 := match wq with Some _ => set_oslog S (oslog S ++ [OsDup j]) | None => S end).
    assert (F0 : frame j S S0).
    { subst S0. destruct wq; [|apply frame_refl]. constructor; try reflexivity.
      intros k Hk. cbn [oslog set_oslog]. rewrite os_of_app. cbn [os_of filter]. apply Z.eqb_neq in Hk.
      rewrite Z.eqb_sym, Hk. apply app_nil_r. }
    assert (O0 : own S0) by (subst S0; destruct wq; constructor; assumption).
    clearbody S0. destruct O0 as [G0 R0].
    pose proof (d_init Hdisc j w (ev_io e j) Hg) as Hg'.
    destruct (w_initialize w (ev_io e j)) as [w' r]. cbn [fst] in Hg'.
    set (S2 := set_works (set_works S0 (zset j w (works S0))) (zset j w' (works (set_works S0 (zset j w (works S0)))))).
    assert (F2 : frame j S0 S2).
    { subst S2. eapply frame_trans; apply set_works_frame. }
    assert (O2 : own S2).
    { subst S2. constructor.
      - intros k wk. cbn [works set_works]. rewrite !zget_zset.
        destruct (k =? j)%Z eqn:E; [apply Z.eqb_eq in E; subst; intros X; inversion X; subst; exact Hg'|apply G0].
      - exact R0. }
    clearbody S2. destruct r as [u|x].
    - split; [eapply frame_trans; [exact F0|]; eapply frame_trans; [exact F2|constructor; reflexivity]|].
      destruct O2 as [G2 R2]. constructor; assumption.
    - split; [|apply cleanup_own; exact O2].
      eapply frame_trans; [exact F0|]. eapply frame_trans; [exact F2|]. apply cleanup_frame.
      intros f m. apply (own_regs _ O2).
  Qed.

  Lemma do_work_par e i w (S A : State) : sim i S A -> sim i (DO_WORK e i w S) (DO_WORK e i w A).
  Proof.
    intros Hsim. unfold do_work.
    set (S0 := match wq with Some _ => set_oslog S (oslog S ++ [OsDup i]) | None => S end).
    set (A0 := match wq with Some _ => set_oslog A (oslog A ++ [OsDup i]) | None => A end).
    assert (H0 : sim i S0 A0).
    { subst S0 A0. destruct wq; [|exact Hsim]. destruct Hsim as [S1 S2 S3 S4 S5 S6 S7 S8 S9].
      constructor; try assumption. cbn [oslog set_oslog]. rewrite !os_of_app, S5. reflexivity. }
    clearbody S0 A0.
    destruct (w_initialize w (ev_io e i)) as [w' r].
    pose proof (set_works_sim i _ _ w' (set_works_sim i S0 A0 w H0)) as H2.
    destruct r as [u|x]; [|apply cleanup_par; exact H2].
    destruct H2 as [S1 S2 S3 S4 S5 S6 S7 S8 S9]. constructor; assumption.
  Qed.

  (* ---------------------------------------------------------------- tasks *)
  Lemma run_task_other e (S : State) t S' td :
    own S -> zmem (t_work t) (works S) = true -> RUN_TASK e S t = (S', td) ->
    frame (t_work t) S S' /\ own S' /\ (forall j, zmem j (works S') = zmem j (works S)).
  Proof.
    intros [G R] Hm. unfold run_task. apply zmem_zget in Hm.
    destruct (zget (t_work t) (works S)) as [w|] eqn:Ew; [|congruence].
    pose proof (d_handle Hdisc (t_work t) w (t_r t) (t_w t) (ev_io e (t_work t)) (G _ _ Ew)) as Hg.
    destruct (w_handle_events w (t_r t) (t_w t) (ev_io e (t_work t))) as [w' r]. cbn [fst] in Hg.
    intros X; inversion X; subst. split; [apply set_works_frame|]. split.
    - constructor; [|exact R]. intros k wk. cbn [works set_works]. rewrite zget_zset.
      destruct (k =? t_work t)%Z eqn:E; [apply Z.eqb_eq in E; rewrite E; intros Y; inversion Y; subst; exact Hg|apply G].
    - intros j. cbn [works set_works]. rewrite zmem_zset. destruct (j =? t_work t)%Z eqn:E; [|reflexivity].
      apply Z.eqb_eq in E; subst. symmetry. eapply zmem_some; exact Ew.
  Qed.

  Lemma run_task_par e i (S A : State) t S' tdS A' tdA :
    sim i S A -> t_work t = i -> zmem i (works S) = true ->
    RUN_TASK e S t = (S', tdS) -> RUN_TASK e A t = (A', tdA) -> sim i S' A' /\ tdS = tdA.
  Proof.
    intros Hsim Ht Hm. unfold run_task. rewrite Ht, <- (sim_work _ _ _ Hsim). apply zmem_zget in Hm.
    destruct (zget i (works S)) as [w|]; [|congruence].
    destruct (w_handle_events w (t_r t) (t_w t) (ev_io e i)) as [w' r].
    intros X Y; inversion X; inversion Y; subst. split; [apply set_works_sim; exact Hsim|reflexivity].
  Qed.

  Definition is_i (i : work_id) (t : task) : bool := (t_work t =? i)%Z.

  Lemma run_tasks_sim e i ts : forall (S A : State) S' resS A' resA,
    sim i S A -> own S -> (forall t, In t ts -> zmem (t_work t) (works S) = true) ->
    RUN_TASKS e S ts = (S', resS) -> RUN_TASKS e A (filter (is_i i) ts) = (A', resA) ->
    sim i S' A' /\ own S' /\ resA = filter (fun p => (fst p =? i)%Z) resS.
  Proof.
    induction ts as [|t rest IH]; intros S A S' resS A' resA Hsim Hown Hlive; cbn [run_tasks filter].
    - intros X Y; inversion X; inversion Y; subst. auto.
    - destruct (RUN_TASK e S t) as [S1 td] eqn:E1.
      destruct (RUN_TASKS e S1 rest) as [S2 l2] eqn:E2.
      destruct (run_task_other e S t S1 td Hown (Hlive t (or_introl eq_refl)) E1) as (F1 & O1 & M1).
      assert (Hlive1 : forall t0, In t0 rest -> zmem (t_work t0) (works S1) = true)
        by (intros t0 Hin; rewrite M1; apply Hlive; right; exact Hin).
      unfold is_i at 1. destruct (t_work t =? i)%Z eqn:Eti.
      + apply Z.eqb_eq in Eti. cbn [run_tasks].
        destruct (RUN_TASK e A t) as [A1 tda] eqn:E3.
        destruct (RUN_TASKS e A1 (filter (is_i i) rest)) as [A2 la] eqn:E4.
        intros X Y; inversion X; inversion Y; subst.
        assert (Hmi : zmem (t_work t) (works S) = true) by (apply Hlive; left; reflexivity).
        destruct (run_task_par e (t_work t) S A t S1 td A1 tda Hsim eq_refl Hmi E1 E3) as [Hsim1 <-].
        destruct (IH S1 A1 S' l2 A' la Hsim1 O1 Hlive1 E2 E4) as (K1 & K2 & K3).
        split; [exact K1|]. split; [exact K2|]. cbn [filter fst]. rewrite Z.eqb_refl, K3. reflexivity.
      + apply Z.eqb_neq in Eti. intros X Y; inversion X; subst.
        destruct (IH S1 A S' l2 A' resA (sim_frame i _ S S1 A Eti F1 Hsim) O1 Hlive1 E2 Y) as (K1 & K2 & K3).
        split; [exact K1|]. split; [exact K2|]. cbn [filter fst]. apply Z.eqb_neq in Eti. rewrite Eti. exact K3.
  Qed.

  Lemma cleanup_finished_sim e i res : forall (S A : State),
    sim i S A -> own S ->
    sim i (CLEANUP_FIN e S res) (CLEANUP_FIN e A (filter (fun p => (fst p =? i)%Z) res)) /\ own (CLEANUP_FIN e S res).
  Proof.
    unfold cleanup_finished. induction res as [|[j td] t IH]; intros S A Hsim Hown; cbn [fold_left filter fst snd]; [auto|].
    destruct (j =? i)%Z eqn:Eji.
    - apply Z.eqb_eq in Eji; subst j. cbn [fold_left fst snd]. destruct td.
      + apply IH; [apply cleanup_par; exact Hsim|apply cleanup_own; exact Hown].
      + apply IH; assumption.
    - apply Z.eqb_neq in Eji. destruct td; [|apply IH; assumption].
      apply IH; [|apply cleanup_own; exact Hown].
      eapply sim_frame; [exact Eji| |exact Hsim]. apply cleanup_frame. intros f m. apply (own_regs _ Hown).
  Qed.

  (* ---------------------------------------------------------------- inactive sweep *)
  Lemma inactive_scan_sim e i ids : forall (S A : State) S' lS A' lA,
    sim i S A -> own S ->
    SCAN e S ids = (S', lS) -> SCAN e A (filter (fun j => (j =? i)%Z) ids) = (A', lA) ->
    sim i S' A' /\ own S' /\ lA = filter (fun j => (j =? i)%Z) lS.
  Proof.
    induction ids as [|j t IH]; intros S A S' lS A' lA Hsim Hown; cbn [inactive_scan filter].
    - intros X Y; inversion X; inversion Y; subst. auto.
    - destruct (j =? i)%Z eqn:Eji.
      + apply Z.eqb_eq in Eji; subst j. cbn [inactive_scan]. rewrite <- (sim_work _ _ _ Hsim).
        destruct (zget i (works S)) as [w|] eqn:Ew; [|apply IH; assumption].
        pose proof (d_inactive Hdisc i w (ev_clock e) (ev_io e i) (own_good _ Hown i w Ew)) as Hg.
        destruct (w_is_inactive w (ev_clock e) (ev_io e i)) as [w' r]. cbn [fst] in Hg.
        destruct (SCAN e (set_works S (zset i w' (works S))) t) as [S2 l2] eqn:E2.
        destruct (SCAN e (set_works A (zset i w' (works A))) (filter (fun j => (j =? i)%Z) t)) as [A2 la] eqn:E3.
        intros X Y; inversion X; inversion Y; subst.
        assert (O1 : own (set_works S (zset i w' (works S)))).
        { destruct Hown as [G R]. constructor; [|exact R]. intros k wk. cbn [works set_works]. rewrite zget_zset.
          destruct (k =? i)%Z eqn:E; [apply Z.eqb_eq in E; subst; intros Z0; inversion Z0; subst; exact Hg|apply G]. }
        destruct (IH _ _ S' l2 A' la (set_works_sim i S A w' Hsim) O1 E2 E3) as (K1 & K2 & K3).
        split; [exact K1|]. split; [exact K2|].
        destruct (match r with Ok b => b | Err _ => true end); cbn [filter]; [rewrite Z.eqb_refl|]; rewrite K3; reflexivity.
      + apply Z.eqb_neq in Eji.
        destruct (zget j (works S)) as [w|] eqn:Ew; [|apply IH; assumption].
        pose proof (d_inactive Hdisc j w (ev_clock e) (ev_io e j) (own_good _ Hown j w Ew)) as Hg.
        destruct (w_is_inactive w (ev_clock e) (ev_io e j)) as [w' r]. cbn [fst] in Hg.
        destruct (SCAN e (set_works S (zset j w' (works S))) t) as [S2 l2] eqn:E2.
        intros X Y; inversion X; subst.
        assert (O1 : own (set_works S (zset j w' (works S)))).
        { destruct Hown as [G R]. constructor; [|exact R]. intros k wk. cbn [works set_works]. rewrite zget_zset.
          destruct (k =? j)%Z eqn:E; [apply Z.eqb_eq in E; subst; intros Z0; inversion Z0; subst; exact Hg|apply G]. }
        destruct (IH _ A S' l2 A' lA (sim_frame i j S _ A Eji (set_works_frame j S w') Hsim) O1 E2 Y) as (K1 & K2 & K3).
        split; [exact K1|]. split; [exact K2|].
        destruct (match r with Ok b => b | Err _ => true end); cbn [filter]; [apply Z.eqb_neq in Eji; rewrite Eji|]; exact K3.
  Qed.

  Lemma cleanup_all_sim e i l : forall (S A : State),
    sim i S A -> own S ->
    sim i (fold_left (fun st j => CLEANUP e j st) l S)
          (fold_left (fun st j => CLEANUP e j st) (filter (fun j => (j =? i)%Z) l) A) /\
    own (fold_left (fun st j => CLEANUP e j st) l S).
  Proof.
    induction l as [|j t IH]; intros S A Hsim Hown; cbn [fold_left filter]; [auto|].
    destruct (j =? i)%Z eqn:Eji.
    - apply Z.eqb_eq in Eji; subst j. cbn [fold_left]. apply IH; [apply cleanup_par; exact Hsim|apply cleanup_own; exact Hown].
    - apply Z.eqb_neq in Eji. apply IH; [|apply cleanup_own; exact Hown].
      eapply sim_frame; [exact Eji| |exact Hsim]. apply cleanup_frame. intros f m. apply (own_regs _ Hown).
  Qed.

  Lemma cleanup_inactive_sim e i (S A : State) :
    sim i S A -> own S -> INV None S -> INV None A ->
    sim i (CLEANUP_INACTIVE e S) (CLEANUP_INACTIVE e A) /\ own (CLEANUP_INACTIVE e S).
  Proof.
    intros Hsim Hown Hs Ha. unfold cleanup_inactive.
    rewrite (keys_alone i S A Hsim (inv_nodup _ _ _ _ Hs) (inv_nodup _ _ _ _ Ha)).
    destruct (SCAN e S (zkeys (works S))) as [S1 lS] eqn:E1.
    destruct (SCAN e A (filter (fun j => (j =? i)%Z) (zkeys (works S)))) as [A1 lA] eqn:E2.
    destruct (inactive_scan_sim e i _ S A S1 lS A1 lA Hsim Hown E1 E2) as (K1 & K2 & ->).
    apply cleanup_all_sim; assumption.
  Qed.

  (* ---------------------------------------------------------------- restrict only changes the arrival *)
  Lemma cleanup_restrict i e j (st : State) : CLEANUP (restrict i e) j st = CLEANUP e j st.
  Proof. reflexivity. Qed.
  Lemma uwe_loop_restrict i e j evs : forall (st : State), UWE_LOOP (restrict i e) j st evs = UWE_LOOP e j st evs.
  Proof.
    induction evs as [|fm t IH]; intros st; cbn [uwe_loop]; [reflexivity|].
    change (UWE_ONE (restrict i e) j st fm) with (UWE_ONE e j st fm).
    destruct (UWE_ONE e j st fm) as [st' r]. destruct r; [apply IH|reflexivity].
  Qed.
  Lemma update_work_events_restrict i e j (st : State) : UWE (restrict i e) j st = UWE e j st.
  Proof.
    unfold update_work_events. destruct (zget j (works st)) as [w|]; [|reflexivity].
    cbn [ev_io restrict]. destruct (w_get_events w (ev_io e j)) as [w' r]. destruct r; [apply uwe_loop_restrict|reflexivity].
  Qed.
  Lemma update_selector_one_restrict i e unf (st : State) j : UPD_ONE (restrict i e) unf st j = UPD_ONE e unf st j.
  Proof.
    unfold update_selector_one. destruct (zin j unf); [reflexivity|]. rewrite update_work_events_restrict.
    destruct (UWE e j st) as [st' r]. destruct r; reflexivity.
  Qed.
  Lemma update_selector_restrict i e (st : State) : UPD (restrict i e) st = UPD e st.
  Proof.
    unfold update_selector. generalize (map t_work (unfinished st)) as unf. generalize (zkeys (works st)) as l.
    intros l unf. revert st. induction l as [|j t IH]; intros st; cbn [fold_left]; [reflexivity|].
    rewrite update_selector_one_restrict. apply IH.
  Qed.
  Lemma run_tasks_restrict i e ts : forall (st : State), RUN_TASKS (restrict i e) st ts = RUN_TASKS e st ts.
  Proof.
    induction ts as [|t rest IH]; intros st; cbn [run_tasks]; [reflexivity|].
    change (RUN_TASK (restrict i e) st t) with (RUN_TASK e st t).
    destruct (RUN_TASK e st t) as [st' td]. rewrite IH. reflexivity.
  Qed.
  Lemma cleanup_finished_restrict i e res : forall (st : State), CLEANUP_FIN (restrict i e) st res = CLEANUP_FIN e st res.
  Proof.
    unfold cleanup_finished. induction res as [|x t IH]; intros st; cbn [fold_left]; [reflexivity|].
    rewrite cleanup_restrict. apply IH.
  Qed.
  Lemma inactive_scan_restrict i e ids : forall (st : State), SCAN (restrict i e) st ids = SCAN e st ids.
  Proof.
    induction ids as [|j t IH]; intros st; cbn [inactive_scan]; [reflexivity|].
    destruct (zget j (works st)) as [w|]; [|apply IH]. cbn [ev_io ev_clock restrict].
    destruct (w_is_inactive w (ev_clock e) (ev_io e j)) as [w' r]. rewrite IH. reflexivity.
  Qed.
  Lemma cleanup_inactive_restrict i e (st : State) : CLEANUP_INACTIVE (restrict i e) st = CLEANUP_INACTIVE e st.
  Proof.
    unfold cleanup_inactive. rewrite inactive_scan_restrict. destruct (SCAN e st (zkeys (works st))) as [st' l].
    revert st'. induction l as [|j t IH]; intros st'; cbn [fold_left]; [reflexivity|]. rewrite cleanup_restrict. apply IH.
  Qed.

  (* ---------------------------------------------------------------- _run_once *)
  Definition task_of (p : Z * (list fd * list fd)) : task :=
    {| t_work := fst p; t_r := fst (snd p); t_w := snd (snd p) |}.

  Lemma create_tasks_shape (st : State) wbi ts : create_tasks W st wbi = Ok ts -> ts = map task_of wbi.
  Proof.
    revert ts. induction wbi as [|[j [rs ws]] t IH]; intros ts; cbn [create_tasks map].
    - intros X; inversion X; reflexivity.
    - destruct (j =? 0)%Z; [discriminate|]. destruct (zget j (works st)); [|discriminate].
      destruct (create_tasks W st t) as [ts'|]; [|discriminate].
      intros X; inversion X; subst. rewrite (IH ts' eq_refl). reflexivity.
  Qed.

  Lemma filter_entry_nodup {V} i (d : zdict V) :
    NoDup (zkeys d) ->
    filter (fun p => (fst p =? i)%Z) d = match zget i d with Some x => [(i, x)] | None => [] end.
  Proof.
    induction d as [|[k v] t IH]; cbn [zkeys map fst filter zget]; intros Hn; [reflexivity|].
    inversion Hn as [|? ? Hk Ht]; subst. rewrite (Z.eqb_sym i k).
    destruct (k =? i)%Z eqn:E.
    - apply Z.eqb_eq in E; subst k. rewrite (IH Ht).
      destruct (zget i t) eqn:Eg; [|reflexivity].
      exfalso. apply Hk. apply zkeys_zget. unfold zkeys in *. congruence.
    - apply IH; exact Ht.
  Qed.

  Lemma filter_all_In {X} (f : X -> bool) l : (forall x, In x l -> f x = true) -> filter f l = l.
  Proof.
    induction l as [|x t IH]; cbn [filter]; intros H; [reflexivity|].
    rewrite (H x (or_introl eq_refl)), IH; [reflexivity|]. intros y Hy; apply H; right; exact Hy.
  Qed.

  Lemma single_entry {V} i (d : zdict V) :
    (forall j, j <> i -> zget j d = None) -> NoDup (zkeys d) ->
    d = match zget i d with Some x => [(i, x)] | None => [] end.
  Proof.
    intros Honly Hn. etransitivity; [|apply (filter_entry_nodup i d Hn)].
    symmetry. apply filter_all_In. intros [k v] Hin. cbn [fst].
    apply Z.eqb_eq. destruct (Z.eq_dec k i) as [|Hne]; [assumption|].
    exfalso. assert (Hk : In k (zkeys d)) by (apply in_map_iff; exists (k, v); auto).
    apply zkeys_zget in Hk. rewrite (Honly k Hne) in Hk. congruence.
  Qed.

  Lemma filter_tasks i (wbi : work_by_ids) :
    filter (is_i i) (map task_of wbi) = map task_of (filter (fun p => (fst p =? i)%Z) wbi).
  Proof.
    induction wbi as [|p t IH]; cbn [map filter]; [reflexivity|].
    unfold is_i at 1. cbn [task_of t_work]. destruct (fst p =? i)%Z; cbn [map]; rewrite IH; reflexivity.
  Qed.

  Definition prompt_ev (e : Event) : Prop := forall j, ev_fin e j = true.
  Definition arrival_good (e : Event) : Prop :=
    match ev_arrival e with ANew j w => good j w | _ => True end.

  Lemma filter_true {X} (f : X -> bool) l : (forall x, f x = true) -> filter f l = l.
  Proof. intros H. induction l as [|x t IH]; cbn [filter]; [reflexivity|]. rewrite H, IH. reflexivity. Qed.
  Lemma filter_false {X} (f : X -> bool) l : (forall x, f x = false) -> filter f l = [].
  Proof. intros H. induction l as [|x t IH]; cbn [filter]; [reflexivity|]. rewrite H, IH. reflexivity. Qed.

  Lemma sim_reset_unf_S i (S A : State) x : sim i S A -> sim i (set_unfinished (set_unfinished S x) []) A.
  Proof. intros [S1 S2 S3 S4 S5 S6 S7 S8 S9]. constructor; cbn; try assumption. reflexivity. Qed.
  Lemma sim_reset_unf_A i (S A : State) x : sim i S A -> sim i S (set_unfinished (set_unfinished A x) []).
  Proof. intros [S1 S2 S3 S4 S5 S6 S7 S8 S9]. constructor; cbn; try assumption. reflexivity. Qed.
  Lemma own_set_unf (S : State) x : own S -> own (set_unfinished S x).
  Proof. intros [G R]. constructor; assumption. Qed.

  Lemma good_ids_only i (S A : State) wbi :
    sim i S A -> good_ids W A wbi -> forall j, j <> i -> zget j wbi = None.
  Proof.
    intros Hsim Hg j Hj. destruct (zget j wbi) eqn:E; [|reflexivity]. exfalso.
    assert (Hin : In j (zkeys wbi)) by (apply zkeys_zget; congruence).
    unfold good_ids in Hg. rewrite Forall_forall in Hg. destruct (Hg j Hin) as [Hm _].
    apply zmem_zget in Hm. rewrite (sim_only _ _ _ Hsim j Hj) in Hm. congruence.
  Qed.

  Lemma receive_sim e i (S A : State) S1 tdS A1 tdA :
    sim i S A -> own S -> arrival_good e ->
    RECEIVE e S = (S1, tdS) -> RECEIVE (restrict i e) A = (A1, tdA) ->
    sim i S1 A1 /\ own S1 /\ tdS = tdA.
  Proof.
    intros Hsim Hown Hg. unfold receive_from_work_queue, arrival_good in *. cbn [ev_arrival restrict].
    destruct (ev_arrival e) as [| |j w].
    - intros X Y; inversion X; inversion Y; subst. auto.
    - intros X Y; inversion X; inversion Y; subst. auto.
    - destruct (j =? i)%Z eqn:Eji.
      + apply Z.eqb_eq in Eji; subst j. intros X Y; inversion X; inversion Y; subst.
        split; [apply (do_work_par e i w S A Hsim)|]. split; [apply do_work_other; assumption|reflexivity].
      + apply Z.eqb_neq in Eji. intros X Y; inversion X; inversion Y; subst.
        destruct (do_work_other e j w S Hown Hg) as [F O].
        split; [eapply sim_frame; eassumption|]. split; [exact O|reflexivity].
  Qed.

  Lemma arrival_fresh_restrict e i (S A : State) :
    sim i S A -> arrival_fresh W IO e S -> arrival_fresh W IO (restrict i e) A.
  Proof.
    intros Hsim. unfold arrival_fresh. cbn [ev_arrival restrict].
    destruct (ev_arrival e) as [| |j w]; auto.
    destruct (j =? i)%Z eqn:Eji; [|auto]. apply Z.eqb_eq in Eji; subst j.
    unfold zmem. rewrite (sim_work _ _ _ Hsim). auto.
  Qed.

  Lemma run_once_rest_sim e i (S A : State) S' rS A' rA :
    sim i S A -> own S -> INV None S -> INV None A ->
    kernel_ok W IO wq e -> arrival_fresh W IO e S -> arrival_good e -> prompt_ev e ->
    REST e S = (S', rS) -> REST (restrict i e) A = (A', rA) ->
    sim i S' A' /\ own S' /\ rS = rA.
  Proof.
    intros Hsim Hown Hs Ha Hk Hf Hg Hp. unfold run_once_rest.
    change (selected_events W IO wq (restrict i e) A) with (selected_events W IO wq e A).
    destruct (selected_events_ok W IO wq e S Hs Hk) as (wS & nS & ES & HgS).
    destruct (selected_events_ok W IO wq e A Ha Hk) as (wA & nA & EA & HgA).
    rewrite ES, EA. unfold selected_events in ES, EA.
    destruct (select_loop_sim i S A (ev_ready e) [] [] _ wS nS wA nA Hsim Hs Ha Hown ES EA eq_refl) as [Hw <-].
    pose proof (select_loop_nodup _ _ _ _ ES (NoDup_nil _)) as HnS. cbn [fst] in HnS.
    pose proof (select_loop_nodup _ _ _ _ EA (NoDup_nil _)) as HnA. cbn [fst] in HnA.
    pose proof (good_ids_only i S A wA Hsim HgA) as HonlyA.
    destruct (if nS then RECEIVE e S else (S, false)) as [S1 tdS] eqn:ErS.
    destruct (if nS then RECEIVE (restrict i e) A else (A, false)) as [A1 tdA] eqn:ErA.
    assert (H1 : sim i S1 A1 /\ own S1 /\ tdS = tdA).
    { destruct nS; [eapply receive_sim; eassumption|]. inversion ErS; inversion ErA; subst. auto. }
    destruct H1 as (Hsim1 & Hown1 & <-).
    assert (HinvS1 : INV None S1 /\ grow_frame W S S1).
    { destruct nS; [eapply receive_inv; eassumption|]. inversion ErS; subst. split; [exact Hs|]. split; [auto|split; reflexivity]. }
    destruct HinvS1 as [Hs1 (GS1 & _ & _)].
    destruct tdS; [intros X Y; inversion X; inversion Y; subst; auto|].
    (* the alone run has at most the entry of work i *)
    pose proof (single_entry i wA HonlyA HnA) as HwA. rewrite <- Hw in HwA.
    pose proof (filter_entry_nodup i wS HnS) as HfS.
    destruct wS as [|pS wS'].
    - cbn [zget] in HwA. subst wA. intros X Y; inversion X; inversion Y; subst. auto.
    - destruct (create_tasks_ok W S1 (pS :: wS') (good_ids_grow W S S1 _ GS1 HgS)) as (tsS & EcS & HkS). rewrite EcS.
      pose proof (create_tasks_shape S1 _ tsS EcS) as HshS.
      unfold wait_for_tasks. cbn [unfinished set_unfinished].
      rewrite (sim_unfS _ _ _ Hsim1). cbn [app].
      rewrite (filter_true (fun t : task => ev_fin e (t_work t)) tsS) by (intros t; apply Hp).
      rewrite (filter_false (fun t : task => negb (ev_fin e (t_work t))) tsS) by (intros t; rewrite Hp; reflexivity).
      destruct (RUN_TASKS e (set_unfinished (set_unfinished S1 tsS) []) tsS) as [S4 resS] eqn:E4.
      intros X; inversion X as [[HS' HrS]]. subst S' rS. clear X.
      assert (Hlive : forall t, In t tsS -> zmem (t_work t) (works (set_unfinished (set_unfinished S1 tsS) [])) = true).
      { intros t Hin. cbn [works set_unfinished].
        assert (Hin' : In (t_work t) (map t_work tsS)) by (apply in_map; exact Hin).
        rewrite HkS in Hin'. pose proof (good_ids_grow W S S1 _ GS1 HgS) as HgS1.
        unfold good_ids in HgS1. rewrite Forall_forall in HgS1. apply (HgS1 _ Hin'). }
      assert (HtsA : filter (is_i i) tsS = map task_of wA).
      { rewrite HshS, filter_tasks, HfS, HwA. reflexivity. }
      destruct wA as [|pA wA'].
      + (* nothing is ready for work i: the alone run returns at once *)
        intros Y; inversion Y as [[HA' HrA]]. subst A' rA. clear Y.
        assert (E5 : RUN_TASKS e A1 (filter (is_i i) tsS) = (A1, [])) by (rewrite HtsA; reflexivity).
        destruct (run_tasks_sim e i tsS _ A1 S4 resS A1 [] (sim_reset_unf_S i S1 A1 tsS Hsim1)
                    (own_set_unf _ _ (own_set_unf _ _ Hown1)) Hlive E4 E5) as (K1 & K2 & K3).
        destruct (cleanup_finished_sim e i resS S4 A1 K1 K2) as [L1 L2]. rewrite <- K3 in L1.
        split; [exact L1|]. split; [exact L2|reflexivity].
      + assert (Hlen : exists x, pA :: wA' = [(i, x)]).
        { destruct (zget i (pS :: wS')); [eexists; exact HwA|discriminate]. }
        destruct Hlen as [x Hx].
        assert (HgA1 : good_ids W A1 (pA :: wA')).
        { rewrite Hx. unfold good_ids. cbn [zkeys map fst]. constructor; [|constructor].
          rewrite Hx in HgA. unfold good_ids in HgA. cbn [zkeys map fst] in HgA. inversion HgA as [|? ? [Hm Hnz] _]; subst.
          split; [|exact Hnz]. unfold zmem in *. rewrite <- (sim_work _ _ _ Hsim1).
          assert (Hm' : zmem i (works S1) = true).
          { apply GS1. unfold zmem. rewrite (sim_work _ _ _ Hsim). exact Hm. }
          exact Hm'. }
        destruct (create_tasks_ok W A1 _ HgA1) as (tsA & EcA & _). rewrite EcA.
        pose proof (create_tasks_shape A1 _ tsA EcA) as HshA. rewrite <- HtsA in HshA.
        cbn [unfinished set_unfinished ev_fin restrict]. rewrite (sim_unfA _ _ _ Hsim1). cbn [app].
        rewrite (filter_true (fun t : task => ev_fin e (t_work t)) tsA) by (intros t; apply Hp).
        rewrite (filter_false (fun t : task => negb (ev_fin e (t_work t))) tsA) by (intros t; rewrite Hp; reflexivity).
        rewrite run_tasks_restrict.
        destruct (RUN_TASKS e (set_unfinished (set_unfinished A1 tsA) []) tsA) as [A4 resA] eqn:E5.
        rewrite cleanup_finished_restrict.
        intros Y; inversion Y as [[HA' HrA]]. subst A' rA. clear Y. rewrite HshA in E5.
        destruct (run_tasks_sim e i tsS _ _ S4 resS A4 resA
                    (sim_reset_unf_A i _ A1 (filter (is_i i) tsS) (sim_reset_unf_S i S1 A1 tsS Hsim1))
                    (own_set_unf _ _ (own_set_unf _ _ Hown1)) Hlive E4 E5) as (K1 & K2 & K3).
        destruct (cleanup_finished_sim e i resS S4 A4 K1 K2) as [L1 L2]. rewrite <- K3 in L1.
        split; [exact L1|]. split; [exact L2|reflexivity].
  Qed.

  (* ---------------------------------------------------------------- one turn of the loop, and the whole run *)
  Lemma set_tick_sim i (S A : State) x : sim i S A -> sim i (set_tick S x) (set_tick A x).
  Proof. intros [S1 S2 S3 S4 S5 S6 S7 S8 S9]. constructor; cbn; try assumption. reflexivity. Qed.
  Lemma own_set_tick (S : State) x : own S -> own (set_tick S x).
  Proof. intros [G R]. constructor; assumption. Qed.

  Record joint (i : work_id) (S A : State) : Prop := {
    j_sim : sim i S A; j_own : own S; j_invS : INV None S; j_invA : INV None A
  }.

  Lemma loop_body_sim e i (S A : State) S' sS A' sA :
    joint i S A -> env_ok W IO w_get_events w_shutdown wq e S -> arrival_good e -> prompt_ev e ->
    BODY e S = (S', sS) -> BODY (restrict i e) A = (A', sA) ->
    sS = sA /\ joint i S' A' /\ env_ok W IO w_get_events w_shutdown wq (restrict i e) A.
  Proof.
    intros [Hsim Hown Hs Ha] [Hk Hf] Hg Hp. unfold loop_body, run_once.
    rewrite update_selector_restrict.
    destruct (update_selector_sim e i S A Hsim Hown Hs Ha) as [HsimU HownU].
    destruct (update_selector_inv W IO w_get_events w_shutdown wq e S Hs) as [HsU _].
    destruct (update_selector_inv W IO w_get_events w_shutdown wq e A Ha) as [HaU _].
    pose proof (arrival_fresh_restrict e i _ _ HsimU Hf) as HfA.
    assert (HenvA : env_ok W IO w_get_events w_shutdown wq (restrict i e) A).
    { split; [exact Hk|]. rewrite update_selector_restrict. exact HfA. }
    destruct (REST e (UPD e S)) as [S1 rS] eqn:E1. destruct (REST (restrict i e) (UPD e A)) as [A1 rA] eqn:E2.
    destruct (run_once_rest_sim e i _ _ S1 rS A1 rA HsimU HownU HsU HaU Hk Hf Hg Hp E1 E2) as (Hsim1 & Hown1 & <-).
    destruct (run_once_rest_inv W IO w_initialize w_handle_events w_shutdown wq e _ S1 rS HsU Hk Hf E1) as [Hs1 [b ->]].
    destruct (run_once_rest_inv W IO w_initialize w_handle_events w_shutdown wq (restrict i e) _ A1 _ HaU Hk HfA E2) as [Ha1 _].
    destruct b.
    { intros X Y; inversion X; inversion Y; subst. split; [reflexivity|]. split; [constructor; assumption|exact HenvA]. }
    rewrite <- (sim_tick _ _ _ Hsim1). rewrite cleanup_inactive_restrict. cbn [ev_running_set restrict].
    destruct (cleanup_inactive_sim e i S1 A1 Hsim1 Hown1 Hs1 Ha1) as [Hsim2 Hown2].
    pose proof (cleanup_inactive_inv W IO w_shutdown w_is_inactive wq e S1 Hs1) as Hs2.
    pose proof (cleanup_inactive_inv W IO w_shutdown w_is_inactive wq e A1 Ha1) as Ha2.
    destruct (tick_limit <=? tick S1).
    - destruct (ev_running_set e); intros X Y; inversion X; inversion Y; subst.
      + split; [reflexivity|]. split; [constructor; assumption|exact HenvA].
      + split; [reflexivity|]. split; [|exact HenvA].
        constructor; [apply set_tick_sim; exact Hsim2|apply own_set_tick; exact Hown2|apply set_tick_inv; exact Hs2|apply set_tick_inv; exact Ha2].
    - intros X Y; inversion X; inversion Y; subst. split; [reflexivity|]. split; [|exact HenvA].
      constructor; [apply set_tick_sim; exact Hsim1|apply own_set_tick; exact Hown1|apply set_tick_inv; exact Hs1|apply set_tick_inv; exact Ha1].
  Qed.

  Lemma run_forever_sim i evs : forall (S A : State) S' sS A' sA,
    joint i S A ->
    sched_ok W IO w_initialize w_get_events w_handle_events w_shutdown w_is_inactive wq tick_limit evs S ->
    Forall arrival_good evs -> Forall prompt_ev evs ->
    RUN evs S = (S', sS) -> RUN (map (restrict i) evs) A = (A', sA) ->
    sS = sA /\ joint i S' A' /\
    sched_ok W IO w_initialize w_get_events w_handle_events w_shutdown w_is_inactive wq tick_limit (map (restrict i) evs) A.
  Proof.
    induction evs as [|e t IH]; intros S A S' sS A' sA Hj Hs Hg Hp; cbn [run_forever map sched_ok].
    - intros X Y; inversion X; inversion Y; subst. auto.
    - cbn [sched_ok] in Hs. destruct Hs as [He Ht].
      inversion Hg as [|? ? Hg1 Hg2]; subst. inversion Hp as [|? ? Hp1 Hp2]; subst.
      destruct (BODY e S) as [S1 s1] eqn:E1. destruct (BODY (restrict i e) A) as [A1 a1] eqn:E2.
      destruct (loop_body_sim e i S A S1 s1 A1 a1 Hj He Hg1 Hp1 E1 E2) as (<- & Hj1 & HeA).
      destruct s1.
      + intros X Y. destruct (IH S1 A1 S' sS A' sA Hj1 Ht Hg2 Hp2 X Y) as (K1 & K2 & K3). auto.
      + intros X Y; inversion X; inversion Y; subst. auto.
      + intros X Y; inversion X; inversion Y; subst. auto.
  Qed.

  Lemma joint_init i : joint i (init_state W wq) (init_state W wq).
  Proof.
    constructor; try apply inv_init.
    - constructor; reflexivity.
    - constructor; cbn; discriminate.
  Qed.

  (* what work i sees of the final state, spelled out *)
  Definition same_view (i : work_id) (S A : State) : Prop :=
    zget i (works S) = zget i (works A) /\                         (* the work object itself (None once it is over) *)
    zget i (registered S) = zget i (registered A) /\               (* its registered events *)
    (forall f, owner f = i -> zget f (sel S) = zget f (sel A)) /\  (* its descriptors in the selector *)
    gone_of i (gone S) = gone_of i (gone A) /\                     (* the work as it was shut down *)
    os_of i (oslog S) = os_of i (oslog A) /\
    (forall j, j <> i -> zget j (works A) = None).                 (* A really is the run of work i alone *)

  Theorem noninterference : forall evs i S' s A' a,
    sched_ok W IO w_initialize w_get_events w_handle_events w_shutdown w_is_inactive wq tick_limit evs (init_state W wq) ->
    Forall arrival_good evs -> Forall prompt_ev evs ->
    RUN evs (init_state W wq) = (S', s) ->
    RUN (map (restrict i) evs) (init_state W wq) = (A', a) ->
    s = a /\ same_view i S' A' /\ (forall x, s <> Crashed x).
  Proof.
    intros evs i S' s A' a Hs Hg Hp X Y.
    destruct (run_forever_sim i evs _ _ S' s A' a (joint_init i) Hs Hg Hp X Y) as (<- & [[S1 S2 S3 S4 S5 S6 S7 S8 S9] _ _ _] & _).
    split; [reflexivity|]. split; [repeat split; assumption|].
    eapply loop_survives; eassumption.
  Qed.
End NI.
