(* Exec/ThreadlessNI.v — non-interference of the repaired executor loop: what one work sees of a
   run shared with arbitrary other works is what it sees when it runs alone.
   Premises (all visible in the theorem):
   * [disciplined]: every work only ever names descriptors it owns (the assumption documented in
     _update_work_events: "Descriptors of interests returned by work must be unique");
   * [prompt]: tasks complete in the iteration that created them (true of every handler shipped
     with proxy.py: handle_events never yields to the loop); without it the joint run can reap a
     completed task of work i EARLIER than the alone run does (another work's readiness triggers
     asyncio.wait) — a timing difference, see notes/C05.md;
   * [sched_ok]: kernel premises of loop_survives (fresh arrival ids, sane work-queue readiness). *)
From PM Require Import Lib.Bytes Lib.ZDict Lib.ZDictFacts Exec.Threadless Exec.ThreadlessFacts.
From Coq Require Import ZArith Lia.

Section NI.
  Variable W : Type.
  Variable IO : Type.
  Variable w_initialize : W -> IO -> W * result unit.
  Variable w_get_events : W -> IO -> W * result sel_events.
  Variable w_handle_events : W -> list fd -> list fd -> IO -> W * result bool.
  Variable w_shutdown : W -> IO -> W * result unit.
  Variable w_is_inactive : W -> N -> IO -> W * result bool.
  Variable wq : option fd.
  Variable tick_limit : N.
  Variable owner : fd -> work_id.
  Variable good : work_id -> W -> Prop.

  Notation State := (state W).
  Notation Event := (event W IO).
  Notation CLEANUP := (cleanup W IO w_shutdown wq).
  Notation UWE_ONE := (uwe_one W IO).
  Notation UWE_LOOP := (uwe_loop W IO).
  Notation UWE := (update_work_events W IO w_get_events).
  Notation UPD_ONE := (update_selector_one W IO w_get_events w_shutdown wq).
  Notation UPD := (update_selector W IO w_get_events w_shutdown wq).
  Notation DO_WORK := (do_work W IO w_initialize w_shutdown wq).
  Notation RECEIVE := (receive_from_work_queue W IO w_initialize w_shutdown wq).
  Notation RUN_TASK := (run_task W IO w_handle_events).
  Notation RUN_TASKS := (run_tasks W IO w_handle_events).
  Notation CLEANUP_FIN := (cleanup_finished W IO w_shutdown wq).
  Notation REST := (run_once_rest W IO w_initialize w_handle_events w_shutdown wq).
  Notation SCAN := (inactive_scan W IO w_is_inactive).
  Notation CLEANUP_INACTIVE := (cleanup_inactive W IO w_shutdown w_is_inactive wq).
  Notation BODY := (loop_body W IO w_initialize w_get_events w_handle_events w_shutdown w_is_inactive wq tick_limit).
  Notation RUN := (run_forever W IO w_initialize w_get_events w_handle_events w_shutdown w_is_inactive wq tick_limit).
  Notation INV := (inv W wq).

  (* every entry point keeps the work within its own descriptors *)
  Record disciplined : Prop := {
    d_init : forall i w io, good i w -> good i (fst (w_initialize w io));
    d_get : forall i w io, good i w ->
            good i (fst (w_get_events w io)) /\
            forall evs, snd (w_get_events w io) = Ok evs ->
                        forall f m, In (f, m) evs -> (0 <= f)%Z -> owner f = i;
    d_handle : forall i w r wr io, good i w -> good i (fst (w_handle_events w r wr io));
    d_inactive : forall i w c io, good i w -> good i (fst (w_is_inactive w c io))
  }.

  (* the schedule seen by work i alone: the other connections never arrive *)
  Definition restrict (i : work_id) (e : Event) : Event :=
    {| ev_kfail := ev_kfail e; ev_ready := ev_ready e;
       ev_arrival := match ev_arrival e with
                     | ANew j w => if (j =? i)%Z then ANew j w else ANone
                     | a => a
                     end;
       ev_fin := ev_fin e; ev_io := ev_io e; ev_clock := ev_clock e; ev_running_set := ev_running_set e |}.

  Definition gone_of (i : work_id) (g : list (work_id * W)) : list W :=
    map snd (filter (fun p => (fst p =? i)%Z) g).
  Definition os_of (i : work_id) (l : list osop) : list osop :=
    filter (fun o => match o with OsDup f | OsClose f => (f =? i)%Z end) l.

  Lemma gone_of_app i a b : gone_of i (a ++ b) = gone_of i a ++ gone_of i b.
  Proof. unfold gone_of. rewrite filter_app, map_app. reflexivity. Qed.
  Lemma os_of_app i a b : os_of i (a ++ b) = os_of i a ++ os_of i b.
  Proof. unfold os_of. apply filter_app. Qed.

  (* ---------------------------------------------------------------- what work i sees of a state *)
  Record sim (i : work_id) (S A : State) : Prop := {
    sim_work : zget i (works S) = zget i (works A);
    sim_reg : zget i (registered S) = zget i (registered A);
    sim_sel : forall f, owner f = i -> zget f (sel S) = zget f (sel A);
    sim_gone : gone_of i (gone S) = gone_of i (gone A);
    sim_os : os_of i (oslog S) = os_of i (oslog A);
    sim_tick : tick S = tick A;
    sim_unfS : unfinished S = [];
    sim_unfA : unfinished A = [];
    sim_only : forall j, j <> i -> zget j (works A) = None
  }.

  Lemma sim_regs i S A : sim i S A -> regs_of W i S = regs_of W i A.
  Proof. intros H. unfold regs_of. rewrite (sim_reg _ _ _ H). reflexivity. Qed.

  (* all live works are disciplined, and registrations are of owned descriptors *)
  Record own (st : State) : Prop := {
    own_good : forall j w, zget j (works st) = Some w -> good j w;
    own_regs : forall j f m, zget f (regs_of W j st) = Some m -> owner f = j
  }.

  (* ---------------------------------------------------------------- a step on behalf of another work j *)
  Record frame (j : work_id) (S S' : State) : Prop := {
    fr_works : forall k, k <> j -> zget k (works S') = zget k (works S);
    fr_reg : forall k, k <> j -> zget k (registered S') = zget k (registered S);
    fr_sel : forall f, owner f <> j -> zget f (sel S') = zget f (sel S);
    fr_gone : forall k, k <> j -> gone_of k (gone S') = gone_of k (gone S);
    fr_os : forall k, k <> j -> os_of k (oslog S') = os_of k (oslog S);
    fr_tick : tick S' = tick S;
    fr_unf : unfinished S' = unfinished S
  }.

  Lemma frame_refl j S : frame j S S.
  Proof. constructor; reflexivity. Qed.

  Lemma frame_trans j a b c : frame j a b -> frame j b c -> frame j a c.
  Proof.
    intros [A1 A2 A3 A4 A5 A6 A7] [B1 B2 B3 B4 B5 B6 B7]. constructor; intros; try congruence.
    - rewrite B1, A1; auto.
    - rewrite B2, A2; auto.
    - rewrite B3, A3; auto.
    - rewrite B4, A4; auto.
    - rewrite B5, A5; auto.
  Qed.

  Lemma sim_frame i j S S' A : j <> i -> frame j S S' -> sim i S A -> sim i S' A.
  Proof.
    intros Hji [F1 F2 F3 F4 F5 F6 F7] [S1 S2 S3 S4 S5 S6 S7 S8 S9].
    constructor; try assumption.
    - rewrite F1 by auto. exact S1.
    - rewrite F2 by auto. exact S2.
    - intros f Hf. rewrite F3 by congruence. apply S3; exact Hf.
    - rewrite F4 by auto. exact S4.
    - rewrite F5 by auto. exact S5.
    - congruence.
    - congruence.
  Qed.

  Lemma same_core_frame_parts (S S' : State) :
    same_core W S S' ->
    works S' = works S /\ gone S' = gone S /\ oslog S' = oslog S /\ tick S' = tick S /\ unfinished S' = unfinished S.
  Proof. intros (A1&A2&A3&A4&A5&A6). repeat split; assumption. Qed.

  (* ---------------------------------------------------------------- effect of one registration step *)
  Lemma uwe_one_effect e j (S : State) fm S' r :
    UWE_ONE e j S fm = (S', r) ->
    same_core W S S' /\
    (forall k, k <> j -> zget k (registered S') = zget k (registered S)) /\
    (forall g, g <> fst fm -> zget g (sel S') = zget g (sel S)) /\
    ((0 <= fst fm)%Z \/ sel S' = sel S) /\
    (forall g m, zget g (regs_of W j S') = Some m ->
                 (exists m', zget g (regs_of W j S) = Some m') \/ (g = fst fm /\ (0 <= g)%Z)).
  Proof.
    unfold uwe_one. destruct fm as [f m]. cbn [fst].
    change (if zmem j (registered S) then S else set_registered S (zset j [] (registered S))) with (ensure_reg W j S).
    pose proof (ensure_core W j S) as Hc0. pose proof (regs_of_ensure W j j S) as R0.
    assert (Hr0 : forall k, k <> j -> zget k (registered (ensure_reg W j S)) = zget k (registered S)).
    { intros k Hk. unfold ensure_reg. destruct (zmem j (registered S)); [reflexivity|].
      cbn [registered set_registered]. apply zget_zset_other; exact Hk. }
    assert (Hs0 : sel (ensure_reg W j S) = sel S) by (unfold ensure_reg; destruct (zmem j (registered S)); reflexivity).
    set (S0 := ensure_reg W j S) in *. clearbody S0.
    assert (Hbase : same_core W S S0 /\
      (forall k, k <> j -> zget k (registered S0) = zget k (registered S)) /\
      (forall g, g <> f -> zget g (sel S0) = zget g (sel S)) /\
      ((0 <= f)%Z \/ sel S0 = sel S) /\
      (forall g m0, zget g (regs_of W j S0) = Some m0 ->
                 (exists m', zget g (regs_of W j S) = Some m') \/ (g = f /\ (0 <= g)%Z))).
    { split; [exact Hc0|]. split; [exact Hr0|]. split; [intros; rewrite Hs0; reflexivity|]. split; [right; exact Hs0|].
      intros g m0 Hg. left. rewrite R0 in Hg. eexists; exact Hg. }
    assert (Hrec : forall sm', (0 <= f)%Z -> (forall g, g <> f -> zget g sm' = zget g (sel S0)) ->
      same_core W S (record_fd W j f m sm' S0) /\
      (forall k, k <> j -> zget k (registered (record_fd W j f m sm' S0)) = zget k (registered S)) /\
      (forall g, g <> f -> zget g (sel (record_fd W j f m sm' S0)) = zget g (sel S)) /\
      ((0 <= f)%Z \/ sel (record_fd W j f m sm' S0) = sel S) /\
      (forall g m0, zget g (regs_of W j (record_fd W j f m sm' S0)) = Some m0 ->
                 (exists m', zget g (regs_of W j S) = Some m') \/ (g = f /\ (0 <= g)%Z))).
    { intros sm' Hf0 Hsm. split; [|split; [|split; [|split]]].
      - eapply same_core_trans; [exact Hc0|]. repeat split.
      - intros k Hk. unfold record_fd; cbn [registered set_registered]. rewrite zget_zset_other by exact Hk. apply Hr0; exact Hk.
      - intros g Hg. unfold record_fd; cbn [sel set_registered set_sel]. rewrite Hsm by exact Hg. rewrite Hs0; reflexivity.
      - left; exact Hf0.
      - intros g m0 Hg. rewrite regs_of_record, Z.eqb_refl, zget_zset in Hg.
        destruct (g =? f)%Z eqn:Egf; [right; apply Z.eqb_eq in Egf; subst; auto|].
        left. rewrite R0 in Hg. eexists; exact Hg. }
    destruct (zget f (regs_of W j S0)) as [oldmask|] eqn:Eold.
    - destruct (m =? oldmask).
      + intros X; inversion X; subst. exact Hbase.
      + unfold sel_modify. destruct (f <? 0)%Z eqn:Ef0.
        { intros X; inversion X; subst. cbn [sel set_sel]. destruct Hbase as (B1&B2&B3&B4&B5).
          split; [eapply same_core_trans; [exact Hc0|repeat split]|]. split; [exact B2|]. split; [exact B3|]. split; [exact B4|exact B5]. }
        apply Z.ltb_ge in Ef0.
        destruct (zget f (sel S0)) as [[oev odata]|] eqn:Esel.
        * destruct (m =? oev).
          -- intros X; inversion X; subst. apply Hrec; [exact Ef0|]. intros g Hg. apply zget_zset_other; exact Hg.
          -- destruct (zget f (ev_kfail e)).
             ++ intros X; inversion X; subst. destruct Hbase as (B1&B2&B3&B4&B5).
                split; [eapply same_core_trans; [exact Hc0|repeat split]|]. split; [exact B2|].
                split; [intros g Hg; cbn [sel set_sel]; rewrite zget_zdel_other by exact Hg; apply B3; exact Hg|].
                split; [left; exact Ef0|exact B5].
             ++ intros X; inversion X; subst. apply Hrec; [exact Ef0|]. intros g Hg. apply zget_zset_other; exact Hg.
        * intros X; inversion X; subst. destruct Hbase as (B1&B2&B3&B4&B5).
          split; [eapply same_core_trans; [exact Hc0|repeat split]|]. split; [exact B2|]. split; [exact B3|]. split; [exact B4|exact B5].
    - destruct (f =? -1)%Z.
      + intros X; inversion X; subst. exact Hbase.
      + unfold sel_register.
        destruct ((m =? 0) || (3 <? m)); [intros X; inversion X; subst; exact Hbase|].
        destruct (f <? 0)%Z eqn:Ef0; [intros X; inversion X; subst; exact Hbase|]. apply Z.ltb_ge in Ef0.
        destruct (zmem f (sel S0)); [intros X; inversion X; subst; exact Hbase|].
        destruct (zget f (ev_kfail e)); [intros X; inversion X; subst; exact Hbase|].
        intros X; inversion X; subst. apply Hrec; [exact Ef0|]. intros g Hg. apply zget_zset_other; exact Hg.
  Qed.
End NI.
