(* Exec/DispatchLocksFacts.v — the lock discipline keeps the two messages of a hand-off together, for every
   interleaving of any number of dispatcher threads of any number of acceptors. *)
From PM Require Import Lib.Bytes Lib.ZDict Exec.Threadless Exec.Dispatch Exec.DispatchFacts Exec.DispatchLocks.
From Coq Require Import ZArith Lia Permutation.

(* ---------------------------------------------------------------- list updates *)
Lemma nth_error_upd_with {A} (f : A -> A) (l : list A) : forall n m,
  nth_error (upd_with n f l) m = if Nat.eqb n m then option_map f (nth_error l m) else nth_error l m.
Proof.
  induction l as [|x t IH]; intros n m.
  - destruct n, m; cbn [upd_with nth_error option_map Nat.eqb]; try reflexivity. destruct (Nat.eqb n m); reflexivity.
  - destruct n, m; cbn [upd_with nth_error Nat.eqb option_map]; try reflexivity. apply IH.
Qed.

Lemma length_upd_with {A} (f : A -> A) (l : list A) : forall n, length (upd_with n f l) = length l.
Proof. induction l as [|x t IH]; intros [|n]; cbn [upd_with length]; try reflexivity. rewrite IH. reflexivity. Qed.

Lemma nth_app_at_same (pipes : list (list msg)) : forall k ms, (k < length pipes)%nat ->
  nth k (app_at k ms pipes) [] = nth k pipes [] ++ ms.
Proof.
  unfold app_at. induction pipes as [|x t IH]; intros k ms H; [cbn [length] in H; lia|].
  destruct k as [|k]; cbn [upd_with nth]; [reflexivity|]. apply IH. cbn [length] in H. lia.
Qed.

Lemma nth_app_at_other (pipes : list (list msg)) : forall k k' ms, k <> k' ->
  nth k' (app_at k ms pipes) [] = nth k' pipes [].
Proof.
  unfold app_at. induction pipes as [|x t IH]; intros k k' ms H; [destruct k; reflexivity|].
  destruct k as [|k], k' as [|k']; cbn [upd_with nth]; try reflexivity; [congruence|]. apply IH. congruence.
Qed.

Lemma nth_error_repeat_inv {A} (x y : A) n : forall m, nth_error (repeat x n) m = Some y -> y = x /\ (m < n)%nat.
Proof.
  induction n as [|n IH]; intros m H; [destruct m; discriminate|].
  destruct m as [|m]; cbn [repeat nth_error] in H; [inversion H; split; [reflexivity|lia]|].
  destruct (IH m H) as [E L]. split; [exact E|lia].
Qed.

Lemma nth_repeat_nil {A} n k : nth k (repeat (@nil A) n) [] = [].
Proof. revert k. induction n as [|n IH]; intros [|k]; cbn [repeat nth]; try reflexivity. apply IH. Qed.

Lemma NoDup_app_tid {A} (l : list A) x : NoDup l -> ~ In x l -> NoDup (l ++ [x]).
Proof.
  intros ND Hn. induction ND as [|a l Ha ND IH]; cbn [app]; [constructor; [intros []|constructor]|].
  constructor.
  - rewrite in_app_iff. intros [H|[H|[]]]; [contradiction|]. subst. apply Hn. left. reflexivity.
  - apply IH. intro H. apply Hn. right. exact H.
Qed.

(* ---------------------------------------------------------------- threads and program counters *)
Lemma at_det ths pcs t th p th' p' : at_ ths pcs t th p -> at_ ths pcs t th' p' -> th = th' /\ p = p'.
Proof. intros [A B] [A' B']. rewrite A in A'. rewrite B in B'. inversion A'. inversion B'. split; reflexivity. Qed.

Lemma at_upd ths pcs tid th p p' : at_ ths pcs tid th p ->
  forall t th' q, at_ ths (upd tid p' pcs) t th' q <-> (t = tid /\ th' = th /\ q = p') \/ (t <> tid /\ at_ ths pcs t th' q).
Proof.
  intros [H1 H2] t th' q. unfold at_, upd. rewrite nth_error_upd_with. destruct (Nat.eqb_spec tid t) as [E|E].
  - subst t. rewrite H2. cbn [option_map]. split.
    + intros [A B]. left. rewrite H1 in A. inversion A. inversion B. auto.
    + intros [(_ & -> & ->)|(C & _)]; [auto|congruence].
  - split; [intros H; right; split; [congruence|exact H]|]. intros [(C & _)|(_ & C)]; [congruence|exact C].
Qed.

Lemma member_same ths pcs tid th p p' k :
  at_ ths pcs tid th p -> (handle_sent p = handle_sent p' \/ t_queue th <> k) ->
  forall t, (exists th' q, at_ ths pcs t th' q /\ t_queue th' = k /\ handle_sent q = true) <->
            (exists th' q, at_ ths (upd tid p' pcs) t th' q /\ t_queue th' = k /\ handle_sent q = true).
Proof.
  intros Hat Hs t. split.
  - intros (th' & q & A & B & C). destruct (Nat.eq_dec t tid) as [E|E].
    + subst t. destruct (at_det _ _ _ _ _ _ _ Hat A) as [E1 E2]. subst th' q.
      exists th, p'. split; [apply (at_upd _ _ _ _ _ p' Hat); left; auto|]. split; [exact B|].
      destruct Hs as [Hs|Hs]; [congruence|contradiction].
    + exists th', q. split; [apply (at_upd _ _ _ _ _ p' Hat); right; auto|auto].
  - intros (th' & q & A & B & C). apply (at_upd _ _ _ _ _ p' Hat) in A. destruct A as [(E1 & E2 & E3)|(E & A)].
    + subst t th' q. exists th, p. split; [exact Hat|]. split; [exact B|]. destruct Hs as [Hs|Hs]; [congruence|contradiction].
    + exists th', q. auto.
Qed.

(* ---------------------------------------------------------------- preservation of pipe_ok *)
Lemma pipe_ok_other ths g g' tid th p p' k :
  at_ ths (g_pcs g) tid th p -> g_pcs g' = upd tid p' (g_pcs g) -> pipe g' k = pipe g k ->
  (t_queue th <> k \/ (handle_sent p = handle_sent p' /\ p <> PAddrSent /\ p' <> PAddrSent)) ->
  pipe_ok ths g k -> pipe_ok ths g' k.
Proof.
  intros Hat Hpcs Hpipe Hc (order & ND & Mem & Dis). exists order. rewrite Hpcs, Hpipe. split; [exact ND|]. split.
  - intro t. rewrite Mem. apply member_same with (p := p) (th := th); [exact Hat|]. destruct Hc as [Hc|(Hc & _)]; auto.
  - destruct Dis as [(E & No)|(t0 & th0 & A0 & Q0 & E)].
    + left. split; [exact E|]. intros t th' A. apply (at_upd _ _ _ _ _ p' Hat) in A. destruct A as [(E1 & E2 & E3)|(N & A)].
      * subst t th'. destruct Hc as [Hc|(_ & _ & Hc)]; [exact Hc|congruence].
      * eapply No; eauto.
    + right. exists t0, th0. split; [|split; assumption]. apply (at_upd _ _ _ _ _ p' Hat).
      destruct (Nat.eq_dec t0 tid) as [E0|E0]; [|right; auto].
      subst t0. destruct (at_det _ _ _ _ _ _ _ Hat A0) as [E1 E2]. subst th0 p.
      destruct Hc as [Hc|(_ & Hc & _)]; [contradiction|congruence].
Qed.

Lemma pipe_ok_addr ths g g' tid th :
  at_ ths (g_pcs g) tid th PLocked -> mutex ths g -> g_pcs g' = upd tid PAddrSent (g_pcs g) ->
  pipe g' (t_queue th) = pipe g (t_queue th) ++ addr_part th ->
  pipe_ok ths g (t_queue th) -> pipe_ok ths g' (t_queue th).
Proof.
  intros Hat Hmx Hpcs Hpipe (order & ND & Mem & Dis). exists order. rewrite Hpcs, Hpipe. split; [exact ND|]. split.
  - intro t. rewrite Mem. apply member_same with (p := PLocked) (th := th); [exact Hat|]. left. reflexivity.
  - right. exists tid, th. split; [apply (at_upd _ _ _ _ _ PAddrSent Hat); left; auto|]. split; [reflexivity|].
    destruct Dis as [(E & _)|(t0 & th0 & A0 & Q0 & _)]; [rewrite E; reflexivity|].
    assert (t0 = tid) as E0 by (apply (Hmx _ _ _ _ _ _ A0 Hat Q0); reflexivity).
    subst t0. destruct (at_det _ _ _ _ _ _ _ Hat A0) as [_ C]. discriminate C.
Qed.

Lemma blocks_app ths o1 o2 : blocks ths (o1 ++ o2) = blocks ths o1 ++ blocks ths o2.
Proof. unfold blocks. apply flat_map_app. Qed.

Lemma block_split th : block th = addr_part th ++ [MHandle (t_conn th)].
Proof. reflexivity. Qed.

Lemma pipe_ok_handle ths g g' tid th :
  at_ ths (g_pcs g) tid th PAddrSent -> mutex ths g -> g_pcs g' = upd tid PHandleSent (g_pcs g) ->
  pipe g' (t_queue th) = pipe g (t_queue th) ++ [MHandle (t_conn th)] ->
  pipe_ok ths g (t_queue th) -> pipe_ok ths g' (t_queue th).
Proof.
  intros Hat Hmx Hpcs Hpipe (order & ND & Mem & Dis).
  assert (Hnot : ~ In tid order).
  { intro Hin. apply Mem in Hin. destruct Hin as (th' & q & A & _ & C).
    destruct (at_det _ _ _ _ _ _ _ Hat A) as [_ E]. subst q. discriminate C. }
  exists (order ++ [tid]). rewrite Hpcs, Hpipe. split; [|split].
  - apply NoDup_app_tid; assumption.
  - intro t. rewrite in_app_iff. split.
    + intros [Hin|[E|[]]].
      * apply Mem in Hin. destruct Hin as (th' & q & A & B & C). exists th', q. split; [|auto].
        apply (at_upd _ _ _ _ _ PHandleSent Hat). right. split; [|exact A]. intro E. subst t. apply Hnot. apply Mem. eauto.
      * subst t. exists th, PHandleSent. split; [apply (at_upd _ _ _ _ _ PHandleSent Hat); left; auto|auto].
    + intros (th' & q & A & B & C). apply (at_upd _ _ _ _ _ PHandleSent Hat) in A. destruct A as [(E & _)|(N & A)].
      * right. left. auto.
      * left. apply Mem. eauto.
  - left. split.
    + destruct Dis as [(_ & No)|(t0 & th0 & A0 & Q0 & E)]; [exfalso; exact (No _ _ Hat eq_refl)|].
      assert (t0 = tid) as E0 by (apply (Hmx _ _ _ _ _ _ A0 Hat Q0); reflexivity).
      subst t0. destruct (at_det _ _ _ _ _ _ _ Hat A0) as [E1 _]. subst th0.
      rewrite E, blocks_app. unfold blocks at 3. cbn [flat_map]. destruct Hat as [Hth _]. rewrite Hth.
      rewrite app_nil_r, block_split, app_assoc. reflexivity.
    + intros t th' A Q. apply (at_upd _ _ _ _ _ PHandleSent Hat) in A. destruct A as [(_ & _ & C)|(N & A)]; [discriminate C|].
      apply N. apply (Hmx _ _ _ _ _ _ A Hat Q); reflexivity.
Qed.

(* ---------------------------------------------------------------- the lock table *)
Lemma lock_free_spec held l : lock_free held l = true -> forall t, ~ In (l, t) held.
Proof.
  unfold lock_free. intros H t Hin. rewrite forallb_forall in H. specialize (H _ Hin). cbn [fst] in H.
  rewrite Nat.eqb_refl in H. discriminate H.
Qed.

Lemma in_release held l l' t : In (l', t) (release held l) <-> In (l', t) held /\ l' <> l.
Proof.
  unfold release. rewrite filter_In. cbn [fst]. split; intros [H1 H2]; (split; [exact H1|]).
  - intro E. subst. rewrite Nat.eqb_refl in H2. discriminate H2.
  - apply Bool.negb_true_iff. apply Nat.eqb_neq. exact H2.
Qed.

Definition held_crit ths pcs (held : list (nat * nat)) : Prop :=
  forall l t, In (l, t) held -> exists th' q, at_ ths pcs t th' q /\ t_lock th' = l /\ critical q = true.
Definition crit_held ths pcs (held : list (nat * nat)) : Prop :=
  forall t th' q, at_ ths pcs t th' q -> critical q = true -> In (t_lock th', t) held.
Definition held_fun (held : list (nat * nat)) : Prop :=
  forall l t1 t2, In (l, t1) held -> In (l, t2) held -> t1 = t2.

Lemma locks_keep ths pcs held tid th p p' :
  at_ ths pcs tid th p -> critical p = true -> critical p' = true ->
  held_crit ths pcs held -> crit_held ths pcs held ->
  held_crit ths (upd tid p' pcs) held /\ crit_held ths (upd tid p' pcs) held.
Proof.
  intros Hat Cp Cp' I1 I2. split.
  - intros l t Hin. destruct (I1 _ _ Hin) as (th' & q & A & L & C). destruct (Nat.eq_dec t tid) as [E|E].
    + subst t. destruct (at_det _ _ _ _ _ _ _ Hat A) as [E1 E2]. subst th' q.
      exists th, p'. split; [apply (at_upd _ _ _ _ _ p' Hat); left; auto|auto].
    + exists th', q. split; [apply (at_upd _ _ _ _ _ p' Hat); right; auto|auto].
  - intros t th' q A C. apply (at_upd _ _ _ _ _ p' Hat) in A. destruct A as [(E1 & E2 & E3)|(N & A)].
    + subst t th' q. exact (I2 _ _ _ Hat Cp).
    + exact (I2 _ _ _ A C).
Qed.

Lemma locks_acquire ths pcs held tid th :
  at_ ths pcs tid th PStart -> lock_free held (t_lock th) = true ->
  held_crit ths pcs held -> crit_held ths pcs held -> held_fun held ->
  held_crit ths (upd tid PLocked pcs) ((t_lock th, tid) :: held) /\
  crit_held ths (upd tid PLocked pcs) ((t_lock th, tid) :: held) /\
  held_fun ((t_lock th, tid) :: held).
Proof.
  intros Hat Hf I1 I2 I3. pose proof (lock_free_spec _ _ Hf) as Hfree. split; [|split].
  - intros l t [E|Hin].
    + inversion E. subst l t. exists th, PLocked. split; [apply (at_upd _ _ _ _ _ PLocked Hat); left; auto|auto].
    + destruct (I1 _ _ Hin) as (th' & q & A & L & C). exists th', q. split; [|auto].
      apply (at_upd _ _ _ _ _ PLocked Hat). right. split; [|exact A]. intro E. subst t.
      destruct (at_det _ _ _ _ _ _ _ Hat A) as [_ E2]. subst q. discriminate C.
  - intros t th' q A C. apply (at_upd _ _ _ _ _ PLocked Hat) in A. destruct A as [(E1 & E2 & E3)|(N & A)].
    + subst t th' q. left. reflexivity.
    + right. exact (I2 _ _ _ A C).
  - intros l t1 t2 [E1|H1] [E2|H2].
    + inversion E1. inversion E2. congruence.
    + inversion E1. subst l t1. exfalso. exact (Hfree _ H2).
    + inversion E2. subst l t2. exfalso. exact (Hfree _ H1).
    + exact (I3 _ _ _ H1 H2).
Qed.

Lemma locks_release ths pcs held tid th :
  at_ ths pcs tid th PClosed ->
  held_crit ths pcs held -> crit_held ths pcs held -> held_fun held ->
  held_crit ths (upd tid PDone pcs) (release held (t_lock th)) /\
  crit_held ths (upd tid PDone pcs) (release held (t_lock th)) /\
  held_fun (release held (t_lock th)).
Proof.
  intros Hat I1 I2 I3. pose proof (I2 _ _ _ Hat eq_refl) as Hmine. split; [|split].
  - intros l t Hin. apply in_release in Hin. destruct Hin as [Hin Hne].
    destruct (I1 _ _ Hin) as (th' & q & A & L & C). exists th', q. split; [|auto].
    apply (at_upd _ _ _ _ _ PDone Hat). right. split; [|exact A]. intro E. subst t.
    destruct (at_det _ _ _ _ _ _ _ Hat A) as [E1 _]. subst th'. congruence.
  - intros t th' q A C. apply (at_upd _ _ _ _ _ PDone Hat) in A. destruct A as [(E1 & E2 & E3)|(N & A)].
    + subst q. discriminate C.
    + apply in_release. split; [exact (I2 _ _ _ A C)|]. intro E. apply N.
      pose proof (I2 _ _ _ A C) as H. rewrite E in H. exact (I3 _ _ _ H Hmine).
  - intros l t1 t2 H1 H2. apply in_release in H1. apply in_release in H2. destruct H1 as [H1 _], H2 as [H2 _].
    exact (I3 _ _ _ H1 H2).
Qed.

(* ---------------------------------------------------------------- the invariant is inductive *)
Lemma Inv_mutex ths g : consistent ths -> Inv ths g -> mutex ths g.
Proof.
  intros Hc HI t1 t2 th1 th2 p1 p2 A1 A2 Q C1 C2.
  pose proof (inv_crit_held _ _ HI _ _ _ A1 C1) as H1. pose proof (inv_crit_held _ _ HI _ _ _ A2 C2) as H2.
  destruct A1 as [X1 _], A2 as [X2 _]. rewrite (Hc _ _ _ _ X1 X2 Q) in H1. exact (inv_held_fun _ _ HI _ _ _ H1 H2).
Qed.

Lemma Inv_step ths tid g g' : consistent ths -> Inv ths g -> step ths tid g = Some g' -> Inv ths g'.
Proof.
  intros Hc HI Hs. pose proof (Inv_mutex _ _ Hc HI) as Hmx. unfold step in Hs.
  destruct (nth_error ths tid) as [th|] eqn:Hth; [|discriminate Hs].
  destruct (nth_error (g_pcs g) tid) as [p|] eqn:Hp; [|discriminate Hs].
  assert (Hat : at_ ths (g_pcs g) tid th p) by (split; assumption).
  destruct HI as [I0 I1 I2 I3 I4].
  destruct p.
  - (* with work_lock: acquire *)
    destruct (lock_free (g_held g) (t_lock th)) eqn:Hf; [|discriminate Hs]. inversion Hs. subst g'. clear Hs.
    destruct (locks_acquire _ _ _ _ _ Hat Hf I1 I2 I3) as (J1 & J2 & J3).
    constructor; cbn [g_held g_pipes g_pcs]; [unfold upd; rewrite length_upd_with; exact I0|exact J1|exact J2|exact J3|].
    intros k Hk. apply (pipe_ok_other ths g _ tid th PStart PLocked k Hat); [reflexivity|reflexivity| |exact (I4 k Hk)].
    right. repeat split; discriminate.
  - (* work_queue.send(addr) unless unix *)
    inversion Hs. subst g'. clear Hs.
    destruct (locks_keep _ _ _ _ _ _ PAddrSent Hat eq_refl eq_refl I1 I2) as (J1 & J2).
    constructor; cbn [g_held g_pipes g_pcs]; [unfold upd; rewrite length_upd_with; exact I0|exact J1|exact J2|exact I3|].
    intros k Hk. unfold app_at in Hk. rewrite length_upd_with in Hk. destruct (Nat.eq_dec (t_queue th) k) as [E|E].
    + subst k. apply (pipe_ok_addr ths g _ tid th Hat Hmx); [reflexivity| |exact (I4 _ Hk)].
      unfold pipe. cbn [g_pipes]. apply nth_app_at_same. exact Hk.
    + apply (pipe_ok_other ths g _ tid th PLocked PAddrSent k Hat); [reflexivity| |left; exact E|exact (I4 k Hk)].
      unfold pipe. cbn [g_pipes]. apply nth_app_at_other. exact E.
  - (* send_handle *)
    inversion Hs. subst g'. clear Hs.
    destruct (locks_keep _ _ _ _ _ _ PHandleSent Hat eq_refl eq_refl I1 I2) as (J1 & J2).
    constructor; cbn [g_held g_pipes g_pcs]; [unfold upd; rewrite length_upd_with; exact I0|exact J1|exact J2|exact I3|].
    intros k Hk. unfold app_at in Hk. rewrite length_upd_with in Hk. destruct (Nat.eq_dec (t_queue th) k) as [E|E].
    + subst k. apply (pipe_ok_handle ths g _ tid th Hat Hmx); [reflexivity| |exact (I4 _ Hk)].
      unfold pipe. cbn [g_pipes]. apply nth_app_at_same. exact Hk.
    + apply (pipe_ok_other ths g _ tid th PAddrSent PHandleSent k Hat); [reflexivity| |left; exact E|exact (I4 k Hk)].
      unfold pipe. cbn [g_pipes]. apply nth_app_at_other. exact E.
  - (* conn.close() *)
    inversion Hs. subst g'. clear Hs.
    destruct (locks_keep _ _ _ _ _ _ PClosed Hat eq_refl eq_refl I1 I2) as (J1 & J2).
    constructor; cbn [g_held g_pipes g_pcs]; [unfold upd; rewrite length_upd_with; exact I0|exact J1|exact J2|exact I3|].
    intros k Hk. apply (pipe_ok_other ths g _ tid th PHandleSent PClosed k Hat); [reflexivity|reflexivity| |exact (I4 k Hk)].
    right. repeat split; discriminate.
  - (* leaving the with block: release *)
    inversion Hs. subst g'. clear Hs.
    destruct (locks_release _ _ _ _ _ Hat I1 I2 I3) as (J1 & J2 & J3).
    constructor; cbn [g_held g_pipes g_pcs]; [unfold upd; rewrite length_upd_with; exact I0|exact J1|exact J2|exact J3|].
    intros k Hk. apply (pipe_ok_other ths g _ tid th PClosed PDone k Hat); [reflexivity|reflexivity| |exact (I4 k Hk)].
    right. repeat split; discriminate.
  - discriminate Hs.
Qed.

Lemma step_pipes_length ths tid g g' : step ths tid g = Some g' -> length (g_pipes g') = length (g_pipes g).
Proof.
  unfold step. destruct (nth_error ths tid) as [th|]; [|discriminate]. destruct (nth_error (g_pcs g) tid) as [p|]; [|discriminate].
  destruct p; try destruct (lock_free _ _); intro H; inversion H; cbn [g_pipes]; try reflexivity;
    unfold app_at; apply length_upd_with.
Qed.

Lemma Inv_init ths npipes : Inv ths (init_gstate npipes (length ths)).
Proof.
  constructor; cbn [init_gstate g_held g_pipes g_pcs].
  - apply repeat_length.
  - intros l t [].
  - intros t th p [_ A] C. apply nth_error_repeat_inv in A. destruct A as [E _]. subst p. discriminate C.
  - intros l t1 t2 [].
  - intros k _. exists []. split; [constructor|]. split.
    + intro t. split; [intros []|]. intros (th & p & [_ A] & _ & C).
      apply nth_error_repeat_inv in A. destruct A as [E _]. subst p. discriminate C.
    + left. split; [unfold pipe; cbn [g_pipes blocks flat_map]; apply nth_repeat_nil|].
      intros t th [_ A] _. apply nth_error_repeat_inv in A. destruct A as [E _]. discriminate E.
Qed.

Lemma Inv_run ths sched : forall g, consistent ths -> Inv ths g -> Inv ths (run ths sched g).
Proof.
  induction sched as [|tid rest IH]; intros g Hc HI; cbn [run]; [exact HI|].
  apply IH; [exact Hc|]. destruct (step ths tid g) as [g'|] eqn:E; [exact (Inv_step _ _ _ _ Hc HI E)|exact HI].
Qed.

Lemma run_app ths s1 : forall s2 g, run ths (s1 ++ s2) g = run ths s2 (run ths s1 g).
Proof. induction s1 as [|t s1 IH]; intros s2 g; cbn [app run]; [reflexivity|apply IH]. Qed.

Lemma run_pipes_length ths sched : forall g, length (g_pipes (run ths sched g)) = length (g_pipes g).
Proof.
  induction sched as [|tid rest IH]; intros g; cbn [run]; [reflexivity|]. rewrite IH.
  destruct (step ths tid g) as [g'|] eqn:E; [exact (step_pipes_length _ _ _ _ E)|reflexivity].
Qed.

(* every state the locks allow, from the initial state *)
Theorem Inv_reachable ths npipes sched :
  consistent ths -> Inv ths (run ths sched (init_gstate npipes (length ths))).
Proof. intro Hc. apply Inv_run; [exact Hc|apply Inv_init]. Qed.

(* ---------------------------------------------------------------- what the invariant says, readable *)
Lemma all_done_spec g : all_done g = true -> forall t p, nth_error (g_pcs g) t = Some p -> p = PDone.
Proof.
  unfold all_done. intros H t p E. rewrite forallb_forall in H. specialize (H _ (nth_error_In _ _ E)).
  destruct p; try discriminate H; reflexivity.
Qed.

(* mutual exclusion on every pipe, and: a pipe none of whose threads is inside its critical section (in particular a pipe
   whose lock is free) holds complete blocks only - those of the threads routed to it that have returned *)
Theorem dispatch_invariant ths npipes sched :
  consistent ths ->
  let g := run ths sched (init_gstate npipes (length ths)) in
  mutex ths g /\
  forall k, (k < npipes)%nat -> quiet ths g k ->
    exists order, NoDup order /\
      (forall tid, In tid order <-> exists th, at_ ths (g_pcs g) tid th PDone /\ t_queue th = k) /\
      pipe g k = blocks ths order.
Proof.
  intros Hc g. pose proof (Inv_reachable ths npipes sched Hc) as HI. fold g in HI. split; [exact (Inv_mutex _ _ Hc HI)|].
  intros k Hk Hq.
  assert (Hk' : (k < length (g_pipes g))%nat).
  { unfold g. rewrite run_pipes_length. cbn [init_gstate g_pipes]. rewrite repeat_length. exact Hk. }
  destruct (inv_pipes _ _ HI k Hk') as (order & ND & Mem & Dis). exists order. split; [exact ND|]. split.
  - intro t. rewrite Mem. split.
    + intros (th & p & A & Q & C). exists th. split; [|exact Q]. pose proof (Hq _ _ _ A Q) as Hn.
      destruct p; try discriminate C; try discriminate Hn. exact A.
    + intros (th & A & Q). exists th, PDone. auto.
  - destruct Dis as [(E & _)|(t0 & th0 & A0 & Q0 & _)]; [exact E|]. pose proof (Hq _ _ _ A0 Q0) as Hn. discriminate Hn.
Qed.

(* a thread holds its lock throughout its critical section, so a free lock means no thread of that lock is inside *)
Lemma free_lock_quiet ths g k :
  Inv ths g ->
  (forall tid th, nth_error ths tid = Some th -> t_queue th = k -> lock_free (g_held g) (t_lock th) = true) ->
  quiet ths g k.
Proof.
  intros HI Hfree t th p A Q. destruct (critical p) eqn:C; [|reflexivity]. exfalso.
  pose proof (inv_crit_held _ _ HI _ _ _ A C) as Hin. destruct A as [A _].
  exact (lock_free_spec _ _ (Hfree _ _ A Q) _ Hin).
Qed.

Definition on_pipe (ths : list thread) (k : nat) (t : nat) : bool :=
  match nth_error ths t with Some th => Nat.eqb (t_queue th) k | None => false end.

(* all threads returned: every pipe is a permutation, at block granularity, of the threads routed to it *)
Theorem dispatch_atomic_threads ths npipes sched :
  consistent ths ->
  let g := run ths sched (init_gstate npipes (length ths)) in
  all_done g = true ->
  forall k, (k < npipes)%nat ->
    exists order, Permutation order (filter (on_pipe ths k) (seq 0 (length ths))) /\ pipe g k = blocks ths order.
Proof.
  intros Hc g Hd k Hk. pose proof (Inv_reachable ths npipes sched Hc) as HI. fold g in HI.
  assert (Hk' : (k < length (g_pipes g))%nat).
  { unfold g. rewrite run_pipes_length. cbn [init_gstate g_pipes]. rewrite repeat_length. exact Hk. }
  destruct (inv_pipes _ _ HI k Hk') as (order & ND & Mem & Dis). exists order. split.
  - apply NoDup_Permutation; [exact ND|apply NoDup_filter; apply seq_NoDup|].
    intro t. rewrite Mem, filter_In, in_seq. unfold on_pipe. split.
    + intros (th & p & [A B] & Q & _). split; [split; [lia|]|].
      * cbn [plus]. apply nth_error_Some. congruence.
      * rewrite A. apply Nat.eqb_eq. exact Q.
    + intros [[_ L] Q]. destruct (nth_error ths t) as [th|] eqn:A; [|discriminate Q].
      destruct (nth_error (g_pcs g) t) as [p|] eqn:B.
      * exists th, p. split; [split; assumption|]. split; [apply Nat.eqb_eq; exact Q|].
        rewrite (all_done_spec _ Hd _ _ B). reflexivity.
      * exfalso. apply nth_error_None in B. rewrite (inv_len _ _ HI) in B. cbn [plus] in L. lia.
  - destruct Dis as [(E & _)|(t0 & th0 & [_ B0] & _)]; [exact E|]. pose proof (all_done_spec _ Hd _ _ B0) as C. discriminate C.
Qed.

(* no deadlock: while some thread has not returned, some thread can move *)
Lemma forallb_false_ex {A} (f : A -> bool) l : forallb f l = false -> exists x, In x l /\ f x = false.
Proof.
  induction l as [|a l IH]; cbn [forallb]; [discriminate|]. intro H. destruct (f a) eqn:E.
  - destruct (IH H) as (x & I & F). exists x. split; [right; exact I|exact F].
  - exists a. split; [left; reflexivity|exact E].
Qed.

Lemma critical_can_step ths g t th p :
  at_ ths (g_pcs g) t th p -> critical p = true -> exists g', step ths t g = Some g'.
Proof. intros [A B] C. unfold step. rewrite A, B. destruct p; try discriminate C; eexists; reflexivity. Qed.

Theorem dispatch_progress ths g :
  Inv ths g -> all_done g = false -> exists tid g', step ths tid g = Some g'.
Proof.
  intros HI Hd. unfold all_done in Hd. destruct (forallb_false_ex _ _ Hd) as (p & Hin & Hp).
  destruct (In_nth_error _ _ Hin) as (t & B).
  destruct (nth_error ths t) as [th|] eqn:A.
  2:{ exfalso. apply nth_error_None in A. assert (t < length (g_pcs g))%nat by (apply nth_error_Some; congruence).
      rewrite (inv_len _ _ HI) in H. lia. }
  destruct (critical p) eqn:C.
  - exists t. apply (critical_can_step ths g t th p); [split; assumption|exact C].
  - destruct p; try discriminate C; try discriminate Hp.
    destruct (lock_free (g_held g) (t_lock th)) eqn:F.
    + exists t. unfold step. rewrite A, B, F. eexists. reflexivity.
    + unfold lock_free in F. destruct (forallb_false_ex _ _ F) as ([l t'] & Hin' & _).
      destruct (inv_held_crit _ _ HI _ _ Hin') as (th' & q & A' & _ & C'). exists t'.
      exact (critical_can_step ths g t' th' q A' C').
Qed.

(* ---------------------------------------------------------------- the threads Acceptor._work starts *)
(* thread th is what _work starts for connection c when every acceptor has the shared pool *)
Definition spawned (nw : N) (pids : list N) (locks : list nat) (unix : bool) (c : conn) (th : thread) : Prop :=
  t_queue th = route nw c /\ nth_error locks (route nw c) = Some (t_lock th) /\
  nth_error pids (route nw c) = Some (t_pid th) /\
  t_conn th = c_fd c /\ t_addr th = c_addr c /\ t_unix th = unix.

Lemma nth_error_seq n : forall s i, (i < n)%nat -> nth_error (seq s n) i = Some (s + i)%nat.
Proof.
  induction n as [|n IH]; intros s i H; [lia|]. destruct i as [|i]; cbn [seq nth_error]; [f_equal; lia|].
  rewrite IH by lia. f_equal. lia.
Qed.

Lemma nth_error_lt {A} (l : list A) i : (i < length l)%nat -> exists x, nth_error l i = Some x.
Proof. intro H. destruct (nth_error l i) as [x|] eqn:E; [eexists; reflexivity|]. apply nth_error_None in E. lia. Qed.

(* _work never raises and takes pid, pipe and lock at the SAME position: the pipe of worker [index] under the lock
   stored at [index] *)
Theorem work_spawned nw pids locks unix idd total addr f :
  nw <> 0 -> length pids = N.to_nat nw -> length locks = N.to_nat nw ->
  exists th, work nw (shared_pool nw pids locks) unix idd total addr f = Ok th /\
             spawned nw pids locks unix (mk_conn idd total addr f) th.
Proof.
  intros Hn Hp Hl. unfold work. apply N.eqb_neq in Hn as Hn'. rewrite Hn'.
  pose proof (worker_index_in_range total idd nw Hn) as Hi.
  assert (Hi' : (N.to_nat (worker_index total idd nw) < N.to_nat nw)%nat) by lia.
  unfold py_index, shared_pool. cbn [executor_pids executor_queues executor_locks].
  destruct (nth_error_lt pids _ ltac:(rewrite Hp; exact Hi')) as (pid & Ep).
  destruct (nth_error_lt locks _ ltac:(rewrite Hl; exact Hi')) as (l & El).
  rewrite Ep, (nth_error_seq _ 0 _ Hi'), El. cbn [bind plus]. eexists. split; [reflexivity|].
  unfold spawned, route. cbn [t_queue t_lock t_pid t_conn t_addr t_unix c_idd c_total c_addr c_fd]. auto 10.
Qed.

Theorem spawn_all_spawned nw pids locks unix cs :
  nw <> 0 -> length pids = N.to_nat nw -> length locks = N.to_nat nw ->
  exists ths, spawn_all work nw (shared_pool nw pids locks) unix cs = Ok ths /\
              Forall2 (spawned nw pids locks unix) cs ths.
Proof.
  intros Hn Hp Hl. induction cs as [|c rest IH]; cbn [spawn_all]; [exists []; split; [reflexivity|constructor]|].
  destruct (work_spawned nw pids locks unix (c_idd c) (c_total c) (c_addr c) (c_fd c) Hn Hp Hl) as (th & E & S).
  destruct IH as (ths & E2 & F). rewrite E, E2. cbn [bind]. exists (th :: ths). split; [reflexivity|].
  constructor; [destruct c; exact S|exact F].
Qed.

Lemma Forall2_len {A B} (R : A -> B -> Prop) l l' : Forall2 R l l' -> length l = length l'.
Proof. induction 1; cbn [length]; [reflexivity|f_equal; assumption]. Qed.

Lemma Forall2_nth_both {A B} (R : A -> B -> Prop) l l' : Forall2 R l l' ->
  forall t, (t < length l)%nat -> exists x y, nth_error l t = Some x /\ nth_error l' t = Some y /\ R x y.
Proof.
  induction 1 as [|x y l l' HR HF IH]; intros t Ht; [cbn [length] in Ht; lia|].
  destruct t as [|t]; cbn [nth_error]; [exists x, y; auto|]. apply IH. cbn [length] in Ht. lia.
Qed.

Lemma spawned_consistent nw pids locks unix cs ths :
  Forall2 (spawned nw pids locks unix) cs ths -> consistent ths.
Proof.
  intros F t1 t2 th1 th2 A1 A2 Q.
  assert (L1 : (t1 < length cs)%nat) by (rewrite (Forall2_len _ _ _ F); apply nth_error_Some; congruence).
  assert (L2 : (t2 < length cs)%nat) by (rewrite (Forall2_len _ _ _ F); apply nth_error_Some; congruence).
  destruct (Forall2_nth_both _ _ _ F t1 L1) as (c1 & y1 & _ & B1 & S1).
  destruct (Forall2_nth_both _ _ _ F t2 L2) as (c2 & y2 & _ & B2 & S2).
  rewrite A1 in B1. rewrite A2 in B2. inversion B1. inversion B2. subst y1 y2.
  destruct S1 as (Q1 & K1 & _), S2 as (Q2 & K2 & _). rewrite <- Q1 in K1. rewrite <- Q2 in K2. rewrite Q in K1. congruence.
Qed.

Lemma map_nth_filter_seq {A} (q : A -> bool) d (l : list A) :
  map (fun i => nth i l d) (filter (fun i => q (nth i l d)) (seq 0 (length l))) = filter q l.
Proof.
  induction l as [|x l IH] using rev_ind; [reflexivity|].
  rewrite app_length. cbn [length]. rewrite seq_app. cbn [seq plus]. rewrite !filter_app, map_app. f_equal.
  - rewrite <- IH.
    rewrite (filter_ext_in (fun i => q (nth i (l ++ [x]) d)) (fun i => q (nth i l d))).
    + apply map_ext_in. intros i Hi. apply filter_In in Hi. destruct Hi as [Hi _]. apply in_seq in Hi. apply app_nth1. lia.
    + intros i Hi. apply in_seq in Hi. rewrite app_nth1 by lia. reflexivity.
  - cbn [filter]. rewrite nth_middle. destruct (q x); cbn [map]; [rewrite nth_middle|]; reflexivity.
Qed.

Definition conn0 : conn := mk_conn 0 0 None 0%Z.

Lemma blocks_conns nw pids locks unix cs ths order :
  Forall2 (spawned nw pids locks unix) cs ths -> (forall t, In t order -> (t < length cs)%nat) ->
  blocks ths order = flat_map (conn_block unix) (map (fun t => nth t cs conn0) order).
Proof.
  intros F. induction order as [|t order IH]; intros Hin; [reflexivity|].
  unfold blocks. cbn [flat_map map]. fold (blocks ths order). rewrite IH by (intros; apply Hin; right; assumption).
  f_equal. destruct (Forall2_nth_both _ _ _ F t (Hin t (or_introl eq_refl))) as (c & th & A & B & S).
  rewrite B. rewrite (nth_error_nth _ _ conn0 A).
  destruct S as (_ & _ & _ & S1 & S2 & S3). unfold block, conn_block. rewrite S1, S2, S3. reflexivity.
Qed.

(* THE THEOREM: any number of acceptors and workers, any collection of accepted connections, any interleaving the
   locks allow: when all dispatcher threads have returned, each worker's pipe is the concatenation, in some order, of
   the complete blocks of exactly the connections routed to that worker *)
Theorem dispatch_atomic nw pids locks unix cs ths sched :
  nw <> 0 -> length pids = N.to_nat nw -> length locks = N.to_nat nw ->
  spawn_all work nw (shared_pool nw pids locks) unix cs = Ok ths ->
  let g := run_conns ths nw sched in
  all_done g = true ->
  forall k, (k < N.to_nat nw)%nat ->
    exists cs', Permutation cs' (routed_to nw k cs) /\ pipe g k = flat_map (conn_block unix) cs'.
Proof.
  intros Hn Hp Hl Hs g Hd k Hk.
  destruct (spawn_all_spawned nw pids locks unix cs Hn Hp Hl) as (ths' & Hs' & F).
  rewrite Hs in Hs'. inversion Hs'. subst ths'. clear Hs'.
  pose proof (spawned_consistent _ _ _ _ _ _ F) as Hc. pose proof (Forall2_len _ _ _ F) as Hlen.
  destruct (dispatch_atomic_threads ths (N.to_nat nw) sched Hc Hd k Hk) as (order & P & E).
  exists (map (fun t => nth t cs conn0) order). split.
  - unfold routed_to. rewrite <- (map_nth_filter_seq (fun c => Nat.eqb (route nw c) k) conn0 cs).
    apply Permutation_map. rewrite P, Hlen. apply Permutation_refl'. apply filter_ext_in.
    intros t Ht. apply in_seq in Ht. unfold on_pipe.
    destruct (Forall2_nth_both _ _ _ F t ltac:(lia)) as (c & th & A & B & S).
    rewrite B, (nth_error_nth _ _ conn0 A). destruct S as (Q & _). rewrite Q. reflexivity.
  - unfold g, run_conns. rewrite E. apply (blocks_conns nw pids locks unix cs ths order F).
    intros t Ht. apply (Permutation_in _ P) in Ht. apply filter_In in Ht. destruct Ht as [Ht _]. apply in_seq in Ht. lia.
Qed.

Lemma flat_map_map {A B C} (f : B -> list C) (h : A -> B) l : flat_map f (map h l) = flat_map (fun x => f (h x)) l.
Proof. induction l as [|a l IH]; cbn [map flat_map]; [reflexivity|]. rewrite IH. reflexivity. Qed.

(* ... hence every worker reads its pipe without failure and is handed exactly the connections routed to it, each with
   ITS OWN address *)
Theorem interleaved_receive_ok nw pids locks unix cs ths sched :
  nw <> 0 -> length pids = N.to_nat nw -> length locks = N.to_nat nw ->
  spawn_all work nw (shared_pool nw pids locks) unix cs = Ok ths ->
  let g := run_conns ths nw sched in
  all_done g = true ->
  forall k, (k < N.to_nat nw)%nat ->
    exists cs', Permutation cs' (routed_to nw k cs) /\
      receive_all unix (2 * length (routed_to nw k cs) + 1) (pipe g k) =
      Ok (map (fun c => (c_fd c, told_addr unix (c_addr c))) cs').
Proof.
  intros Hn Hp Hl Hs g Hd k Hk.
  destruct (dispatch_atomic nw pids locks unix cs ths sched Hn Hp Hl Hs Hd k Hk) as (cs' & P & E).
  exists cs'. split; [exact P|]. fold g in E. rewrite E, <- (Permutation_length P).
  pose proof (receive_all_delegated unix (map (fun c => (c_addr c, c_fd c)) cs')) as R.
  rewrite map_length, flat_map_map, map_map in R. cbn [fst snd] in R. exact R.
Qed.

(* ---------------------------------------------------------------- the index of the lock matters *)
(* Under the discipline of the seeded change (lock taken at [total mod n], pipe at [(total mod n + idd) mod n]) two
   acceptors guard the same pipe with different locks: there are two connections and a schedule allowed by the locks
   after which worker 0 has `address, address, descriptor, descriptor` in its pipe and its second read fails; on the
   way both threads are inside their critical sections on pipe 0 at once.  With the real _work the same connections
   under the same picks (thread 1 is now blocked when first picked, so the picks are repeated once for it to finish)
   are received correctly. *)
Theorem lock_index_matters :
  exists (cs : list conn) (sched pre : list nat) (ths : list thread),
    length cs = 2%nat /\ map c_idd cs = [0; 1] /\ routed_to 2 0 cs = cs /\
    spawn_all work_seeded 2 ex_pool false cs = Ok ths /\
    (let g := run_conns ths 2 sched in
     all_done g = true /\
     pipe g 0 = [MAddr (Some 4000); MAddr (Some 4001); MHandle 21%Z; MHandle 20%Z] /\
     receive_all false 5 (pipe g 0) = Err (OSError 0)) /\
    (let g := run_conns ths 2 pre in ~ mutex ths g) /\
    (exists ths', spawn_all work 2 ex_pool false cs = Ok ths' /\
       let g := run_conns ths' 2 (sched ++ sched) in
       all_done g = true /\ receive_all false 5 (pipe g 0) = Ok [(20%Z, Some 4000); (21%Z, Some 4001)]).
Proof.
  exists bad_conns, bad_sched, bad_prefix.
  eexists. split; [reflexivity|]. split; [reflexivity|]. split; [vm_compute; reflexivity|].
  split; [vm_compute; reflexivity|]. split; [|split].
  - vm_compute. repeat split.
  - intros g Hm. subst g.
    specialize (Hm 0%nat 1%nat (mk_thread 100 0 0 20%Z (Some 4000) false) (mk_thread 100 0 1 21%Z (Some 4001) false)
                   PAddrSent PLocked).
    assert (C : 0%nat = 1%nat); [|discriminate C].
    apply Hm; vm_compute; repeat split.
  - eexists. split; [vm_compute; reflexivity|]. vm_compute. repeat split.
Qed.

(* non-vacuity: two acceptors, two workers, a schedule in which threads really interleave and block *)
Example locks_nonvacuous :
  exists ths,
    spawn_all work 2 ex_pool false ex_conns = Ok ths /\
    (let g := run_conns ths 2 ex_prefix in
       (* thread 1 is between its two writes on pipe 0, thread 2 holds lock 1, thread 0 is blocked *)
       g_pcs g = [PStart; PAddrSent; PLocked; PStart] /\ g_held g = [(1, 2); (0, 1)]%nat /\
       pipe g 0 = [MAddr (Some 4001)] /\ step ths 0 g = None /\ step ths 3 g = None) /\
    (let g := run_conns ths 2 ex_sched in
       all_done g = true /\ g_held g = [] /\
       g_pipes g = [[MAddr (Some 4001); MHandle 21%Z; MAddr (Some 4000); MHandle 20%Z];
                    [MAddr (Some 4002); MHandle 22%Z; MAddr (Some 4003); MHandle 23%Z]] /\
       receive_all false 5 (pipe g 0) = Ok [(21%Z, Some 4001); (20%Z, Some 4000)] /\
       receive_all false 5 (pipe g 1) = Ok [(22%Z, Some 4002); (23%Z, Some 4003)]).
Proof. eexists. split; [vm_compute; reflexivity|]. split; vm_compute; repeat split. Qed.

(* ---------------------------------------------------------------- every reachable state can be completed *)
Definition remaining (p : pc) : nat :=
  match p with PStart => 5 | PLocked => 4 | PAddrSent => 3 | PHandleSent => 2 | PClosed => 1 | PDone => 0 end%nat.
Definition measure (g : gstate) : nat := list_sum (map remaining (g_pcs g)).

Lemma measure_upd pcs : forall tid p p', nth_error pcs tid = Some p -> S (remaining p') = remaining p ->
  S (list_sum (map remaining (upd tid p' pcs))) = list_sum (map remaining pcs).
Proof.
  unfold upd. induction pcs as [|x t IH]; intros tid p p' H R; [destruct tid; discriminate H|].
  destruct tid as [|tid]; cbn [nth_error] in H; cbn [upd_with map]; unfold list_sum in *; cbn [fold_right].
  - inversion H. subst x. lia.
  - specialize (IH tid p p' H R). lia.
Qed.

Lemma step_measure ths tid g g' : step ths tid g = Some g' -> S (measure g') = measure g.
Proof.
  unfold step, measure. destruct (nth_error ths tid) as [th|]; [|discriminate].
  destruct (nth_error (g_pcs g) tid) as [p|] eqn:B; [|discriminate].
  destruct p; try destruct (lock_free _ _); intro H; inversion H; cbn [g_pcs];
    apply (measure_upd _ _ _ _ B); reflexivity.
Qed.

Theorem dispatch_can_finish ths : consistent ths ->
  forall g, Inv ths g -> exists sched, all_done (run ths sched g) = true.
Proof.
  intros Hc g. remember (measure g) as n eqn:En. revert g En.
  induction n as [|n IH]; intros g En HI; (destruct (all_done g) eqn:D; [exists []; exact D|]);
    destruct (dispatch_progress ths g HI D) as (tid & g' & E); pose proof (step_measure _ _ _ _ E) as M.
  - lia.
  - destruct (IH g' ltac:(lia) (Inv_step _ _ _ _ Hc HI E)) as (sched & Hd).
    exists (tid :: sched). cbn [run]. rewrite E. exact Hd.
Qed.

(* ---------------------------------------------------------------- the invariant, for the threads of _work *)
Lemma spawn_all_inv nw pids locks unix cs ths :
  nw <> 0 -> length pids = N.to_nat nw -> length locks = N.to_nat nw ->
  spawn_all work nw (shared_pool nw pids locks) unix cs = Ok ths ->
  Forall2 (spawned nw pids locks unix) cs ths.
Proof.
  intros Hn Hp Hl Hs. destruct (spawn_all_spawned nw pids locks unix cs Hn Hp Hl) as (ths' & Hs' & F).
  rewrite Hs in Hs'. inversion Hs'. exact F.
Qed.

Theorem dispatch_invariant_conns nw pids locks unix cs ths sched :
  nw <> 0 -> length pids = N.to_nat nw -> length locks = N.to_nat nw ->
  spawn_all work nw (shared_pool nw pids locks) unix cs = Ok ths ->
  let g := run_conns ths nw sched in
  Inv ths g /\ mutex ths g /\
  forall k l, (k < N.to_nat nw)%nat -> nth_error locks k = Some l -> lock_free (g_held g) l = true ->
    exists order, NoDup order /\
      (forall tid, In tid order <-> exists th, at_ ths (g_pcs g) tid th PDone /\ t_queue th = k) /\
      pipe g k = blocks ths order.
Proof.
  intros Hn Hp Hl Hs g. pose proof (spawn_all_inv _ _ _ _ _ _ Hn Hp Hl Hs) as F.
  pose proof (spawned_consistent _ _ _ _ _ _ F) as Hc.
  pose proof (Inv_reachable ths (N.to_nat nw) sched Hc) as HI.
  destruct (dispatch_invariant ths (N.to_nat nw) sched Hc) as [Hm Hq]. fold (run_conns ths nw sched) in HI, Hm, Hq. fold g in HI, Hm, Hq.
  split; [exact HI|]. split; [exact Hm|]. intros k l Hk El Hfree. apply (Hq k Hk).
  apply (free_lock_quiet ths g k HI). intros tid th A Q.
  assert (L : (tid < length cs)%nat) by (rewrite (Forall2_len _ _ _ F); apply nth_error_Some; congruence).
  destruct (Forall2_nth_both _ _ _ F tid L) as (c & th' & _ & B & S). rewrite A in B. inversion B. subst th'.
  destruct S as (Q1 & K1 & _). rewrite <- Q1, Q, El in K1. inversion K1. subst l. exact Hfree.
Qed.

(* no deadlock, for the threads of _work: any reachable state that is not final has an enabled thread, and can be
   completed by some schedule *)
Theorem dispatch_no_deadlock nw pids locks unix cs ths sched :
  nw <> 0 -> length pids = N.to_nat nw -> length locks = N.to_nat nw ->
  spawn_all work nw (shared_pool nw pids locks) unix cs = Ok ths ->
  let g := run_conns ths nw sched in
  (all_done g = false -> exists tid g', step ths tid g = Some g') /\
  exists more, all_done (run_conns ths nw (sched ++ more)) = true.
Proof.
  intros Hn Hp Hl Hs g. destruct (dispatch_invariant_conns nw pids locks unix cs ths sched Hn Hp Hl Hs) as (HI & _).
  fold g in HI. pose proof (spawned_consistent _ _ _ _ _ _ (spawn_all_inv _ _ _ _ _ _ Hn Hp Hl Hs)) as Hc.
  split; [exact (dispatch_progress ths g HI)|].
  destruct (dispatch_can_finish ths Hc g HI) as (more & Hd). exists more.
  unfold run_conns. rewrite run_app. exact Hd.
Qed.
