(* Exec/ModesFacts.v — C17: the thread-per-connection driver (Exec/Modes.v) and the threadless executor
   (Exec/Threadless.v, local executor) do the same thing to a connection.

   For one work, generic in its five entry points, under the premises
     no_reaping   is_inactive answers False and changes nothing (no idle reaping),
     idle_noop    handle_events with nothing ready does nothing and returns False,
     tame         along the run: no epoll_ctl failure; get_events returns a well-formed dict (distinct descriptors
                  >= 0, masks in {READ, WRITE, READ|WRITE}) whose key set never shrinks,
   the work object is driven through EXACTLY the same sequence of calls with the same arguments by both
   drivers, iteration by iteration; they leave their loops at the same iteration with the same work state.
   The one place they differ is what happens then: the threaded shutdown() first flushes a pending client
   buffer (blocking), the threadless one does not (C07 shows the buffer is empty there on the teardown paths
   that matter). *)
From PM Require Import Lib.Bytes Lib.ZDict Lib.ZDictFacts Exec.Threadless Exec.ThreadlessFacts Exec.Modes.
From Coq Require Import ZArith Lia.

Lemma zset_same {V} k (v : V) d : zget k d = Some v -> zset k v d = d.
Proof.
  induction d as [|[a b] t IH]; cbn [zget zset]; [discriminate|].
  destruct (k =? a)%Z eqn:E.
  - intros X; inversion X; subst. apply Z.eqb_eq in E; subst. reflexivity.
  - intros X. rewrite IH by exact X. reflexivity.
Qed.

Lemma zget_In_local {V} f (c : V) (d : zdict V) : zget f d = Some c -> In (f, c) d.
Proof.
  induction d as [|[k v] t IH]; cbn [zget]; [discriminate|].
  destruct (f =? k)%Z eqn:E; [intros X; inversion X; subst; apply Z.eqb_eq in E; subst; left; reflexivity|].
  intros X; right; apply IH; exact X.
Qed.

Definition valid_mask (m : mask) : Prop := m = 1 \/ m = 2 \/ m = 3.
Definition valid_events (evs : sel_events) : Prop :=
  NoDup (zkeys evs) /\ forall f m, In (f, m) evs -> (0 <= f)%Z /\ valid_mask m.

Lemma valid_mask_ok m : valid_mask m -> (m =? 0) || (3 <? m) = false.
Proof. intros [ -> | [ -> | -> ] ]; reflexivity. Qed.

Lemma valid_events_tail f m t : valid_events ((f, m) :: t) -> valid_events t /\ ~ In f (zkeys t) /\ (0 <= f)%Z /\ valid_mask m.
Proof.
  intros [Hn Hv]. cbn [zkeys map fst] in Hn. inversion Hn as [|? ? Hx Ht]; subst.
  split; [split; [exact Ht|intros g k Hin; apply Hv; right; exact Hin]|].
  split; [exact Hx|]. apply (Hv f m). left; reflexivity.
Qed.

Lemma zget_not_in {V} f (d : zdict V) : ~ In f (zkeys d) -> zget f d = None.
Proof. intros H. destruct (zget f d) eqn:E; [|reflexivity]. exfalso. apply H. apply zkeys_zget. congruence. Qed.

(* decidable versions, used to check the premises on concrete schedules *)
Fixpoint nodupb (l : list Z) : bool :=
  match l with [] => true | x :: t => negb (zin x t) && nodupb t end.
Lemma nodupb_sound l : nodupb l = true -> NoDup l.
Proof.
  induction l as [|x t IH]; cbn [nodupb]; intros H; [constructor|].
  apply andb_true_iff in H as [H1 H2]. constructor; [|apply IH; exact H2].
  intros Hin. apply zin_In in Hin. rewrite Hin in H1. discriminate.
Qed.
Definition valid_eventsb (evs : sel_events) : bool :=
  nodupb (zkeys evs) && forallb (fun p => (0 <=? fst p)%Z && ((snd p =? 1) || (snd p =? 2) || (snd p =? 3))) evs.
Lemma valid_eventsb_sound evs : valid_eventsb evs = true -> valid_events evs.
Proof.
  unfold valid_eventsb, valid_events. intros H. apply andb_true_iff in H as [H1 H2].
  split; [apply nodupb_sound; exact H1|]. rewrite forallb_forall in H2.
  intros f m Hin. specialize (H2 (f, m) Hin). cbn [fst snd] in H2. apply andb_true_iff in H2 as [Ha Hb].
  split; [apply Z.leb_le; exact Ha|]. unfold valid_mask.
  apply orb_true_iff in Hb as [Hb|Hb]; [apply orb_true_iff in Hb as [Hb|Hb]|]; apply N.eqb_eq in Hb; auto.
Qed.
Definition monotoneb (prev evs1 : sel_events) : bool := forallb (fun p => zmem (fst p) evs1) prev.
Lemma monotoneb_sound prev evs1 : monotoneb prev evs1 = true -> forall f, zget f evs1 = None -> zget f prev = None.
Proof.
  unfold monotoneb. rewrite forallb_forall. intros H f Hf. destruct (zget f prev) as [m|] eqn:E; [|reflexivity].
  specialize (H (f, m) (zget_In_local _ _ _ E)). cbn [fst] in H. apply zmem_zget in H. congruence.
Qed.

(* ------------------------------------------------------------------ the threaded selector *)
Lemma t_unregister_all_fold sm l : t_unregister_all sm l = fold_left unregister_tolerant l sm.
Proof. revert sm. induction l as [|f t IH]; intros sm; cbn [t_unregister_all fold_left]; [reflexivity|]. apply IH. Qed.

Lemma t_register_all_ok evs : forall sm,
  valid_events evs -> (forall f, In f (zkeys evs) -> zget f sm = None) ->
  exists sm', t_register_all [] sm evs = (sm', Ok tt) /\
              forall f, zget f sm' = match zget f evs with Some m => Some (m, 0%Z) | None => zget f sm end.
Proof.
  induction evs as [|[f m] t IH]; intros sm Hv Hfree; cbn [t_register_all].
  - exists sm. split; [reflexivity|intros; reflexivity].
  - destruct (valid_events_tail f m t Hv) as (Hvt & Hnt & Hf0 & Hm).
    unfold sel_register. rewrite (valid_mask_ok m Hm).
    replace (f <? 0)%Z with false by (symmetry; apply Z.ltb_ge; exact Hf0).
    assert (Hfs : zmem f sm = false) by (apply zmem_false, Hfree; left; reflexivity). rewrite Hfs. cbn [zget].
    destruct (IH (zset f (m, 0%Z) sm) Hvt) as (sm' & E & Hget).
    { intros g Hg. rewrite zget_zset. destruct (g =? f)%Z eqn:Eg; [apply Z.eqb_eq in Eg; subst; contradiction|].
      apply Hfree. right; exact Hg. }
    exists sm'. split; [exact E|]. intros g. rewrite Hget. cbn [zget].
    destruct (g =? f)%Z eqn:Eg.
    + apply Z.eqb_eq in Eg; subst g. rewrite (zget_not_in f t Hnt). apply zget_zset_same.
    + destruct (zget g t); [reflexivity|]. apply Z.eqb_neq in Eg. apply zget_zset_other; exact Eg.
Qed.

(* ------------------------------------------------------------------ the executor's registration of one work *)
Section Sync.
  Variable W : Type.
  Variable IO : Type.
  Notation State := (state W).

  (* selector map = the registrations of work i, nothing else (local executor, a single work) *)
  Definition sel_is (i : work_id) (regs : zdict mask) (sm : selmap) : Prop :=
    forall f, zget f sm = match zget f regs with Some m => Some (m, i) | None => None end.

  Definition merged (evs prev : zdict mask) (f : fd) : option mask :=
    match zget f evs with Some m => Some m | None => zget f prev end.

  Lemma uwe_loop_sync (e : event W IO) i evs : forall (st : State) prev,
    ev_kfail e = [] -> valid_events evs ->
    (forall f, zget f (regs_of W i st) = zget f prev) ->
    sel_is i prev (sel st) ->
    exists st', uwe_loop W IO e i st evs = (st', Ok tt) /\ same_core W st st' /\
                (forall f, zget f (regs_of W i st') = merged evs prev f) /\
                (forall f, zget f (sel st') = match merged evs prev f with Some m => Some (m, i) | None => None end).
  Proof.
    induction evs as [|[f m] t IH]; intros st prev Hk Hv Hregs Hsel; cbn [uwe_loop].
    - exists st. split; [reflexivity|]. split; [apply same_core_refl|]. split; [exact Hregs|].
      intros f. unfold merged. cbn [zget]. apply Hsel.
    - destruct (valid_events_tail f m t Hv) as (Hvt & Hnt & Hf0 & Hm).
      assert (Hstep : exists st1, uwe_one W IO e i st (f, m) = (st1, Ok tt) /\ same_core W st st1 /\
                (forall g, zget g (regs_of W i st1) = if (g =? f)%Z then Some m else zget g prev) /\
                (forall g, zget g (sel st1) = if (g =? f)%Z then Some (m, i) else zget g (sel st))).
      { unfold uwe_one.
        change (if zmem i (registered st) then st else set_registered st (zset i [] (registered st))) with (ensure_reg W i st).
        pose proof (ensure_core W i st) as Hc0.
        assert (Hs0 : sel (ensure_reg W i st) = sel st) by (unfold ensure_reg; destruct (zmem i (registered st)); reflexivity).
        assert (Hr0 : forall g, zget g (regs_of W i (ensure_reg W i st)) = zget g prev) by (intros g; rewrite regs_of_ensure; apply Hregs).
        set (st0 := ensure_reg W i st) in *. clearbody st0.
        rewrite Hr0. destruct (zget f prev) as [old|] eqn:Eold.
        - destruct (m =? old) eqn:Em.
          + apply N.eqb_eq in Em; subst old. exists st0. split; [reflexivity|]. split; [exact Hc0|]. split.
            * intros g. rewrite Hr0. destruct (g =? f)%Z eqn:Eg; [apply Z.eqb_eq in Eg; subst; exact Eold|reflexivity].
            * intros g. rewrite Hs0. destruct (g =? f)%Z eqn:Eg; [|reflexivity]. apply Z.eqb_eq in Eg; subst. rewrite Hsel, Eold. reflexivity.
          + unfold sel_modify. replace (f <? 0)%Z with false by (symmetry; apply Z.ltb_ge; exact Hf0).
            rewrite Hs0, Hsel, Eold, Em, Hk. cbn [zget].
            eexists. split; [reflexivity|]. split; [eapply same_core_trans; [exact Hc0|repeat split]|]. split.
            * intros g. change (regs_of W i (set_registered (set_sel st0 (zset f (m, i) (sel st))) (zset i (zset f m (regs_of W i st0)) (registered st0))))
                with (match zget i (zset i (zset f m (regs_of W i st0)) (registered st0)) with Some d => d | None => [] end).
              rewrite zget_zset_same, zget_zset, Hr0. reflexivity.
            * intros g. cbn [sel set_registered set_sel]. apply zget_zset.
        - replace (f =? -1)%Z with false by (symmetry; apply Z.eqb_neq; lia).
          unfold sel_register. rewrite (valid_mask_ok m Hm).
          replace (f <? 0)%Z with false by (symmetry; apply Z.ltb_ge; exact Hf0).
          assert (Hz : zmem f (sel st0) = false) by (apply zmem_false; rewrite Hs0, Hsel, Eold; reflexivity).
          rewrite Hz, Hk. cbn [zget].
          eexists. split; [reflexivity|]. split; [eapply same_core_trans; [exact Hc0|repeat split]|]. split.
          + intros g. change (regs_of W i (set_registered (set_sel st0 (zset f (m, i) (sel st0))) (zset i (zset f m (regs_of W i st0)) (registered st0))))
              with (match zget i (zset i (zset f m (regs_of W i st0)) (registered st0)) with Some d => d | None => [] end).
            rewrite zget_zset_same, zget_zset, Hr0. reflexivity.
          + intros g. cbn [sel set_registered set_sel]. rewrite Hs0. apply zget_zset. }
      destruct Hstep as (st1 & E1 & C1 & Hr1 & Hs1). rewrite E1.
      set (prev1 := zset f m prev).
      assert (Hp1 : forall g, zget g prev1 = if (g =? f)%Z then Some m else zget g prev) by (intros g; subst prev1; apply zget_zset).
      destruct (IH st1 prev1 Hk Hvt) as (st' & E' & C' & Hr' & Hs').
      { intros g. rewrite Hr1, Hp1. reflexivity. }
      { intros g. rewrite Hs1, Hp1. destruct (g =? f)%Z; [reflexivity|apply Hsel]. }
      exists st'. split; [exact E'|]. split; [eapply same_core_trans; eassumption|].
      assert (Hmg : forall g, merged t prev1 g = merged ((f, m) :: t) prev g).
      { intros g. unfold merged. rewrite Hp1. cbn [zget]. destruct (g =? f)%Z eqn:Eg; [|reflexivity].
        apply Z.eqb_eq in Eg; subst g. rewrite (zget_not_in f t Hnt). reflexivity. }
      split; [intros g; rewrite Hr', Hmg; reflexivity|intros g; rewrite Hs', Hmg; reflexivity].
  Qed.

  (* ---------------------------------------------------------------- select: the same ready lists *)
  Lemma t_select_ext a b l : (forall f, zget f a = zget f b) -> t_select a l = t_select b l.
  Proof. intros H. induction l as [|[f ev] t IH]; cbn [t_select]; [reflexivity|]. rewrite IH, H. reflexivity. Qed.

  Definition any_reg (regs : zdict mask) (l : list (fd * mask)) : bool := existsb (fun fm => zmem (fst fm) regs) l.

  Lemma select_loop_one i regs selS smT l : forall r0 w0,
    sel_is i regs selS ->
    (forall f, zget f smT = match zget f regs with Some m => Some (m, 0%Z) | None => None end) ->
    select_loop None selS ([(i, (r0, w0))], true) l =
    Ok ([(i, (r0 ++ fst (t_select smT l), w0 ++ snd (t_select smT l)))], true).
  Proof.
    intros r0 w0 Hs Ht. revert r0 w0. induction l as [|[f ev] t IH]; intros r0 w0; cbn [select_loop t_select].
    - cbn [fst snd]. rewrite !app_nil_r. reflexivity.
    - unfold select_one. cbv beta iota. rewrite Hs, Ht. destruct (t_select smT t) as [rs ws] eqn:Et.
      destruct (zget f regs) as [kev|]; [|apply IH].
      cbn [negb andb]. unfold zmem. cbn [zget]. rewrite Z.eqb_refl. cbn [zset zget]. rewrite ?Z.eqb_refl. cbn [zget].
      rewrite ?Z.eqb_refl.
      destruct (N.land (N.land ev kev) EVENT_READ =? 0), (N.land (N.land ev kev) EVENT_WRITE =? 0);
        rewrite IH; cbn [fst snd]; rewrite <- ?app_assoc; reflexivity.
  Qed.

  Lemma select_one_first (i : work_id) (f : fd) (ev kev : mask) (selS : selmap) :
    zget f selS = Some (kev, i) ->
    select_one None selS ([], true) (f, ev) =
    Ok ([(i, (if N.land (N.land ev kev) EVENT_READ =? 0 then [] else [f],
              if N.land (N.land ev kev) EVENT_WRITE =? 0 then [] else [f]))], true).
  Proof.
    intros H. unfold select_one. cbv beta iota. rewrite H. cbn [negb andb zmem zget zset]. rewrite Z.eqb_refl. cbn [zget zset app].
    rewrite ?Z.eqb_refl. reflexivity.
  Qed.

  Lemma select_loop_sync i regs selS smT l :
    sel_is i regs selS ->
    (forall f, zget f smT = match zget f regs with Some m => Some (m, 0%Z) | None => None end) ->
    select_loop None selS ([], true) l =
    Ok (if any_reg regs l then [(i, t_select smT l)] else [], true).
  Proof.
    intros Hs Ht. induction l as [|[f ev] t IH]; [reflexivity|].
    cbn [select_loop t_select]. unfold any_reg. cbn [existsb fst]. fold (any_reg regs t).
    destruct (zget f regs) as [kev|] eqn:Ef.
    - rewrite (zmem_some _ _ _ Ef). cbn [orb].
      rewrite (select_one_first i f ev kev selS) by (rewrite Hs, Ef; reflexivity).
      rewrite Ht, Ef. destruct (t_select smT t) as [rs ws] eqn:Et.
      rewrite (select_loop_one i regs selS smT t _ _ Hs Ht), Et. cbn [fst snd].
      destruct (N.land (N.land ev kev) EVENT_READ =? 0), (N.land (N.land ev kev) EVENT_WRITE =? 0); reflexivity.
    - replace (zmem f regs) with false by (symmetry; apply zmem_false; exact Ef). cbn [orb].
      unfold select_one. cbv beta iota. rewrite Hs, Ef, Ht, Ef. rewrite IH. destruct (t_select smT t); reflexivity.
  Qed.
End Sync.

(* ------------------------------------------------------------------ the two drivers, side by side *)
Section Main.
  Variable W : Type.
  Variable IO : Type.
  Variable w_initialize : W -> IO -> W * result unit.
  Variable w_get_events : W -> IO -> W * result sel_events.
  Variable w_handle_events : W -> list fd -> list fd -> IO -> W * result bool.
  Variable w_shutdown : W -> IO -> W * result unit.
  Variable w_is_inactive : W -> N -> IO -> W * result bool.
  Variable w_has_buffer : W -> bool.
  Variable w_client_fd : W -> fd.
  Variable w_flush_once : W -> IO -> W * result unit.
  Variable tick_limit : N.

  Notation State := (state W).
  Notation Event := (event W IO).
  Notation TEvent := (tevent IO).
  Notation CLEANUP := (cleanup W IO w_shutdown None).
  Notation UWE := (update_work_events W IO w_get_events).
  Notation UPD := (update_selector W IO w_get_events w_shutdown None).
  Notation REST := (run_once_rest W IO w_initialize w_handle_events w_shutdown None).
  Notation BODY := (loop_body W IO w_initialize w_get_events w_handle_events w_shutdown w_is_inactive None tick_limit).
  Notation RUN := (run_forever W IO w_initialize w_get_events w_handle_events w_shutdown w_is_inactive None tick_limit).
  Notation T_RUN_ONCE := (t_run_once W IO w_get_events w_handle_events).
  Notation T_SHUTDOWN := (t_shutdown W IO w_shutdown w_has_buffer w_client_fd w_flush_once).
  Notation T_LOOP := (threaded_loop W IO w_get_events w_handle_events w_shutdown w_is_inactive w_has_buffer w_client_fd w_flush_once).
  Notation T_RUN := (threaded_run W IO w_initialize w_get_events w_handle_events w_shutdown w_is_inactive w_has_buffer w_client_fd w_flush_once).

  (* premises about the work *)
  Definition no_reaping : Prop := forall w c io, w_is_inactive w c io = (w, Ok false).
  Definition idle_noop : Prop := forall w io, w_handle_events w [] [] io = (w, Ok false).

  (* the same schedule for the executor: nothing else arrives, tasks complete at once *)
  Definition lift (e : TEvent) : Event :=
    {| ev_kfail := te_kfail e; ev_ready := te_ready e; ev_arrival := ANone; ev_fin := fun _ => true;
       ev_io := fun _ => te_io e; ev_clock := te_clock e; ev_running_set := false |}.
  Definition arrive (e : TEvent) (i : work_id) (w : W) : Event :=
    {| ev_kfail := []; ev_ready := []; ev_arrival := ANew i w; ev_fin := fun _ => true;
       ev_io := fun _ => te_io e; ev_clock := te_clock e; ev_running_set := false |}.

  (* the threaded loop up to the point where it is left: work state, selector, the event in force *)
  Fixpoint threaded_core (evs : list TEvent) (w : W) (sm : tsel) : W * tsel * option TEvent :=
    match evs with
    | [] => (w, sm, None)
    | e :: t =>
        let (w0, ri) := w_is_inactive w (te_clock e) (te_io e) in
        match ri with
        | Err _ | Ok true => (w0, sm, Some e)
        | Ok false =>
            let '(w1, sm1, r1) := T_RUN_ONCE e w0 sm in
            match r1 with
            | Ok false => threaded_core t w1 sm1
            | Ok true | Err _ => (w1, sm1, Some e)
            end
        end
    end.

  Lemma threaded_loop_core evs : forall w sm,
    T_LOOP evs w sm =
    match threaded_core evs w sm with
    | (w', sm', None) => (w', TRunning)
    | (w', sm', Some e) => let (w'', r) := T_SHUTDOWN e w' sm' in (w'', TDone r)
    end.
  Proof.
    induction evs as [|e t IH]; intros w sm; cbn [threaded_loop threaded_core]; [reflexivity|].
    destruct (w_is_inactive w (te_clock e) (te_io e)) as [w0 ri]. destruct ri as [[|]|x]; try reflexivity.
    destruct (T_RUN_ONCE e w0 sm) as [[w1 sm1] r1]. destruct r1 as [[|]|x]; try reflexivity. apply IH.
  Qed.

  Definition sel_of_events (evs : sel_events) : tsel := map (fun p => (fst p, (snd p, 0%Z))) evs.
  Lemma zget_sel_of_events evs f :
    zget f (sel_of_events evs) = match zget f evs with Some m => Some (m, 0%Z) | None => None end.
  Proof.
    induction evs as [|[g m] t IH]; cbn [sel_of_events map zget fst snd]; [reflexivity|].
    destruct (f =? g)%Z; [reflexivity|exact IH].
  Qed.

  (* along the run: no epoll_ctl failure, well-formed events whose key set never shrinks *)
  Fixpoint tame (evs : list TEvent) (w : W) (prev : sel_events) : Prop :=
    match evs with
    | [] => True
    | e :: t =>
        te_kfail e = [] /\
        match w_get_events w (te_io e) with
        | (w1, Ok evs1) =>
            valid_events evs1 /\ (forall f, zget f evs1 = None -> zget f prev = None) /\
            let (rs, ws) := t_select (sel_of_events evs1) (te_ready e) in
            match w_handle_events w1 rs ws (te_io e) with
            | (w2, Ok false) => tame t w2 evs1
            | _ => True
            end
        | (_, Err _) => True
        end
    end.

  Fixpoint tameb (evs : list TEvent) (w : W) (prev : sel_events) : bool :=
    match evs with
    | [] => true
    | e :: t =>
        match te_kfail e with [] => true | _ => false end &&
        match w_get_events w (te_io e) with
        | (w1, Ok evs1) =>
            valid_eventsb evs1 && monotoneb prev evs1 &&
            let (rs, ws) := t_select (sel_of_events evs1) (te_ready e) in
            match w_handle_events w1 rs ws (te_io e) with
            | (w2, Ok false) => tameb t w2 evs1
            | _ => true
            end
        | (_, Err _) => true
        end
    end.

  Lemma tameb_sound evs : forall w prev, tameb evs w prev = true -> tame evs w prev.
  Proof.
    induction evs as [|e t IH]; intros w prev; cbn [tameb tame]; [intros _; exact I|].
    intros H. apply andb_true_iff in H as [Hk H]. split; [destruct (te_kfail e); [reflexivity|discriminate]|].
    destruct (w_get_events w (te_io e)) as [w1 [evs1|x]]; [|exact I].
    apply andb_true_iff in H as [H12 H3]. apply andb_true_iff in H12 as [H1 H2].
    split; [apply valid_eventsb_sound; exact H1|]. split; [apply monotoneb_sound; exact H2|].
    destruct (t_select (sel_of_events evs1) (te_ready e)) as [rs ws].
    destruct (w_handle_events w1 rs ws (te_io e)) as [w2 [[|]|x]]; try exact I. apply IH; exact H3.
  Qed.

  (* the executor state while the single work i is live *)
  Record synced (i : work_id) (w : W) (prev : sel_events) (st : State) : Prop := {
    sy_works : works st = [(i, w)];
    sy_regs : forall f, zget f (regs_of W i st) = zget f prev;
    sy_sel : sel_is i prev (sel st);
    sy_unf : unfinished st = [];
    sy_gone : gone st = []
  }.
  (* ... and once it is over *)
  Record ended (i : work_id) (wfinal : W) (st : State) : Prop := {
    en_works : works st = [];
    en_sel : forall f, zget f (sel st) = None;
    en_unf : unfinished st = [];
    en_gone : gone st = [(i, wfinal)]
  }.

  Lemma t_select_none sm regs l :
    (forall f, zget f sm = match zget f regs with Some m => Some (m, 0%Z) | None => None end) ->
    any_reg regs l = false -> t_select sm l = ([], []).
  Proof.
    intros H. induction l as [|[f ev] t IH]; cbn [t_select any_reg existsb fst]; [reflexivity|].
    intros Ha. apply orb_false_iff in Ha as [Ha1 Ha2]. rewrite (IH Ha2), H.
    apply zmem_false in Ha1. rewrite Ha1. reflexivity.
  Qed.

  (* cleanup of the only work *)
  Lemma cleanup_only e i w prev (st : State) :
    synced i w prev st -> (forall f m, zget f prev = Some m -> (0 <= f)%Z) ->
    ended i (fst (w_shutdown w (ev_io e i))) (CLEANUP e i st).
  Proof.
    intros [Hw Hr Hs Hu Hg] Hpos. constructor.
    - rewrite cleanup_works, Hw. cbn [zdel]. rewrite Z.eqb_refl. reflexivity.
    - intros f. rewrite cleanup_sel_get, Hs. unfold zmem. rewrite Hr.
      destruct (zget f prev) as [m|] eqn:E; [|reflexivity].
      replace (0 <=? f)%Z with true by (symmetry; apply Z.leb_le; eapply Hpos; exact E). reflexivity.
    - rewrite cleanup_unfinished. exact Hu.
    - rewrite cleanup_gone, Hw, Hg. cbn [zget]. rewrite Z.eqb_refl. reflexivity.
  Qed.

  Lemma valid_events_pos evs f m : valid_events evs -> zget f evs = Some m -> (0 <= f)%Z.
  Proof. intros [_ Hv] H. apply (Hv f m). apply zget_In_local. exact H. Qed.

  Lemma select_loop_empty (sm : selmap) l : forall acc,
    (forall f, zget f sm = None) -> select_loop None sm acc l = Ok acc.
  Proof.
    intros acc H. revert acc. induction l as [|[f ev] t IH]; intros acc; cbn [select_loop]; [reflexivity|].
    unfold select_one. destruct acc as [wbi nwa]. rewrite H. apply IH.
  Qed.

  Hypothesis Hnr : no_reaping.
  Hypothesis Hidle : idle_noop.

  (* _update_selector when get_events raises: the work is torn down *)
  Lemma upd_err e i w prev (st : State) w1 x :
    synced i w prev st -> (forall f m, zget f prev = Some m -> (0 <= f)%Z) ->
    w_get_events w (te_io e) = (w1, Err x) ->
    ended i (fst (w_shutdown w1 (te_io e))) (UPD (lift e) st).
  Proof.
    intros Hsy Hpos Hg. pose proof Hsy as [Hw Hr Hs Hu Hgn].
    unfold update_selector. rewrite Hw, Hu. cbn [zkeys map fst fold_left t_work].
    unfold update_selector_one. cbn [zin]. unfold update_work_events. rewrite Hw. cbn [zget]. rewrite Z.eqb_refl.
    cbn [ev_io lift]. rewrite Hg.
    apply (cleanup_only (lift e) i w1 prev); [|exact Hpos].
    constructor; cbn [works set_works sel unfinished gone]; try assumption.
    rewrite ?Hw. cbn [zset]. rewrite Z.eqb_refl. reflexivity.
  Qed.

  (* ... and when it returns a well-formed, non-shrinking dict: registrations = exactly that dict *)
  Lemma upd_ok e i w prev (st : State) w1 evs1 :
    synced i w prev st -> te_kfail e = [] ->
    w_get_events w (te_io e) = (w1, Ok evs1) -> valid_events evs1 ->
    (forall f, zget f evs1 = None -> zget f prev = None) ->
    synced i w1 evs1 (UPD (lift e) st).
  Proof.
    intros Hsy Hk Hg Hv Hmono. pose proof Hsy as [Hw Hr Hs Hu Hgn].
    unfold update_selector. rewrite Hw, Hu. cbn [zkeys map fst fold_left t_work].
    unfold update_selector_one. cbn [zin]. unfold update_work_events. rewrite Hw. cbn [zget]. rewrite Z.eqb_refl.
    cbn [ev_io lift]. rewrite Hg.
    set (st1 := set_works st (zset i w1 [(i, w)])).
    destruct (uwe_loop_sync W IO (lift e) i evs1 st1 prev Hk Hv) as (st' & E & C & Hr' & Hs').
    { intros f. apply Hr. }
    { exact Hs. }
    rewrite E. destruct C as (C1 & C2 & _ & _ & C5 & _).
    assert (Hmg : forall f, merged evs1 prev f = zget f evs1).
    { intros f. unfold merged. destruct (zget f evs1) eqn:Ef; [reflexivity|apply Hmono; exact Ef]. }
    constructor.
    - rewrite C1. subst st1. cbn [works set_works zset]. rewrite Z.eqb_refl. reflexivity.
    - intros f. rewrite Hr', Hmg. reflexivity.
    - intros f. rewrite Hs', Hmg. reflexivity.
    - rewrite C2. exact Hu.
    - rewrite C5. exact Hgn.
  Qed.

  (* the rest of _run_once when nothing is left *)
  Lemma rest_ended e i wf (st : State) : ended i wf st -> REST (lift e) st = (st, Ok false).
  Proof.
    intros [Hw Hs Hu Hg]. unfold run_once_rest, selected_events.
    rewrite (select_loop_empty (sel st) (ev_ready (lift e)) _ Hs). reflexivity.
  Qed.

  (* the rest of _run_once for the live work: handle_events gets the lists the threaded driver computes *)
  Lemma rest_live e i w1 evs1 (st : State) w2 r :
    i <> 0%Z -> synced i w1 evs1 st ->
    (let (rs, ws) := t_select (sel_of_events evs1) (te_ready e) in w_handle_events w1 rs ws (te_io e)) = (w2, r) ->
    exists st', REST (lift e) st = (st', Ok false) /\
                match r with
                | Ok false => synced i w2 evs1 st'
                | _ => (forall f m, zget f evs1 = Some m -> (0 <= f)%Z) -> ended i (fst (w_shutdown w2 (te_io e))) st'
                end.
  Proof.
    intros Hi0 Hsy Hh. pose proof Hsy as [Hw Hr Hs Hu Hgn].
    unfold run_once_rest, selected_events. cbn [ev_ready lift].
    rewrite (select_loop_sync i evs1 (sel st) (sel_of_events evs1) (te_ready e) Hs (zget_sel_of_events evs1)).
    cbn [receive_from_work_queue ev_arrival lift].
    destruct (any_reg evs1 (te_ready e)) eqn:Ea.
    - destruct (t_select (sel_of_events evs1) (te_ready e)) as [rs ws].
      cbn [create_tasks]. apply Z.eqb_neq in Hi0. rewrite Hi0, Hw. cbn [zget]. rewrite Z.eqb_refl.
      unfold wait_for_tasks. cbn [unfinished set_unfinished ev_fin lift]. rewrite Hu. cbn [app filter negb].
      set (stx := set_unfinished (set_unfinished st [{| t_work := i; t_r := rs; t_w := ws |}]) []).
      assert (Hwx : works stx = [(i, w1)]) by exact Hw.
      cbn [run_tasks]. unfold run_task. cbn [t_work t_r t_w]. rewrite Hwx. cbn [zget]. rewrite Z.eqb_refl.
      cbn [ev_io lift]. rewrite Hh. cbn [zset]. rewrite Z.eqb_refl.
      eexists. split; [reflexivity|].
      destruct r as [[|]|x].
      + intros Hpos. unfold cleanup_finished. cbn [fold_left fst snd].
        apply (cleanup_only (lift e) i w2 evs1); [|exact Hpos].
        subst stx. constructor; [reflexivity|exact Hr|exact Hs|reflexivity|exact Hgn].
      + unfold cleanup_finished. cbn [fold_left fst snd].
        subst stx. constructor; [reflexivity|exact Hr|exact Hs|reflexivity|exact Hgn].
      + intros Hpos. unfold cleanup_finished. cbn [fold_left fst snd].
        apply (cleanup_only (lift e) i w2 evs1); [|exact Hpos].
        subst stx. constructor; [reflexivity|exact Hr|exact Hs|reflexivity|exact Hgn].
    - rewrite (t_select_none (sel_of_events evs1) evs1 (te_ready e) (zget_sel_of_events evs1) Ea) in Hh.
      rewrite Hidle in Hh. inversion Hh; subst. exists st. split; [reflexivity|exact Hsy].
  Qed.

  (* the periodic sweep changes nothing: nobody is reaped *)
  Lemma sweep_synced (e : Event) i w prev (st : State) :
    synced i w prev st -> synced i w prev (cleanup_inactive W IO w_shutdown w_is_inactive None e st).
  Proof.
    intros [Hw Hr Hs Hu Hg]. unfold cleanup_inactive. rewrite Hw. cbn [zkeys map fst inactive_scan].
    rewrite Hw. cbn [zget]. rewrite Z.eqb_refl. rewrite Hnr. cbn [works set_works zset inactive_scan fold_left]. rewrite Z.eqb_refl.
    constructor; cbn [works set_works sel unfinished gone]; try assumption. reflexivity.
  Qed.
  Lemma sweep_ended (e : Event) i wf (st : State) :
    ended i wf st -> cleanup_inactive W IO w_shutdown w_is_inactive None e st = st.
  Proof. intros [Hw _ _ _]. unfold cleanup_inactive. rewrite Hw. reflexivity. Qed.

  Lemma synced_tick i w prev (st : State) x : synced i w prev st -> synced i w prev (set_tick st x).
  Proof. intros [A B C D E]. constructor; assumption. Qed.
  Lemma ended_tick i wf (st : State) x : ended i wf st -> ended i wf (set_tick st x).
  Proof. intros [A B C D]. constructor; assumption. Qed.

  Lemma body_ended e i wf (st : State) :
    ended i wf st -> exists st', BODY (lift e) st = (st', Running) /\ ended i wf st'.
  Proof.
    intros He. unfold loop_body, run_once.
    assert (Hu : UPD (lift e) st = st).
    { unfold update_selector. rewrite (en_works _ _ _ He). reflexivity. }
    rewrite Hu, (rest_ended e i wf st He). cbn [ev_running_set lift].
    destruct (tick_limit <=? tick st).
    - rewrite (sweep_ended (lift e) i wf st He). eexists. split; [reflexivity|apply ended_tick; exact He].
    - eexists. split; [reflexivity|apply ended_tick; exact He].
  Qed.

  Lemma run_ended evs i wf : forall (st : State),
    ended i wf st -> exists st', RUN (map lift evs) st = (st', Running) /\ ended i wf st'.
  Proof.
    induction evs as [|e t IH]; intros st He; cbn [map run_forever]; [exists st; auto|].
    destruct (body_ended e i wf st He) as (st1 & E1 & He1). rewrite E1. apply IH; exact He1.
  Qed.

  (* one turn of both loops *)
  Lemma body_step e i w prev (st : State) (sm : tsel) :
    i <> 0%Z -> synced i w prev st -> (forall f m, zget f prev = Some m -> (0 <= f)%Z) ->
    (forall f, zget f sm = None) -> tame [e] w prev ->
    exists st', BODY (lift e) st = (st', Running) /\
      match T_RUN_ONCE e w sm with
      | (w2, sm2, Ok false) =>
          (forall f, zget f sm2 = None) /\
          exists evs1, synced i w2 evs1 st' /\ (forall f m, zget f evs1 = Some m -> (0 <= f)%Z) /\
                       fst (w_get_events w (te_io e)) = fst (w_get_events w (te_io e)) /\
                       snd (w_get_events w (te_io e)) = Ok evs1
      | (w2, _, _) => ended i (fst (w_shutdown w2 (te_io e))) st'
      end.
  Proof.
    intros Hi0 Hsy Hpos Hsm [Hk Ht]. unfold loop_body, run_once, t_run_once.
    destruct (w_get_events w (te_io e)) as [w1 rg] eqn:Hg.
    destruct rg as [evs1|x].
    - destruct Ht as (Hv & Hmono & Ht).
      pose proof (upd_ok e i w prev st w1 evs1 Hsy Hk Hg Hv Hmono) as Hsy1.
      destruct (t_register_all_ok evs1 sm Hv (fun f _ => Hsm f)) as (sm1 & Er & Hsm1). rewrite Hk, Er.
      assert (Hsm1' : forall f, zget f sm1 = zget f (sel_of_events evs1)).
      { intros f. rewrite Hsm1, zget_sel_of_events, Hsm. destruct (zget f evs1); reflexivity. }
      rewrite (t_select_ext sm1 (sel_of_events evs1) (te_ready e) Hsm1').
      destruct (t_select (sel_of_events evs1) (te_ready e)) as [rs ws] eqn:Ets.
      destruct (w_handle_events w1 rs ws (te_io e)) as [w2 r] eqn:Hh.
      destruct (rest_live e i w1 evs1 (UPD (lift e) st) w2 r Hi0 Hsy1) as (st2 & E2 & H2).
      { rewrite Ets. exact Hh. }
      rewrite E2. cbn [ev_running_set lift].
      assert (Hpos1 : forall f m, zget f evs1 = Some m -> (0 <= f)%Z) by (intros f m; apply valid_events_pos; exact Hv).
      assert (Hsm2 : forall f, zget f (t_unregister_all sm1 (zkeys evs1)) = None).
      { intros f. rewrite t_unregister_all_fold, unregister_all_get, zin_zkeys, Hsm1, Hsm. unfold zmem.
        destruct (zget f evs1) as [m|] eqn:Ef; [|reflexivity].
        replace (0 <=? f)%Z with true by (symmetry; apply Z.leb_le; eapply Hpos1; exact Ef). reflexivity. }
      destruct r as [[|]|x].
      + specialize (H2 Hpos1). destruct (tick_limit <=? tick st2).
        * rewrite (sweep_ended (lift e) i _ st2 H2). eexists. split; [reflexivity|apply ended_tick; exact H2].
        * eexists. split; [reflexivity|apply ended_tick; exact H2].
      + destruct (tick_limit <=? tick st2).
        * eexists. split; [reflexivity|]. split; [exact Hsm2|]. exists evs1.
          split; [apply synced_tick, sweep_synced; exact H2|]. split; [exact Hpos1|]. split; reflexivity.
        * eexists. split; [reflexivity|]. split; [exact Hsm2|]. exists evs1.
          split; [apply synced_tick; exact H2|]. split; [exact Hpos1|]. split; reflexivity.
      + specialize (H2 Hpos1). destruct (tick_limit <=? tick st2).
        * rewrite (sweep_ended (lift e) i _ st2 H2). eexists. split; [reflexivity|apply ended_tick; exact H2].
        * eexists. split; [reflexivity|apply ended_tick; exact H2].
    - pose proof (upd_err e i w prev st w1 x Hsy Hpos Hg) as He.
      rewrite (rest_ended e i _ _ He). cbn [ev_running_set lift].
      destruct (tick_limit <=? tick (UPD (lift e) st)).
      + rewrite (sweep_ended (lift e) i _ _ He). eexists. split; [reflexivity|apply ended_tick; exact He].
      + eexists. split; [reflexivity|apply ended_tick; exact He].
  Qed.

  (* tame is about the whole remaining schedule; what one turn needs is its head *)
  Lemma tame_head e t w prev : tame (e :: t) w prev -> tame [e] w prev.
  Proof.
    cbn [tame]. intros [Hk Ht]. split; [exact Hk|].
    destruct (w_get_events w (te_io e)) as [w1 [evs1|x]]; [|exact I].
    destruct Ht as (Hv & Hm & Ht). split; [exact Hv|]. split; [exact Hm|].
    destruct (t_select (sel_of_events evs1) (te_ready e)) as [rs ws].
    destruct (w_handle_events w1 rs ws (te_io e)) as [w2 [[|]|x]]; exact I.
  Qed.

  (* the two loops in lock step *)
  Theorem lockstep i evs : forall w prev (st : State) (sm : tsel),
    i <> 0%Z -> synced i w prev st -> (forall f m, zget f prev = Some m -> (0 <= f)%Z) ->
    (forall f, zget f sm = None) -> tame evs w prev ->
    exists st', RUN (map lift evs) st = (st', Running) /\
      match threaded_core evs w sm with
      | (wT, _, None) => exists prev', synced i wT prev' st'
      | (wT, _, Some e) => ended i (fst (w_shutdown wT (te_io e))) st'
      end.
  Proof.
    induction evs as [|e t IH]; intros w prev st sm Hi0 Hsy Hpos Hsm Ht; cbn [map run_forever threaded_core].
    - exists st. split; [reflexivity|exists prev; exact Hsy].
    - rewrite Hnr.
      destruct (body_step e i w prev st sm Hi0 Hsy Hpos Hsm (tame_head e t w prev Ht)) as (st1 & E1 & H1).
      rewrite E1. cbn [tame] in Ht. destruct Ht as [Hk Ht].
      unfold t_run_once in *. destruct (w_get_events w (te_io e)) as [w1 [evs1|x]] eqn:Hg.
      + destruct Ht as (Hv & Hmono & Ht).
        destruct (t_register_all (te_kfail e) sm evs1) as [sm1 rr] eqn:Er.
        destruct rr as [u|x].
        * destruct (t_register_all_ok evs1 sm Hv (fun f _ => Hsm f)) as (sm1' & Er' & Hsm1). rewrite Hk in Er. rewrite Er' in Er. inversion Er; subst sm1'.
          assert (Hsm1' : forall f, zget f sm1 = zget f (sel_of_events evs1)).
          { intros f. rewrite Hsm1, zget_sel_of_events, Hsm. destruct (zget f evs1); reflexivity. }
          rewrite (t_select_ext sm1 (sel_of_events evs1) (te_ready e) Hsm1') in *.
          destruct (t_select (sel_of_events evs1) (te_ready e)) as [rs ws].
          destruct (w_handle_events w1 rs ws (te_io e)) as [w2 [[|]|x]].
          -- destruct (run_ended t i _ st1 H1) as (st2 & E2 & K2). exists st2. split; [exact E2|exact K2].
          -- destruct H1 as (Hsm2 & evs1' & Hsy1 & Hpos1 & _ & Hev). cbn [snd] in Hev. inversion Hev; subst evs1'.
             apply (IH w2 evs1 st1 _ Hi0 Hsy1 Hpos1 Hsm2 Ht).
          -- destruct (run_ended t i _ st1 H1) as (st2 & E2 & K2). exists st2. split; [exact E2|exact K2].
        * exfalso. destruct (t_register_all_ok evs1 sm Hv (fun f _ => Hsm f)) as (sm1' & Er' & _).
          rewrite Hk in Er. rewrite Er' in Er. discriminate.
      + destruct (run_ended t i _ st1 H1) as (st2 & E2 & K2). exists st2. split; [exact E2|exact K2].
  Qed.

  (* the arrival: LocalFdExecutor.receive_from_work_queue -> work() -> initialize(); threaded: run() -> initialize() *)
  Lemma arrival_step e0 i w :
    i <> 0%Z ->
    exists st1, BODY (arrive e0 i w) (init_state W None) = (st1, Running) /\
      match w_initialize w (te_io e0) with
      | (w0, Ok _) => synced i w0 [] st1
      | (w0, Err _) => ended i (fst (w_shutdown w0 (te_io e0))) st1
      end.
  Proof.
    intros Hi0. unfold loop_body, run_once.
    assert (HU : UPD (arrive e0 i w) (init_state W None) = init_state W None) by reflexivity.
    rewrite HU. clear HU.
    assert (HR : REST (arrive e0 i w) (init_state W None) =
                 (do_work W IO w_initialize w_shutdown None (arrive e0 i w) i w (init_state W None), Ok false)) by reflexivity.
    rewrite HR. clear HR. cbn [ev_running_set arrive].
    set (s1 := do_work W IO w_initialize w_shutdown None (arrive e0 i w) i w (init_state W None)).
    assert (H1 : match w_initialize w (te_io e0) with
                 | (w0, Ok _) => synced i w0 [] s1
                 | (w0, Err _) => ended i (fst (w_shutdown w0 (te_io e0))) s1
                 end).
    { subst s1. unfold do_work, init_state. cbn [works set_works zset ev_io arrive].
      destruct (w_initialize w (te_io e0)) as [w0 r0]. cbn [works set_works zset]. rewrite Z.eqb_refl.
      destruct r0 as [u|x].
      - constructor; cbn; try reflexivity. intros f. reflexivity.
      - apply (cleanup_only (arrive e0 i w) i w0 []); [|intros f m; discriminate].
        constructor; cbn; try reflexivity. intros f. reflexivity. }
    clearbody s1. destruct (w_initialize w (te_io e0)) as [w0 [u|x]].
    - destruct (tick_limit <=? tick s1).
      + eexists. split; [reflexivity|]. apply synced_tick. apply (sweep_synced (arrive e0 i w) i w0 [] s1). exact H1.
      + eexists. split; [reflexivity|]. apply synced_tick. exact H1.
    - destruct (tick_limit <=? tick s1).
      + unfold cleanup_inactive. rewrite (en_works _ _ _ H1). cbn [zkeys map inactive_scan fold_left].
        eexists. split; [reflexivity|apply ended_tick; exact H1].
      + eexists. split; [reflexivity|apply ended_tick; exact H1].
  Qed.

  (* C17, threaded vs local executor: same calls, same arguments, same exit, same work state at the exit *)
  Theorem local_eq_threaded e0 evs i w :
    i <> 0%Z ->
    match w_initialize w (te_io e0) with (w0, Ok _) => tame evs w0 [] | _ => True end ->
    exists st', RUN (arrive e0 i w :: map lift evs) (init_state W None) = (st', Running) /\
      match w_initialize w (te_io e0) with
      | (w0, Ok _) =>
          match threaded_core evs w0 [] with
          | (wT, _, None) => exists prev', synced i wT prev' st'          (* both still serving, same work state *)
          | (wT, _, Some e) => ended i (fst (w_shutdown wT (te_io e))) st'  (* both left the loop at event e with work state wT *)
          end
      | (w0, Err _) => ended i (fst (w_shutdown w0 (te_io e0))) st'
      end.
  Proof.
    intros Hi0 Ht. cbn [run_forever].
    destruct (arrival_step e0 i w Hi0) as (st1 & E1 & H1). rewrite E1.
    destruct (w_initialize w (te_io e0)) as [w0 [u|x]].
    - apply (lockstep i evs w0 [] st1 [] Hi0 H1); [intros f m; discriminate|intros f; reflexivity|exact Ht].
    - destruct (run_ended evs i _ st1 H1) as (st2 & E2 & K2). exists st2. split; [exact E2|exact K2].
  Qed.

  (* ... and the threaded run is that core followed by the threaded shutdown, which differs from the
     threadless one only by the blocking flush of a pending client buffer *)
  Theorem threaded_run_is_core e0 evs w :
    T_RUN e0 evs w =
    match w_initialize w (te_io e0) with
    | (w0, Ok _) =>
        match threaded_core evs w0 [] with
        | (wT, _, None) => (wT, TRunning)
        | (wT, smT, Some e) => let (w', r) := T_SHUTDOWN e wT smT in (w', TDone r)
        end
    | (w0, Err _) => let (w', r) := T_SHUTDOWN e0 w0 [] in (w', TDone r)
    end.
  Proof.
    unfold threaded_run. destruct (w_initialize w (te_io e0)) as [w0 [u|x]]; [|reflexivity].
    rewrite threaded_loop_core. destruct (threaded_core evs w0 []) as [[wT smT] [e|]]; reflexivity.
  Qed.

  Theorem shutdown_same_without_buffer e w sm :
    w_has_buffer w = false -> T_SHUTDOWN e w sm = w_shutdown w (te_io e).
  Proof. intros H. unfold t_shutdown. rewrite H. reflexivity. Qed.
End Main.
