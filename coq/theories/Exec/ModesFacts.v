(* Exec/ModesFacts.v — C17: the thread-per-connection driver (Exec/Modes.v) and the threadless executor
   (Exec/Threadless.v, local executor) do the same thing to a connection.

   For one work, generic in its five entry points, under the premises
     no_reaping   is_inactive answers False and changes nothing (no idle reaping),
     idle_noop    handle_events with nothing ready does nothing and returns False,
     tame         along the run: no epoll_ctl failure; get_events returns a well-formed dict (distinct descriptors
                  >= 0, masks in {READ, WRITE, READ|WRITE}) whose key set never shrinks,
   the work object is driven through EXACTLY the same sequence of calls with the same arguments by both
   drivers, iteration by iteration; they leave their loops at the same iteration with the same work state.
   The one place they differ is what happens then: the threaded shutdown() first flushes a pending client
   buffer (blocking), the threadless one does not (C07 shows the buffer is empty there on the teardown paths
   that matter). *)
From PM Require Import Lib.Bytes Lib.ZDict Lib.ZDictFacts Exec.Threadless Exec.ThreadlessFacts Exec.Modes.
From Coq Require Import ZArith Lia.

Lemma zset_same {V} k (v : V) d : zget k d = Some v -> zset k v d = d.
Proof.
  induction d as [|[a b] t IH]; cbn [zget zset]; [discriminate|].
  destruct (k =? a)%Z eqn:E.
  - intros X; inversion X; subst. apply Z.eqb_eq in E; subst. reflexivity.
  - intros X. rewrite IH by exact X. reflexivity.
Qed.

Definition valid_mask (m : mask) : Prop := m = 1 \/ m = 2 \/ m = 3.
Definition valid_events (evs : sel_events) : Prop :=
  NoDup (zkeys evs) /\ forall f m, In (f, m) evs -> (0 <= f)%Z /\ valid_mask m.

Lemma valid_mask_ok m : valid_mask m -> (m =? 0) || (3 <? m) = false.
Proof. intros [ -> | [ -> | -> ] ]; reflexivity. Qed.

Lemma valid_events_tail f m t : valid_events ((f, m) :: t) -> valid_events t /\ ~ In f (zkeys t) /\ (0 <= f)%Z /\ valid_mask m.
Proof.
  intros [Hn Hv]. cbn [zkeys map fst] in Hn. inversion Hn as [|? ? Hx Ht]; subst.
  split; [split; [exact Ht|intros g k Hin; apply Hv; right; exact Hin]|].
  split; [exact Hx|]. apply (Hv f m). left; reflexivity.
Qed.

Lemma zget_not_in {V} f (d : zdict V) : ~ In f (zkeys d) -> zget f d = None.
Proof. intros H. destruct (zget f d) eqn:E; [|reflexivity]. exfalso. apply H. apply zkeys_zget. congruence. Qed.

(* ------------------------------------------------------------------ the threaded selector *)
Lemma t_unregister_all_fold sm l : t_unregister_all sm l = fold_left unregister_tolerant l sm.
Proof. revert sm. induction l as [|f t IH]; intros sm; cbn [t_unregister_all fold_left]; [reflexivity|]. apply IH. Qed.

Lemma t_register_all_ok evs : forall sm,
  valid_events evs -> (forall f, In f (zkeys evs) -> zget f sm = None) ->
  exists sm', t_register_all [] sm evs = (sm', Ok tt) /\
              forall f, zget f sm' = match zget f evs with Some m => Some (m, 0%Z) | None => zget f sm end.
Proof.
  induction evs as [|[f m] t IH]; intros sm Hv Hfree; cbn [t_register_all].
  - exists sm. split; [reflexivity|intros; reflexivity].
  - destruct (valid_events_tail f m t Hv) as (Hvt & Hnt & Hf0 & Hm).
    unfold sel_register. rewrite (valid_mask_ok m Hm).
    replace (f <? 0)%Z with false by (symmetry; apply Z.ltb_ge; exact Hf0).
    assert (Hfs : zmem f sm = false) by (apply zmem_false, Hfree; left; reflexivity). rewrite Hfs. cbn [zget].
    destruct (IH (zset f (m, 0%Z) sm) Hvt) as (sm' & E & Hget).
    { intros g Hg. rewrite zget_zset. destruct (g =? f)%Z eqn:Eg; [apply Z.eqb_eq in Eg; subst; contradiction|].
      apply Hfree. right; exact Hg. }
    exists sm'. split; [exact E|]. intros g. rewrite Hget. cbn [zget].
    destruct (g =? f)%Z eqn:Eg.
    + apply Z.eqb_eq in Eg; subst g. rewrite (zget_not_in f t Hnt). apply zget_zset_same.
    + destruct (zget g t); [reflexivity|]. apply Z.eqb_neq in Eg. apply zget_zset_other; exact Eg.
Qed.

(* ------------------------------------------------------------------ the executor's registration of one work *)
Section Sync.
  Variable W : Type.
  Variable IO : Type.
  Notation State := (state W).

  (* selector map = the registrations of work i, nothing else (local executor, a single work) *)
  Definition sel_is (i : work_id) (regs : zdict mask) (sm : selmap) : Prop :=
    forall f, zget f sm = match zget f regs with Some m => Some (m, i) | None => None end.

  Definition merged (evs prev : zdict mask) (f : fd) : option mask :=
    match zget f evs with Some m => Some m | None => zget f prev end.

  Lemma uwe_loop_sync (e : event W IO) i evs : forall (st : State) prev,
    ev_kfail e = [] -> valid_events evs ->
    (forall f, zget f (regs_of W i st) = zget f prev) ->
    sel_is i prev (sel st) ->
    exists st', uwe_loop W IO e i st evs = (st', Ok tt) /\ same_core W st st' /\
                (forall f, zget f (regs_of W i st') = merged evs prev f) /\
                (forall f, zget f (sel st') = match merged evs prev f with Some m => Some (m, i) | None => None end).
  Proof.
    induction evs as [|[f m] t IH]; intros st prev Hk Hv Hregs Hsel; cbn [uwe_loop].
    - exists st. split; [reflexivity|]. split; [apply same_core_refl|]. split; [exact Hregs|].
      intros f. unfold merged. cbn [zget]. apply Hsel.
    - destruct (valid_events_tail f m t Hv) as (Hvt & Hnt & Hf0 & Hm).
      assert (Hstep : exists st1, uwe_one W IO e i st (f, m) = (st1, Ok tt) /\ same_core W st st1 /\
                (forall g, zget g (regs_of W i st1) = if (g =? f)%Z then Some m else zget g prev) /\
                (forall g, zget g (sel st1) = if (g =? f)%Z then Some (m, i) else zget g (sel st))).
      { unfold uwe_one.
        change (if zmem i (registered st) then st else set_registered st (zset i [] (registered st))) with (ensure_reg W i st).
        pose proof (ensure_core W i st) as Hc0.
        assert (Hs0 : sel (ensure_reg W i st) = sel st) by (unfold ensure_reg; destruct (zmem i (registered st)); reflexivity).
        assert (Hr0 : forall g, zget g (regs_of W i (ensure_reg W i st)) = zget g prev) by (intros g; rewrite regs_of_ensure; apply Hregs).
        set (st0 := ensure_reg W i st) in *. clearbody st0.
        rewrite Hr0. destruct (zget f prev) as [old|] eqn:Eold.
        - destruct (m =? old) eqn:Em.
          + apply N.eqb_eq in Em; subst old. exists st0. split; [reflexivity|]. split; [exact Hc0|]. split.
            * intros g. rewrite Hr0. destruct (g =? f)%Z eqn:Eg; [apply Z.eqb_eq in Eg; subst; exact Eold|reflexivity].
            * intros g. rewrite Hs0. destruct (g =? f)%Z eqn:Eg; [|reflexivity]. apply Z.eqb_eq in Eg; subst. rewrite Hsel, Eold. reflexivity.
          + unfold sel_modify. replace (f <? 0)%Z with false by (symmetry; apply Z.ltb_ge; exact Hf0).
            rewrite Hs0, Hsel, Eold, Em, Hk. cbn [zget].
            eexists. split; [reflexivity|]. split; [eapply same_core_trans; [exact Hc0|repeat split]|]. split.
            * intros g. change (regs_of W i (set_registered (set_sel st0 (zset f (m, i) (sel st))) (zset i (zset f m (regs_of W i st0)) (registered st0))))
                with (match zget i (zset i (zset f m (regs_of W i st0)) (registered st0)) with Some d => d | None => [] end).
              rewrite zget_zset_same, zget_zset, Hr0. reflexivity.
            * intros g. cbn [sel set_registered set_sel]. apply zget_zset.
        - replace (f =? -1)%Z with false by (symmetry; apply Z.eqb_neq; lia).
          unfold sel_register. rewrite (valid_mask_ok m Hm).
          replace (f <? 0)%Z with false by (symmetry; apply Z.ltb_ge; exact Hf0).
          assert (Hz : zmem f (sel st0) = false) by (apply zmem_false; rewrite Hs0, Hsel, Eold; reflexivity).
          rewrite Hz, Hk. cbn [zget].
          eexists. split; [reflexivity|]. split; [eapply same_core_trans; [exact Hc0|repeat split]|]. split.
          + intros g. change (regs_of W i (set_registered (set_sel st0 (zset f (m, i) (sel st0))) (zset i (zset f m (regs_of W i st0)) (registered st0))))
              with (match zget i (zset i (zset f m (regs_of W i st0)) (registered st0)) with Some d => d | None => [] end).
            rewrite zget_zset_same, zget_zset, Hr0. reflexivity.
          + intros g. cbn [sel set_registered set_sel]. rewrite Hs0. apply zget_zset. }
      destruct Hstep as (st1 & E1 & C1 & Hr1 & Hs1). rewrite E1.
      set (prev1 := zset f m prev).
      assert (Hp1 : forall g, zget g prev1 = if (g =? f)%Z then Some m else zget g prev) by (intros g; subst prev1; apply zget_zset).
      destruct (IH st1 prev1 Hk Hvt) as (st' & E' & C' & Hr' & Hs').
      { intros g. rewrite Hr1, Hp1. reflexivity. }
      { intros g. rewrite Hs1, Hp1. destruct (g =? f)%Z; [reflexivity|apply Hsel]. }
      exists st'. split; [exact E'|]. split; [eapply same_core_trans; eassumption|].
      assert (Hmg : forall g, merged t prev1 g = merged ((f, m) :: t) prev g).
      { intros g. unfold merged. rewrite Hp1. cbn [zget]. destruct (g =? f)%Z eqn:Eg; [|reflexivity].
        apply Z.eqb_eq in Eg; subst g. rewrite (zget_not_in f t Hnt). reflexivity. }
      split; [intros g; rewrite Hr', Hmg; reflexivity|intros g; rewrite Hs', Hmg; reflexivity].
  Qed.

  (* ---------------------------------------------------------------- select: the same ready lists *)
  Lemma t_select_ext a b l : (forall f, zget f a = zget f b) -> t_select a l = t_select b l.
  Proof. intros H. induction l as [|[f ev] t IH]; cbn [t_select]; [reflexivity|]. rewrite IH, H. reflexivity. Qed.

  Definition any_reg (regs : zdict mask) (l : list (fd * mask)) : bool := existsb (fun fm => zmem (fst fm) regs) l.

  Lemma select_loop_one i regs selS smT l : forall r0 w0,
    sel_is i regs selS ->
    (forall f, zget f smT = match zget f regs with Some m => Some (m, 0%Z) | None => None end) ->
    select_loop None selS ([(i, (r0, w0))], true) l =
    Ok ([(i, (r0 ++ fst (t_select smT l), w0 ++ snd (t_select smT l)))], true).
  Proof.
    intros r0 w0 Hs Ht. revert r0 w0. induction l as [|[f ev] t IH]; intros r0 w0; cbn [select_loop t_select].
    - cbn [fst snd]. rewrite !app_nil_r. reflexivity.
    - unfold select_one. rewrite Hs, Ht. destruct (t_select smT t) as [rs ws] eqn:Et.
      destruct (zget f regs) as [kev|]; [|apply IH].
      cbn [negb andb]. unfold zmem. cbn [zget]. rewrite Z.eqb_refl. cbn [zset]. rewrite Z.eqb_refl.
      rewrite IH. cbn [fst snd].
      destruct (N.land (N.land ev kev) EVENT_READ =? 0), (N.land (N.land ev kev) EVENT_WRITE =? 0);
        cbn [fst snd]; rewrite <- ?app_assoc; reflexivity.
  Qed.

  Lemma select_loop_sync i regs selS smT l :
    sel_is i regs selS ->
    (forall f, zget f smT = match zget f regs with Some m => Some (m, 0%Z) | None => None end) ->
    select_loop None selS ([], true) l =
    Ok (if any_reg regs l then [(i, t_select smT l)] else [], true).
  Proof.
    intros Hs Ht. induction l as [|[f ev] t IH]; cbn [select_loop t_select any_reg existsb fst]; [reflexivity|].
    unfold select_one. rewrite Hs, Ht. unfold zmem at 1.
    destruct (zget f regs) as [kev|] eqn:Ef; cbn [orb].
    - cbn [negb andb]. unfold zmem. cbn [zget zset].
      rewrite (select_loop_one i regs selS smT t _ _ Hs Ht).
      destruct (t_select smT t) as [rs ws]. cbn [fst snd].
      destruct (N.land (N.land ev kev) EVENT_READ =? 0), (N.land (N.land ev kev) EVENT_WRITE =? 0); reflexivity.
    - exact IH.
  Qed.
End Sync.
