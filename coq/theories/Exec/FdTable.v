(* Exec/FdTable.v — descriptors.  Definitions only; lemmas in FdTableFacts.v.
   1. the descriptor table of a process: open / dup / close / recv_handle;
   2. passing an accepted connection from the acceptor process to a remote executor
      (proxy/core/work/delegate.py delegate_work_to_pool; proxy/core/work/fd/remote.py
      receive_from_work_queue; proxy/core/work/fd/fd.py work);
   3. what HttpProtocolHandler.shutdown releases (proxy/http/handler.py:78-114,
      HttpProxyPlugin.on_client_connection_close proxy/http/proxy/server.py (closing part),
      HttpWebServerPlugin.on_client_connection_close proxy/http/server/web.py,
      ReverseProxy.on_client_connection_close proxy/http/server/reverse.py,
      TcpConnection.close proxy/core/connection/connection.py);
   4. the descriptor operations of a whole connection in a worker. *)
From PM Require Import Lib.Bytes Lib.ZDict Exec.Threadless.
From Coq Require Import ZArith.

(* ------------------------------------------------------------------ 1. descriptor table *)
Definition ofd := N.                     (* an open file description: the identity of a connection *)
Definition table := zdict ofd.           (* descriptor number -> open file description *)

Inductive fdop :=
| FOpen (f : fd) (c : ofd)       (* accept()/socket()+connect(): the kernel picks the free number f for a NEW description c *)
| FRecv (f : fd) (c : ofd)       (* recv_handle(): a new number f for the EXISTING description c (SCM_RIGHTS) *)
| FDup (f g : fd)                (* g = dup(f) *)
| FClose (f : fd).               (* close(f) *)

Definition EBADF : N := 9.

Definition apply_op (t : table) (o : fdop) : result table :=
  match o with
  | FOpen f c | FRecv f c =>
      if (f <? 0)%Z || zmem f t then Err (OSError EBADF)         (* the kernel never hands out a number in use *)
      else Ok (zset f c t)
  | FDup f g =>
      match zget f t with
      | None => Err (OSError EBADF)
      | Some c => if (g <? 0)%Z || zmem g t then Err (OSError EBADF) else Ok (zset g c t)
      end
  | FClose f => if zmem f t then Ok (zdel f t) else Err (OSError EBADF)   (* closing twice: EBADF (or somebody else's descriptor) *)
  end.

Fixpoint apply_ops (t : table) (ops : list fdop) : result table :=
  match ops with
  | [] => Ok t
  | o :: rest => match apply_op t o with Ok t' => apply_ops t' rest | Err x => Err x end
  end.

(* tables are compared as maps (the order in which numbers were allocated is irrelevant) *)
Definition table_eq (a b : table) : Prop := forall f, zget f a = zget f b.
Definition table_sub (a b : table) : bool :=
  forallb (fun p => match zget (fst p) b with Some c => snd p =? c | None => false end) a.
(* decidable version for duplicate-free tables *)
Definition table_eqb (a b : table) : bool := table_sub a b && table_sub b a.

Definition refs (c : ofd) (t : table) : list fd := map fst (filter (fun p => snd p =? c) t).

(* a history that gives back every descriptor it took: runs without EBADF and restores the table *)
Definition restores (t : table) (ops : list fdop) : Prop :=
  exists t', apply_ops t ops = Ok t' /\ table_eq t' t.
Definition restoresb (t : table) (ops : list fdop) : bool :=
  match apply_ops t ops with Ok t' => table_eqb t' t | Err _ => false end.

Fixpoint repeat_ops (n : nat) (ops : list fdop) : list fdop :=
  match n with O => [] | S k => ops ++ repeat_ops k ops end.

(* ------------------------------------------------------------------ 2. handing a connection to a remote executor *)
Record two_procs := { acceptor : table; inflight : list ofd; worker : table }.

Inductive hop :=
| ASendHandle (a : fd)        (* delegate_work_to_pool: send_handle(work_queue, conn.fileno(), worker_pid) *)
| AClose (a : fd)             (*                         conn.close() *)
| WRecvHandle (h : fd)        (* RemoteFdExecutor.receive_from_work_queue: fileno = recv_handle(self.work_queue) *)
| WDup (h s : fd)             (* ThreadlessFdExecutor.work: socket.socket(fileno=socket.dup(fileno)) *)
| WClose (f : fd).            (* work.shutdown() closes s; Threadless._cleanup: os.close(work_id) closes h *)

Definition apply_hop (p : two_procs) (o : hop) : result two_procs :=
  match o with
  | ASendHandle a =>
      match zget a (acceptor p) with
      | Some c => Ok {| acceptor := acceptor p; inflight := inflight p ++ [c]; worker := worker p |}
      | None => Err (OSError EBADF)
      end
  | AClose a =>
      match apply_op (acceptor p) (FClose a) with
      | Ok t => Ok {| acceptor := t; inflight := inflight p; worker := worker p |}
      | Err x => Err x
      end
  | WRecvHandle h =>
      match inflight p with
      | [] => Err (OSError 11)                                   (* nothing to receive *)
      | c :: rest =>
          match apply_op (worker p) (FRecv h c) with
          | Ok t => Ok {| acceptor := acceptor p; inflight := rest; worker := t |}
          | Err x => Err x
          end
      end
  | WDup h s =>
      match apply_op (worker p) (FDup h s) with
      | Ok t => Ok {| acceptor := acceptor p; inflight := inflight p; worker := t |}
      | Err x => Err x
      end
  | WClose f =>
      match apply_op (worker p) (FClose f) with
      | Ok t => Ok {| acceptor := acceptor p; inflight := inflight p; worker := t |}
      | Err x => Err x
      end
  end.

Fixpoint apply_hops (p : two_procs) (ops : list hop) : result two_procs :=
  match ops with
  | [] => Ok p
  | o :: rest => match apply_hop p o with Ok p' => apply_hops p' rest | Err x => Err x end
  end.

(* number of references (descriptors in either process + in flight) that keep connection c open *)
Definition total_refs (c : ofd) (p : two_procs) : nat :=
  length (refs c (acceptor p)) + length (filter (fun x => x =? c) (inflight p)) + length (refs c (worker p)).

Definition handoff (a h s : fd) : list hop := [ASendHandle a; AClose a; WRecvHandle h; WDup h s].
Definition worker_release (h s : fd) : list hop := [WClose s; WClose h].

(* ------------------------------------------------------------------ 3. what HttpProtocolHandler.shutdown releases *)
Inductive upstream :=
| UNone                          (* self.upstream is None *)
| UNoSock                        (* a TcpServerConnection whose connect() failed: _conn is None, closed is still True *)
| USock (f : fd) (closed : bool).     (* connected; `closed` = TcpConnection.closed *)

Inductive plugin :=
| PNone                                   (* no plugin yet: request incomplete / rejected *)
| PProxy (up : upstream)                  (* HttpProxyPlugin *)
| PWeb (route : option upstream).         (* HttpWebServerPlugin; Some = the matched route is the ReverseProxy *)

Inductive escape := EscNone | EscHook (e : exn) | EscUninit.      (* what propagates out of shutdown() *)

Record renv := {
  r_flush : option exn;             (* threaded mode only: exception escaping _flush (BrokenPipeError is caught inside) *)
  r_hook : option exn;              (* exception raised by access-log / user plugin hooks that run BEFORE the upstream is closed *)
  r_client_shutdown : option N;     (* conn.shutdown(SHUT_WR) raises OSError *)
  r_up_shutdown : option N          (* upstream.connection.shutdown(SHUT_WR) raises OSError *)
}.

Definition is_oserror (e : exn) : bool := match e with OSError _ => true | _ => false end.

(* TcpConnection.close: if not self.closed and self.connection: self.connection.close(); self.closed = True *)
Definition tcp_close (u : upstream) : list fdop * escape :=
  match u with
  | UNone => ([], EscNone)
  | UNoSock => ([], EscNone)                   (* TcpServerConnection starts with closed = True: nothing to do *)
  | USock f closed => (if closed then [] else [FClose f], EscNone)
  end.

(* HttpProxyPlugin.on_client_connection_close *)
Definition proxy_close (env : renv) (u : upstream) : list fdop * escape :=
  match r_hook env with
  | Some e => ([], EscHook e)                  (* access log context / on_access_log / on_upstream_connection_close hooks *)
  | None =>
      match u with
      | UNone => ([], EscNone)                 (* if self.upstream is None: return *)
      | UNoSock => ([], EscNone)               (* `.connection` raises TcpConnectionUninitializedException: caught; close() is a no-op *)
      | USock f closed => (if closed then [] else [FClose f], EscNone)   (* shutdown(SHUT_WR) OSError ignored; finally: self.upstream.close() *)
      end
  end.

(* ReverseProxy.on_client_connection_close: if self.upstream and not self.upstream.closed: self.upstream.close() *)
Definition reverse_close (u : upstream) : list fdop * escape :=
  match u with
  | UNone => ([], EscNone)
  | UNoSock => ([], EscNone)                   (* never connected: closed is True *)
  | USock f closed => (if closed then [] else [FClose f], EscNone)
  end.

(* HttpWebServerPlugin.on_client_connection_close: context = self._context(); if self.route: self.route.on_client_connection_close(); ... *)
Definition web_close (env : renv) (route : option upstream) : list fdop * escape :=
  match r_hook env with
  | Some e => ([], EscHook e)
  | None => match route with Some u => reverse_close u | None => ([], EscNone) end
  end.

(* HttpProtocolHandler.shutdown: try: [flush]; plugin.on_client_connection_close(); conn.shutdown(SHUT_WR)
   except OSError: pass   finally: self.work.connection.close(); super().shutdown() *)
Definition handler_shutdown (env : renv) (client : fd) (p : plugin) : list fdop * escape :=
  let finally_ := [FClose client] in
  match r_flush env with
  | Some e => if is_oserror e then (finally_, EscNone) else (finally_, EscHook e)
  | None =>
      let (ops, esc) := match p with
                        | PNone => ([], EscNone)
                        | PProxy u => proxy_close env u
                        | PWeb r => web_close env r
                        end in
      match esc with
      | EscHook e => if is_oserror e then (ops ++ finally_, EscNone) else (ops ++ finally_, EscHook e)
      | EscUninit => (ops ++ finally_, EscUninit)
      | EscNone => (ops ++ finally_, EscNone)        (* conn.shutdown(SHUT_WR): OSError ignored *)
      end
  end.

(* the upstream sockets a plugin holds open *)
Definition open_upstreams (p : plugin) : list fd :=
  match p with
  | PProxy (USock f false) | PWeb (Some (USock f false)) => [f]
  | _ => []
  end.

(* ------------------------------------------------------------------ 4. a connection's life in a worker *)
(* requests through the reverse proxy, AS FOUND: every request that needs an upstream replaces
   self.upstream by a freshly connected socket and forgets the previous one *)
Fixpoint reverse_requests (u : upstream) (connects : list (option fd)) (c0 : ofd) : upstream * list fdop :=
  match connects with
  | [] => (u, [])
  | None :: rest => let (u', ops) := reverse_requests UNoSock rest (c0 + 1) in (u', ops)      (* connect() raised *)
  | Some f :: rest => let (u', ops) := reverse_requests (USock f false) rest (c0 + 1) in (u', FOpen f c0 :: ops)
  end.

(* descriptor operations of one connection handled by a remote executor whose handler opened the
   upstream sockets `ups` and, at the end, holds plugin state p *)
Definition conn_history (remote : bool) (h s : fd) (cli : ofd) (opens : list fdop) (env : renv) (p : plugin) : list fdop :=
  (if remote then [FRecv h cli; FDup h s] else [FOpen s cli])
  ++ opens
  ++ fst (handler_shutdown env s p)
  ++ (if remote then [FClose h] else []).
