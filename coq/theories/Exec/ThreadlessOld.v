(* Exec/ThreadlessOld.v — the loop of proxy/core/work/threadless.py BEFORE the repair proposed in
   proposed_fixes/C05-guard-per-work-steps.diff (the tree as found): _update_selector,
   _cleanup and _cleanup_inactive are unguarded, so an exception raised while servicing ONE work
   escapes _run_once and _run_forever.  Everything that the repair did not touch
   (_update_work_events, _selected_events, _create_tasks, _wait_for_tasks, the task coroutines) is
   shared with Exec/Threadless.v.  Definitions only; C05_refuted_old is in ThreadlessFacts.v. *)
From PM Require Import Lib.Bytes Lib.ZDict Exec.Threadless.
From Coq Require Import ZArith.

Section ExecOld.
  Variable W : Type.
  Variable IO : Type.
  Variable w_initialize : W -> IO -> W * result unit.
  Variable w_get_events : W -> IO -> W * result sel_events.
  Variable w_handle_events : W -> list fd -> list fd -> IO -> W * result bool.
  Variable w_shutdown : W -> IO -> W * result unit.
  Variable w_is_inactive : W -> N -> IO -> W * result bool.
  Variable wq : option fd.
  Variable tick_limit : N.

  Notation state := (state W).
  Notation event := (event W IO).

  (* for fileno in registered[work_id]: self.selector.unregister(fileno)   — unguarded *)
  Fixpoint old_unregister_all (sm : selmap) (fds : list fd) : selmap * result unit :=
    match fds with
    | [] => (sm, Ok tt)
    | f :: t => match sel_unregister sm f with
                | Ok sm' => old_unregister_all sm' t
                | Err x => (sm, Err x)
                end
    end.

  Definition old_cleanup (e : event) (i : work_id) (st : state) : state * result unit :=
    let (st1, r1) :=
      match zget i (registered st) with
      | Some regs =>
          let (sm, r) := old_unregister_all (sel st) (zkeys regs) in
          match r with
          | Err x => (set_sel st sm, Err x)
          | Ok _ => (set_registered (set_sel st sm) (zdel i (registered st)), Ok tt)
          end
      | None => (st, Ok tt)
      end in
    match r1 with
    | Err x => (st1, Err x)
    | Ok _ =>
        match zget i (works st1) with
        | None => (st1, Err KeyError)                            (* self.works[work_id] *)
        | Some w =>
            let (w', r) := w_shutdown w (ev_io e i) in           (* self.works[work_id].shutdown() — unguarded *)
            let st2 := set_works st1 (zset i w' (works st1)) in
            match r with
            | Err x => (st2, Err x)
            | Ok _ =>
                let st3 := set_gone (set_works st2 (zdel i (works st2))) (gone st2 ++ [(i, w')]) in   (* del self.works[work_id] *)
                (match wq with
                 | Some _ => set_oslog st3 (oslog st3 ++ [OsClose i])
                 | None => st3
                 end, Ok tt)
            end
        end
    end.

  (* for work_id in self.works: ... await self._update_work_events(work_id)   — unguarded *)
  Fixpoint old_update_selector_loop (e : event) (unf : list work_id) (st : state) (ids : list work_id)
    : state * result unit :=
    match ids with
    | [] => (st, Ok tt)
    | i :: t =>
        if zin i unf then old_update_selector_loop e unf st t
        else let (st', r) := update_work_events W IO w_get_events e i st in
             match r with
             | Ok _ => old_update_selector_loop e unf st' t
             | Err x => (st', Err x)
             end
    end.
  Definition old_update_selector (e : event) (st : state) : state * result unit :=
    old_update_selector_loop e (map t_work (unfinished st)) st (zkeys (works st)).

  Definition old_do_work (e : event) (i : work_id) (w : W) (st : state) : state * result unit :=
    let st := match wq with
              | Some _ => set_oslog st (oslog st ++ [OsDup i])
              | None => st end in
    let st := set_works st (zset i w (works st)) in
    let (w', r) := w_initialize w (ev_io e i) in
    let st := set_works st (zset i w' (works st)) in
    match r with
    | Ok _ => (set_total st (total st + 1), Ok tt)
    | Err _ => old_cleanup e i st
    end.

  Definition old_receive_from_work_queue (e : event) (st : state) : state * result bool :=
    match ev_arrival e with
    | ANone => (st, Ok false)
    | AStop => (st, Ok true)
    | ANew i w => let (st', r) := old_do_work e i w st in
                  (st', match r with Ok _ => Ok false | Err x => Err x end)
    end.

  Fixpoint old_cleanup_finished (e : event) (st : state) (res : list (work_id * bool)) : state * result unit :=
    match res with
    | [] => (st, Ok tt)
    | (i, td) :: t =>
        if td then let (st', r) := old_cleanup e i st in
                   match r with Ok _ => old_cleanup_finished e st' t | Err x => (st', Err x) end
        else old_cleanup_finished e st t
    end.

  Definition old_run_once_rest (e : event) (st : state) : state * result bool :=
    match selected_events W IO wq e st with
    | Err x => (st, Err x)
    | Ok (wbi, nwa) =>
        let (st1, rt) := if nwa then old_receive_from_work_queue e st else (st, Ok false) in
        match rt with
        | Err x => (st1, Err x)
        | Ok true => (st1, Ok true)
        | Ok false =>
            match wbi with
            | [] => (st1, Ok false)
            | _ =>
                match create_tasks W st1 wbi with
                | Err x => (st1, Err x)
                | Ok ts =>
                    let st2 := set_unfinished st1 (unfinished st1 ++ ts) in
                    let (fin, st3) := wait_for_tasks W IO e st2 in
                    let (st4, res) := run_tasks W IO w_handle_events e st3 fin in
                    let (st5, r) := old_cleanup_finished e st4 res in
                    (st5, match r with Ok _ => Ok false | Err x => Err x end)
                end
            end
        end
    end.

  Definition old_run_once (e : event) (st : state) : state * result bool :=
    let (st', r) := old_update_selector e st in
    match r with
    | Err x => (st', Err x)
    | Ok _ => old_run_once_rest e st'
    end.

  (* for work_id in self.works: if self.works[work_id].is_inactive(): ...   — unguarded *)
  Fixpoint old_inactive_scan (e : event) (st : state) (ids : list work_id) : state * result (list work_id) :=
    match ids with
    | [] => (st, Ok [])
    | i :: t =>
        match zget i (works st) with
        | None => old_inactive_scan e st t
        | Some w =>
            let (w', r) := w_is_inactive w (ev_clock e) (ev_io e i) in
            let st' := set_works st (zset i w' (works st)) in
            match r with
            | Err x => (st', Err x)
            | Ok b => let (st'', rl) := old_inactive_scan e st' t in
                      (st'', match rl with Ok l => Ok (if b then i :: l else l) | Err x => Err x end)
            end
        end
    end.

  Fixpoint old_cleanup_all (e : event) (st : state) (l : list work_id) : state * result unit :=
    match l with
    | [] => (st, Ok tt)
    | i :: t => let (st', r) := old_cleanup e i st in
                match r with Ok _ => old_cleanup_all e st' t | Err x => (st', Err x) end
    end.

  Definition old_cleanup_inactive (e : event) (st : state) : state * result unit :=
    let (st', rl) := old_inactive_scan e st (zkeys (works st)) in
    match rl with
    | Err x => (st', Err x)
    | Ok l => old_cleanup_all e st' l
    end.

  Definition old_loop_body (e : event) (st : state) : state * status :=
    let (st1, r) := old_run_once e st in
    match r with
    | Err x => (st1, Crashed x)
    | Ok true => (st1, Stopped)
    | Ok false =>
        if tick_limit <=? tick st1 then
          let (st2, r2) := old_cleanup_inactive e st1 in
          match r2 with
          | Err x => (st2, Crashed x)
          | Ok _ => if ev_running_set e then (st2, Stopped) else (set_tick st2 1, Running)
          end
        else (set_tick st1 (tick st1 + 1), Running)
    end.

  Fixpoint old_run_forever (evs : list event) (st : state) : state * status :=
    match evs with
    | [] => (st, Running)
    | e :: t => let (st', s) := old_loop_body e st in
                match s with Running => old_run_forever t st' | _ => (st', s) end
    end.

  Fixpoint old_mid_states (evs : list event) (st : state) : list state :=
    match evs with
    | [] => []
    | e :: t =>
        let (stu, r) := old_update_selector e st in
        match r with
        | Err _ => []                                       (* select() is never reached *)
        | Ok _ => stu :: (let (st', s) := old_loop_body e st in
                          match s with Running => old_mid_states t st' | _ => [] end)
        end
    end.
End ExecOld.
