(* Correspondence relations for Exec/Modes.v: a scripted HANDLER (scripted get_events / handle_events /
   initialize / is_inactive on top of the real client-connection buffer) run by the real
   HttpProtocolHandler.run (threaded) and by the real Threadless._run_forever (local executor),
   compared with threaded_run and run_forever instantiated with the same scripts. *)
From PM Require Import Lib.Bytes Lib.ZDict Exec.Threadless Exec.ThreadlessOld Exec.ThreadlessCases Exec.Modes Exec.ModesFacts Exec.FdTable Exec.FdTableCases Exec.Dispatch Exec.DispatchLocks.
From Coq Require Import ZArith.

Inductive hcall := HInit | HGet | HHandle (r w : list fd) | HShutdown.

(* one handle_events script entry: bytes queued for the client (chunk lengths), whether it flushes when the
   client is writable, and what it returns / raises *)
Record hentry := mk_hentry { he_queue : list N; he_flush : bool; he_result : bool + N }.

Record hwork := mk_hwork_full {
  hw_client : fd;
  hw_init : option N;
  hw_get : list (sel_events + N);
  hw_handle : list hentry;
  hw_inactive : list (bool + N);
  hw_send : list (N + N);            (* outcomes of socket.send: accept at most k bytes | raise errno *)
  hw_buf : list N;                   (* TcpConnection.buffer: lengths of the pending chunks *)
  hw_sent : list (N * N);            (* (offered, accepted) per successful send *)
  hw_closed : bool;
  hw_log : list hcall
}.
Definition mk_hwork c i g h a s := mk_hwork_full c i g h a s [] [] false [].

Definition hw_set_log w l := mk_hwork_full (hw_client w) (hw_init w) (hw_get w) (hw_handle w) (hw_inactive w) (hw_send w) (hw_buf w) (hw_sent w) (hw_closed w) l.
Definition hlog (w : hwork) (c : hcall) : hwork := hw_set_log w (hw_log w ++ [c]).

Definition EAGAIN : N := 11.
(* TcpConnection.flush: send the first pending chunk; a short write keeps the remainder; BlockingIOError -> 0 *)
Definition hw_flush_once (w : hwork) (_ : unit) : hwork * result unit :=
  match hw_buf w with
  | [] => (w, Ok tt)
  | c :: rest =>
      match hw_send w with
      | [] => (mk_hwork_full (hw_client w) (hw_init w) (hw_get w) (hw_handle w) (hw_inactive w) [] rest
                             (hw_sent w ++ [(c, c)]) (hw_closed w) (hw_log w), Ok tt)
      | inl k :: ss =>
          let acc := N.min k c in
          (mk_hwork_full (hw_client w) (hw_init w) (hw_get w) (hw_handle w) (hw_inactive w) ss
                         (if acc =? c then rest else (c - acc) :: rest)
                         (hw_sent w ++ [(c, acc)]) (hw_closed w) (hw_log w), Ok tt)
      | inr code :: ss =>
          let w' := mk_hwork_full (hw_client w) (hw_init w) (hw_get w) (hw_handle w) (hw_inactive w) ss
                                  (hw_buf w) (hw_sent w) (hw_closed w) (hw_log w) in
          if code =? EAGAIN then (w', Ok tt) else (w', Err (OSError code))
      end
  end.

Definition hw_has_buffer (w : hwork) : bool := match hw_buf w with [] => false | _ => true end.

Definition hw_initialize (w : hwork) (_ : unit) : hwork * result unit :=
  let w := hlog w HInit in
  (w, match hw_init w with Some c => Err (exn_of_code c) | None => Ok tt end).

Definition hw_get_events (w : hwork) (_ : unit) : hwork * result sel_events :=
  let w := hlog w HGet in
  match hw_get w with
  | [] => (w, Ok [])
  | x :: t => (mk_hwork_full (hw_client w) (hw_init w) t (hw_handle w) (hw_inactive w) (hw_send w) (hw_buf w) (hw_sent w) (hw_closed w) (hw_log w),
               match x with inl ev => Ok ev | inr c => Err (exn_of_code c) end)
  end.

Definition hw_handle_events (w : hwork) (r wr : list fd) (_ : unit) : hwork * result bool :=
  match r, wr with
  | [], [] => (w, Ok false)              (* nothing is ready: nothing to do (as the real handlers) *)
  | _, _ =>
  let w := hlog w (HHandle r wr) in
  match hw_handle w with
  | [] => (w, Ok false)
  | e :: t =>
      let w1 := mk_hwork_full (hw_client w) (hw_init w) (hw_get w) t (hw_inactive w) (hw_send w)
                              (hw_buf w ++ he_queue e) (hw_sent w) (hw_closed w) (hw_log w) in
      let (w2, rf) := if he_flush e && zin (hw_client w1) wr && hw_has_buffer w1 then hw_flush_once w1 tt else (w1, Ok tt) in
      match rf with
      | Err x => (w2, Err x)
      | Ok _ => (w2, match he_result e with inl b => Ok b | inr c => Err (exn_of_code c) end)
      end
  end
  end.

(* is_inactive is not logged: the two drivers call it at different moments (every iteration / at sweeps) *)
Definition hw_is_inactive (w : hwork) (_ : N) (_ : unit) : hwork * result bool :=
  match hw_inactive w with
  | [] => (w, Ok false)
  | x :: t => (mk_hwork_full (hw_client w) (hw_init w) (hw_get w) (hw_handle w) t (hw_send w) (hw_buf w) (hw_sent w) (hw_closed w) (hw_log w),
               match x with inl b => Ok b | inr c => Err (exn_of_code c) end)
  end.

(* the mode-independent rest of HttpProtocolHandler.shutdown for a handler without plugin:
   conn.shutdown(SHUT_WR) (OSError ignored), conn.close(), Work.shutdown() *)
Definition hw_shutdown (w : hwork) (_ : unit) : hwork * result unit :=
  let w := hlog w HShutdown in
  (mk_hwork_full (hw_client w) (hw_init w) (hw_get w) (hw_handle w) (hw_inactive w) (hw_send w) (hw_buf w) (hw_sent w) true (hw_log w), Ok tt).

(* ------------------------------------------------------------------ observations *)
Definition hcall_eqb (a b : hcall) : bool :=
  match a, b with
  | HInit, HInit | HGet, HGet | HShutdown, HShutdown => true
  | HHandle r w, HHandle r' w' => zlist_eqb r r' && zlist_eqb w w'
  | _, _ => false
  end.
Definition nn_eqb (a b : N * N) : bool := (fst a =? fst b) && (snd a =? snd b).

Record hobs := mk_hobs { ho_log : list hcall; ho_sent : list (N * N); ho_buf : list N; ho_closed : bool }.
Definition hobs_eqb (w : hwork) (o : hobs) : bool :=
  list_eqb hcall_eqb (hw_log w) (ho_log o) && list_eqb nn_eqb (hw_sent w) (ho_sent o)
  && list_eqb N.eqb (hw_buf w) (ho_buf o) && Bool.eqb (hw_closed w) (ho_closed o).

Definition mk_tevent (kf : kfail) (ready : list (fd * mask)) (clock : N) (fl : list bool) : tevent unit :=
  {| te_kfail := kf; te_ready := ready; te_io := tt; te_clock := clock; te_flush := fl |}.

(* 0 = the schedule ran out while run() was still looping; 1 = run() returned; 1000 + code = an exception escaped run() *)
Definition tstatus_code (s : tstatus) : N :=
  match s with TRunning => 0 | TDone (Ok _) => 1 | TDone (Err e) => 1000 + exn_code e end.

Definition T_RUN := threaded_run hwork unit hw_initialize hw_get_events hw_handle_events hw_shutdown hw_is_inactive
                                 hw_has_buffer hw_client hw_flush_once.
Definition L_RUN := run_forever hwork unit hw_initialize hw_get_events hw_handle_events hw_shutdown hw_is_inactive None.

Definition lift_event (e : tevent unit) : event hwork unit :=
  {| ev_kfail := te_kfail e; ev_ready := te_ready e; ev_arrival := ANone; ev_fin := fun _ => true;
     ev_io := fun _ => tt; ev_clock := te_clock e; ev_running_set := false |}.
Definition arrive_event (e : tevent unit) (i : work_id) (w : hwork) : event hwork unit :=
  {| ev_kfail := []; ev_ready := []; ev_arrival := ANew i w; ev_fin := fun _ => true;
     ev_io := fun _ => tt; ev_clock := te_clock e; ev_running_set := false |}.

Inductive mcase :=
(* the real HttpProtocolHandler.run on the scripted handler: final observation and status *)
| MThreaded (w : hwork) (e0 : tevent unit) (evs : list (tevent unit)) (o : hobs) (status : N)
(* the real Threadless._run_forever (local executor) on the same handler and schedule: observation of the work
   (live or as it was shut down), whether it is still live *)
| MThreadless (tick_limit : N) (w : hwork) (e0 : tevent unit) (evs : list (tevent unit)) (o : hobs) (live : bool)
(* does the schedule satisfy the premise [tame] of C17_local_eq_threaded (decided by tameb)? *)
| MTame (w : hwork) (evs : list (tevent unit)) (expected : bool)
(* several connections in ONE executor: per iteration an event and possibly an arriving handler; expected: per
   connection (client fd) its observation and whether it is still live *)
| MThreadlessMulti (tick_limit : N) (sched : list (tevent unit * option hwork)) (x : list (fd * hobs * bool)).

Definition check_mcase (c : mcase) : bool :=
  match c with
  | MThreaded w e0 evs o status =>
      let (w', s) := T_RUN e0 evs w in hobs_eqb w' o && (tstatus_code s =? status)
  | MThreadless tl w e0 evs o live =>
      let i := hw_client w in
      let (st, s) := L_RUN tl (arrive_event e0 i w :: map lift_event evs) (init_state hwork None) in
      match s with
      | Running =>
          match zget i (works st), gone st with
          | Some w', [] => live && hobs_eqb w' o
          | None, [(j, w')] => negb live && (j =? i)%Z && hobs_eqb w' o
          | _, _ => false
          end
      | _ => false
      end
  | MThreadlessMulti tl sched x =>
      let evs := map (fun p : tevent unit * option hwork =>
                        match snd p with
                        | Some w => {| ev_kfail := te_kfail (fst p); ev_ready := te_ready (fst p); ev_arrival := ANew (hw_client w) w;
                                       ev_fin := fun _ => true; ev_io := fun _ => tt; ev_clock := te_clock (fst p); ev_running_set := false |}
                        | None => lift_event (fst p)
                        end) sched in
      let (st, s) := L_RUN tl evs (init_state hwork None) in
      match s with
      | Running =>
          forallb (fun e : fd * hobs * bool =>
                     let '(i, o, live) := e in
                     match zget i (works st) with
                     | Some w' => live && hobs_eqb w' o
                     | None => negb live && existsb (fun g : work_id * hwork => (fst g =? i)%Z && hobs_eqb (snd g) o) (gone st)
                     end) x
      | _ => false
      end
  | MTame w evs expected =>
      Bool.eqb (match hw_initialize w tt with
                | (w0, Ok _) => tameb hwork unit hw_get_events hw_handle_events evs w0 []
                | _ => true
                end) expected
  end.

(* the dispatch protocol: the real Acceptor._work + delegate_work_to_pool writing to in-memory pipes and the real
   RemoteFdExecutor.receive_from_work_queue reading them; status 0 = nothing raised; served = per worker the
   (descriptor, address) pairs handed to work() *)
Inductive dcase := CDispatch (unix : bool) (idd nw : N) (conns : list (option N * fd)) (status : N) (served : list (list (fd * option N))).

Definition served_eqb (a b : list (fd * option N)) : bool :=
  list_eqb (fun x y : fd * option N => (fst x =? fst y)%Z && option_eqb N.eqb (snd x) (snd y)) a b.

Definition check_dcase (c : dcase) : bool :=
  match c with
  | CDispatch unix idd nw conns status served =>
      match dispatch_all unix idd nw 0 conns (repeat [] (N.to_nat nw)) with
      | Err x => (1000 + exn_code x =? status)
      | Ok pipes =>
          (fix go (ps : list (list msg)) (sv : list (list (fd * option N))) : bool :=
             match ps, sv with
             | [], [] => status =? 0
             | p :: ps', v :: sv' =>
                 match receive_all unix (2 * length p + 1) p with
                 | Ok l => served_eqb l v && go ps' sv'
                 | Err x => (1000 + exn_code x =? status)
                 end
             | _, _ => false
             end) pipes served
      end
  end.

(* the lock discipline of the dispatch: for the same runs of the real Acceptor._work + delegate_work_to_pool the harness
   records every message written to a worker's pipe as (pipe index, descriptor message?, per-worker locks held at that
   moment) and, per descriptor, (pipe index, pid given to send_handle).  Compared here with the interleaving model of
   Exec/DispatchLocks.v: the threads `work` (the model of _work) starts for these connections, run one after the other
   (the harness runs each dispatcher thread synchronously); an observed write = the model thread's pipe and the model's
   lock table when it performs that write.  The harness pool: worker k has pid 100 + k, pipe k and lock k.  Also
   checked: all model threads return, and the pipes they leave equal those of Dispatch.dispatch_all. *)
Inductive lcase := CDispatchLocks (unix : bool) (idd nw : N) (conns : list (option N * fd))
                                  (writes : list (N * bool * list N)) (pid_of : list (N * N)).

Definition harness_pool (nw : N) : pool :=
  shared_pool nw (map (fun k => 100 + N.of_nat k) (seq 0 (N.to_nat nw))) (seq 0 (N.to_nat nw)).

Fixpoint conns_of (idd total : N) (conns : list (option N * fd)) : list conn :=
  match conns with
  | [] => []
  | (a, f) :: rest => mk_conn idd total a f :: conns_of idd (total + 1) rest
  end.

(* what thread tid is about to write, and under which locks *)
Definition observe (ths : list thread) (tid : nat) (g : gstate) : option (N * bool * list N) :=
  match nth_error ths tid, nth_error (g_pcs g) tid with
  | Some th, Some PLocked =>
      if t_unix th then None else Some (N.of_nat (t_queue th), false, map (fun e => N.of_nat (fst e)) (g_held g))
  | Some th, Some PAddrSent => Some (N.of_nat (t_queue th), true, map (fun e => N.of_nat (fst e)) (g_held g))
  | _, _ => None
  end.

Fixpoint run_obs (ths : list thread) (sched : list nat) (g : gstate) : list (N * bool * list N) * gstate :=
  match sched with
  | [] => ([], g)
  | tid :: rest =>
      match step ths tid g with
      | None => run_obs ths rest g
      | Some g' =>
          let (obs, gf) := run_obs ths rest g' in
          (match observe ths tid g with Some o => o :: obs | None => obs end, gf)
      end
  end.

Definition msg_eqb (a b : msg) : bool :=
  match a, b with
  | MAddr x, MAddr y => option_eqb N.eqb x y
  | MHandle x, MHandle y => (x =? y)%Z
  | _, _ => false
  end.

Definition write_eqb (a b : N * bool * list N) : bool :=
  (fst (fst a) =? fst (fst b)) && Bool.eqb (snd (fst a)) (snd (fst b)) && list_eqb N.eqb (snd a) (snd b).

Definition check_lcase (c : lcase) : bool :=
  match c with
  | CDispatchLocks unix idd nw conns writes pid_of =>
      match spawn_all work nw (harness_pool nw) unix (conns_of idd 0 conns) with
      | Err _ => false                         (* the harness records lock cases only when nothing raised *)
      | Ok ths =>
          let (obs, g) := run_obs ths (seq_schedule (length ths)) (init_gstate (N.to_nat nw) (length ths)) in
          all_done g
          && list_eqb write_eqb obs writes
          && list_eqb (fun x y : N * N => (fst x =? fst y) && (snd x =? snd y))
                      (map (fun th => (N.of_nat (t_queue th), t_pid th)) ths) pid_of
          && match dispatch_all unix idd nw 0 conns (repeat [] (N.to_nat nw)) with
             | Ok pipes => list_eqb (list_eqb msg_eqb) pipes (g_pipes g)
             | Err _ => false
             end
      end
  end.

(* C17 compares driver runs, the descriptor hand-off (shared with C10), executor schedules (remote endings), the
   dispatch protocol and its lock discipline *)
Inductive c17case := C17M (c : mcase) | C17F (c : fcase) | C17X (c : xcase) | C17D (c : dcase) | C17L (c : lcase).
Definition check_c17 (c : c17case) : bool :=
  match c with
  | C17M m => check_mcase m | C17F f => check_fcase f | C17X x => check_case x | C17D d => check_dcase d
  | C17L l => check_lcase l
  end.
