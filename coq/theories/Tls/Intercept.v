(* C11 — TLS interception: Gallina model of the CONNECT path of proxy/http/proxy/server.py
   (on_request_complete, _tls_intercept_enabled, intercept, wrap_server, wrap_client,
   generate_upstream_certificate, gen_ca_signed_certificate), of TcpServerConnection.wrap /
   TcpClientConnection.wrap, of pki.get_ext_config / gen_public_key / gen_csr / sign_csr, and of
   the handler glue that decides what happens to the connection afterwards
   (HttpProtocolHandler._parse_first_request / handle_data / handle_readables,
   BaseTcpServerHandler.handle_readables) together with the two relay callbacks
   on_client_data / read_from_descriptors.

   Everything openssl, the kernel and the file system do enters as a Section variable (oracle):
   the outcome of connecting, of the upstream TLS handshake (given the exact context settings
   the code passed), of every `openssl` command, of the flush and handshake on the client side.
   Definitions only; the proofs are in InterceptFacts.v.
   Round 2: the upstream ssl context records every later trust-store call (wc_extra_trust), and the relay has
   single send()/recv() events with their outcomes (short writes, would-block, peer failures).

   The model describes the tree after the fix commit 28fb598 (proposed_fixes/C11-ip-literal-hosts.diff):
   IP literals get an `IP:` subjectAltName, brackets of IPv6 literals are stripped for
   SNI / hostname checking. *)
From PM Require Import Lib.Bytes Lib.PyStr.

(* ------------------------------------------------------------------ exceptions *)
(* the Python exceptions that can reach the except clauses of the anchored code *)
Inductive pyexn :=
| SSLCertVerificationError          (* ssl.SSLCertVerificationError (SSLError, ValueError) *)
| SSLEOFError                       (* ssl.SSLEOFError (SSLError) *)
| SSLError (reason : bytes)         (* any other ssl.SSLError, with its .reason *)
| SSLWantReadError                  (* ssl.SSLWantReadError (SSLError): non-blocking TLS socket, try again *)
| SSLWantWriteError                 (* ssl.SSLWantWriteError (SSLError) *)
| BlockingIOError_                  (* OSError: plain non-blocking socket would block *)
| BrokenPipeError                   (* OSError *)
| ConnectionResetError              (* OSError *)
| TimeoutError                      (* OSError (socket.timeout) *)
| OSErrorOther                      (* any other OSError, e.g. FileNotFoundError, gaierror *)
| TimeoutExpired                    (* subprocess.TimeoutExpired: not an OSError *)
| AssertionError_
| KeyError_
| UnicodeDecodeError_
| HttpProtocolException_            (* 'Both host and port must exist' *)
| ProxyConnectionFailed.            (* HttpProtocolException subclass, response() = 502 *)

Definition is_SSLCertVerificationError (e : pyexn) : bool :=
  match e with SSLCertVerificationError => true | _ => false end.
Definition is_SSLEOFError (e : pyexn) : bool :=
  match e with SSLEOFError => true | _ => false end.
(* isinstance(e, ssl.SSLError) *)
Definition is_SSLError (e : pyexn) : bool :=
  match e with
  | SSLCertVerificationError | SSLEOFError | SSLError _ | SSLWantReadError | SSLWantWriteError => true
  | _ => false
  end.
Definition is_BrokenPipeError (e : pyexn) : bool :=
  match e with BrokenPipeError => true | _ => false end.
(* isinstance(e, OSError)  (socket.error is OSError) *)
Definition is_OSError (e : pyexn) : bool :=
  match e with
  | SSLCertVerificationError | SSLEOFError | SSLError _ | SSLWantReadError | SSLWantWriteError
  | BlockingIOError_ | BrokenPipeError | ConnectionResetError | TimeoutError | OSErrorOther => true
  | _ => false
  end.
Definition is_SSLWantReadError (e : pyexn) : bool :=
  match e with SSLWantReadError => true | _ => false end.
Definition is_SSLWantWriteError (e : pyexn) : bool :=
  match e with SSLWantWriteError => true | _ => false end.
Definition is_BlockingIOError (e : pyexn) : bool :=
  match e with BlockingIOError_ => true | _ => false end.
Definition is_TimeoutExpired (e : pyexn) : bool :=
  match e with TimeoutExpired => true | _ => false end.
Definition is_HttpProtocolException (e : pyexn) : bool :=
  match e with HttpProtocolException_ | ProxyConnectionFailed => true | _ => false end.

Definition pyexn_code (e : pyexn) : N :=
  match e with
  | SSLCertVerificationError => 1 | SSLEOFError => 2 | SSLError _ => 3 | BrokenPipeError => 4
  | ConnectionResetError => 5 | TimeoutError => 6 | OSErrorOther => 7 | TimeoutExpired => 8
  | AssertionError_ => 9 | KeyError_ => 10 | UnicodeDecodeError_ => 11
  | HttpProtocolException_ => 12 | ProxyConnectionFailed => 13
  | SSLWantReadError => 14 | SSLWantWriteError => 15 | BlockingIOError_ => 16
  end.

(* ------------------------------------------------------------------ configuration *)
Inductive verify_mode := CERT_NONE | CERT_OPTIONAL | CERT_REQUIRED.
Definition verify_mode_eqb (a c : verify_mode) : bool :=
  match a, c with
  | CERT_NONE, CERT_NONE | CERT_OPTIONAL, CERT_OPTIONAL | CERT_REQUIRED, CERT_REQUIRED => true
  | _, _ => false
  end.

Record flags := mkFlags {
  ca_key_file : option bytes;
  ca_cert_dir : option bytes;
  ca_signing_key_file : option bytes;
  ca_cert_file : option bytes;
  ca_file : option bytes;                  (* trust store for upstream verification *)
  insecure_tls_interception : bool;
  bad_gateway_pkt : bytes;                 (* BAD_GATEWAY_RESPONSE_PKT (contains the version string) *)
  max_sendbuf_size : N                     (* --max-sendbuf-size: at most this many bytes per send() *)
}.
Definition DEFAULT_MAX_SEND_SIZE : N := 65536.

Definition is_some {A} (o : option A) : bool := match o with Some _ => true | None => false end.
(* Python truthiness of Optional[str] *)
Definition truthy (o : option bytes) : bool :=
  match o with Some (_ :: _) => true | _ => false end.

(* common/utils.py tls_interception_enabled *)
Definition tls_interception_enabled (fl : flags) : bool :=
  is_some (ca_key_file fl) && is_some (ca_cert_dir fl) &&
  is_some (ca_signing_key_file fl) && is_some (ca_cert_file fl).

(* server.py _tls_intercept_enabled: [answers] = what each plugin's do_intercept(request) returns,
   in plugin order; the loop stops at the first False and returns the last answer obtained *)
Fixpoint do_intercept_loop (acc : bool) (answers : list bool) : bool :=
  match answers with
  | [] => acc
  | a :: t => if negb a then false else do_intercept_loop a t
  end.
Definition tls_intercept_enabled_ (fl : flags) (answers : list bool) : bool :=
  let do_intercept := tls_interception_enabled fl in
  if negb do_intercept then do_intercept else do_intercept_loop do_intercept answers.

Definition PROXY_TUNNEL_ESTABLISHED_RESPONSE_PKT : bytes :=
  bs "HTTP/1.1 200 Connection established" ++ CRLF ++ CRLF.

(* ------------------------------------------------------------------ small Python helpers *)
(* h[1:-1] if h.startswith('[') and h.endswith(']') else h *)
Definition strip_brackets (h : bytes) : bytes :=
  if startswith h (bs "[") && endswith h (bs "]") then removelast (tl h) else h.

(* os.path.join(a, b) on POSIX *)
Definition path_join (a b : bytes) : bytes :=
  if startswith b (bs "/") then b
  else match a with
       | [] => b
       | _ => if endswith a (bs "/") then a ++ b else a ++ bs "/" ++ b
       end.

Fixpoint mem_path (p : bytes) (fs : list bytes) : bool :=
  match fs with [] => false | q :: t => bytes_eqb p q || mem_path p t end.

(* ------------------------------------------------------------------ what is observable *)
(* the settings of the ssl context at the moment ctx.wrap_socket(upstream) is called *)
Record wrap_call := mkWrapCall {
  wc_cafile : option bytes;
  wc_check_hostname : bool;
  wc_verify_mode : verify_mode;
  wc_server_hostname : option bytes;
  wc_extra_trust : list bytes;       (* every further trust-store / cipher call made on the context after
                                        create_default_context(cafile=..): "load_default_certs",
                                        "load_verify_locations:<file>", "set_default_verify_paths", ... *)
  wc_settings_default : bool         (* verify_flags, protocol versions, hostname_checks_common_name and options
                                        are what create_default_context left (| DEFAULT_SSL_CONTEXT_OPTIONS) *)
}.

(* the openssl invocations of pki.py; the serial number (time and pid) is not modelled *)
Inductive openssl_cmd :=
| CmdReqX509 (subject key out : bytes) (days : N) (config_tail : bytes) (has_extension : bool)
      (* gen_public_key: openssl req -new -x509 ... -config <DEFAULT_CONFIG + config_tail> [-extensions PROXY] *)
| CmdX509ToReq (crt key out : bytes)
      (* gen_csr: openssl x509 -x509toreq -in crt -signkey key -out out *)
| CmdSign (ca_crt ca_key csr out : bytes) (days : N) (extfile : bytes).
      (* sign_csr: openssl x509 -req -CA .. -CAkey .. -extfile <extfile content> -in csr -out out *)

Definition cmd_out (c : openssl_cmd) : bytes :=
  match c with
  | CmdReqX509 _ _ out _ _ _ => out
  | CmdX509ToReq _ _ out => out
  | CmdSign _ _ _ out _ _ => out
  end.

Inductive effect :=
| EConnect (host : bytes) (port : N)        (* new_socket_connection((host, port)) *)
| EClientQueue (pkt : bytes)                (* self.client.queue(pkt) *)
| EUpstreamWrap (c : wrap_call)             (* ctx.wrap_socket(upstream, server_hostname=..) *)
| EOpenssl (c : openssl_cmd)                (* run_openssl_command *)
| EClientFlush (data : bytes)               (* the send() inside client.wrap before the handshake *)
| EClientWrap (keyfile certfile : bytes).   (* load_cert_chain + wrap_socket(client, server_side=True) *)

Definition trace := list effect.

(* outcomes delivered by the oracles *)
Definition subject := list (bytes * bytes).     (* first attribute (long name, value) of every RDN *)
Inductive hs_result := HsOk (peer : option subject) | HsRaise (e : pyexn).
Inductive run_result := RTrue | RFalse | RRaise (e : pyexn).
Inductive flush_result := FlushSent (k : N) | FlushBlocking | FlushRaise (e : pyexn).

(* the state of the upstream connection object *)
Inductive up_state :=
| UpNone            (* self.upstream is None *)
| UpPlain           (* connected TCP socket *)
| UpTls             (* ssl.SSLSocket after a successful wrap *)
| UpDead.           (* wrap_socket raised: CPython's SSLSocket._create has detached the socket it was
                       given (fileno() = -1) and closed the new one; upstream.closed stays False *)

(* the state of the client connection object *)
Inductive cl_state :=
| ClPlain           (* accepted TCP socket *)
| ClTls             (* ssl.SSLSocket after a successful server-side wrap *)
| ClDead.           (* server-side wrap_socket raised: socket detached and closed *)

(* ------------------------------------------------------------------ plugin state and its monad *)
Record pst := mkPst {
  tr : trace;                 (* every externally visible call so far, in order *)
  fs : list bytes;            (* files that exist below ca_cert_dir (os.path.isfile) *)
  cl : cl_state;
  cl_buf : list bytes;        (* self.client.buffer: queued for the client, not yet sent *)
  cl_wire : list (bool * bytes);   (* bytes sent to the client: (inside the TLS session?, data) *)
  up : up_state;
  up_buf : list bytes;        (* self.upstream.buffer *)
  up_wire : list (bool * bytes);   (* bytes sent to the origin *)
  peer : option subject       (* subject of the upstream certificate once the handshake is done *)
}.

Inductive res (A : Type) := Ret (a : A) | Raise (e : pyexn).
Arguments Ret {A} a.
Arguments Raise {A} e.

Definition M (A : Type) := pst -> pst * res A.
Definition ret {A} (a : A) : M A := fun s => (s, Ret a).
Definition raise {A} (e : pyexn) : M A := fun s => (s, Raise e).
Definition mbind {A B} (m : M A) (f : A -> M B) : M B :=
  fun s => match m s with
           | (s', Ret a) => f a s'
           | (s', Raise e) => (s', Raise e)
           end.
Notation "'doM' x <- m ; k" := (mbind m (fun x => k)) (at level 200, x name, m at level 100, k at level 200).
Notation "m ;;; k" := (mbind m (fun _ => k)) (at level 100, k at level 200, right associativity).

(* try: m  except <classes accepted by h>: handler *)
Definition catch {A} (m : M A) (h : pyexn -> option (M A)) : M A :=
  fun s => match m s with
           | (s', Raise e) => match h e with Some k => k s' | None => (s', Raise e) end
           | r => r
           end.

Definition get : M pst := fun s => (s, Ret s).
Definition emit (e : effect) : M unit :=
  fun s => (mkPst (tr s ++ [e]) (fs s) (cl s) (cl_buf s) (cl_wire s) (up s) (up_buf s) (up_wire s) (peer s), Ret tt).
Definition set_fs (x : list bytes) : M unit :=
  fun s => (mkPst (tr s) x (cl s) (cl_buf s) (cl_wire s) (up s) (up_buf s) (up_wire s) (peer s), Ret tt).
Definition set_cl (x : cl_state) : M unit :=
  fun s => (mkPst (tr s) (fs s) x (cl_buf s) (cl_wire s) (up s) (up_buf s) (up_wire s) (peer s), Ret tt).
Definition set_cl_buf (x : list bytes) : M unit :=
  fun s => (mkPst (tr s) (fs s) (cl s) x (cl_wire s) (up s) (up_buf s) (up_wire s) (peer s), Ret tt).
Definition set_cl_wire (x : list (bool * bytes)) : M unit :=
  fun s => (mkPst (tr s) (fs s) (cl s) (cl_buf s) x (up s) (up_buf s) (up_wire s) (peer s), Ret tt).
Definition set_up (x : up_state) : M unit :=
  fun s => (mkPst (tr s) (fs s) (cl s) (cl_buf s) (cl_wire s) x (up_buf s) (up_wire s) (peer s), Ret tt).
Definition set_up_buf (x : list bytes) : M unit :=
  fun s => (mkPst (tr s) (fs s) (cl s) (cl_buf s) (cl_wire s) (up s) x (up_wire s) (peer s), Ret tt).
Definition set_up_wire (x : list (bool * bytes)) : M unit :=
  fun s => (mkPst (tr s) (fs s) (cl s) (cl_buf s) (cl_wire s) (up s) (up_buf s) x (peer s), Ret tt).
Definition set_peer (x : option subject) : M unit :=
  fun s => (mkPst (tr s) (fs s) (cl s) (cl_buf s) (cl_wire s) (up s) (up_buf s) (up_wire s) x, Ret tt).
(* text_(b) inside the monad *)
Definition text_m (b : bytes) : M bytes :=
  match text_ b with Ok t => ret t | Err _ => raise UnicodeDecodeError_ end.
(* assert cond *)
Definition assert_ (cond : bool) : M unit := if cond then ret tt else raise AssertionError_.

(* what on_request_complete returns: Union[socket.socket, bool] *)
Inductive orc_ret := RetBool (b : bool) | RetSocket.

(* how the handling of one decrypted chunk by on_client_data can fail (everything on_client_data calls:
   the parser of follow-up requests, the plugins' handle_client_request) *)
Inductive pipe_failure :=
| PipeProtocol (outs : list bytes)
      (* an HttpProtocolException whose response() is None (what HttpParser.parse raises on malformed
         input) after [outs] had been queued for the origin (requests completed earlier in the same chunk);
         HttpProtocolHandler.handle_data catches it and returns True *)
| PipeRaise (e : pyexn).
      (* any other exception: it leaves handle_data and is routed by HttpProtocolHandler.handle_readables *)

(* ================================================================== the model *)
Section Model.
  (* ---- oracles ---- *)
  Variable is_ip_literal : bytes -> bool.
      (* ipaddress.ip_address(text) does not raise *)
  Variable connect : bytes -> N -> option pyexn.
      (* TcpServerConnection.connect / new_socket_connection: None = connected *)
  Variable handshake : wrap_call -> hs_result.
      (* ssl: create_default_context(cafile) + wrap_socket with these settings;
         on success the peer certificate's subject (cert_der_to_dict(getpeercert(True))) *)
  Variable openssl_run : openssl_cmd -> run_result.
      (* pki.run_openssl_command: returncode == 0, or raises (TimeoutExpired, OSError) *)
  Variable client_flush : bytes -> flush_result.
      (* the single send() of TcpConnection.flush() on the (blocking) plain client socket *)
  Variable client_handshake : bytes -> bytes -> option pyexn.
      (* keyfile, certfile: load_cert_chain + wrap_socket(server_side=True); None = success *)

  (* ---------------------------------------------------------------- pki.py *)
  (* get_alt_name (proposed fix): IP literals -> IP:, everything else DNS: *)
  Definition get_alt_name (cname : bytes) : bytes :=
    let host := strip_brackets cname in
    if is_ip_literal host then bs "IP:" ++ host else bs "DNS:" ++ cname.

  Definition get_ext_config (alt_subj_names : option (list bytes)) (extended_key_usage : option bytes) : bytes :=
    let config := [] in
    let config :=
      match alt_subj_names with
      | Some [] | None => config
      | Some names => config ++ LF :: bs "subjectAltName=" ++ join (bs ",") (map get_alt_name names)
      end in
    match extended_key_usage with
    | Some eku => config ++ LF :: bs "extendedKeyUsage=" ++ eku
    | None => config
    end.

  (* ssl_config: what follows DEFAULT_CONFIG in the temporary config file, and has_extension *)
  Definition ssl_config (alt_subj_names : option (list bytes)) (extended_key_usage : option bytes) : bytes * bool :=
    let has_extension :=
      match alt_subj_names with Some (_ :: _) => true | _ => is_some extended_key_usage end in
    let config := if has_extension then LF :: bs "[PROXY]" else [] in
    (config ++ get_ext_config alt_subj_names extended_key_usage, has_extension).

  Definition gen_public_key (public_key_path private_key_path subject_ : bytes)
             (alt_subj_names : option (list bytes)) (validity_in_days : N) : openssl_cmd :=
    let '(cfg, has_ext) := ssl_config alt_subj_names None in
    CmdReqX509 subject_ private_key_path public_key_path validity_in_days cfg has_ext.

  Definition gen_csr (csr_path key_path crt_path : bytes) : openssl_cmd :=
    CmdX509ToReq crt_path key_path csr_path.

  Definition sign_csr (csr_path crt_path ca_key_path ca_crt_path : bytes)
             (alt_subj_names : option (list bytes)) (validity_in_days : N) : openssl_cmd :=
    CmdSign ca_crt_path ca_key_path csr_path crt_path validity_in_days (get_ext_config alt_subj_names None).

  (* ---------------------------------------------------------------- certificate generation *)
  (* upstream_subject = {s[0][0]: s[0][1] for s in certificate['subject']}: later entries win *)
  Definition upstream_subject_dict (peer : subject) : dict bytes :=
    fold_left (fun d kv => dict_set (fst kv) (snd kv) d) peer [].

  Definition subject_keys : list (bytes * bytes) :=
    [ (bs "CN", bs "commonName"); (bs "C", bs "countryName"); (bs "ST", bs "stateOrProvinceName");
      (bs "L", bs "localityName"); (bs "O", bs "organizationName"); (bs "OU", bs "organizationalUnitName") ].

  Definition build_subject (peer : subject) : bytes :=
    let d := upstream_subject_dict peer in
    fold_left (fun subject_ kl =>
                 match dict_get (snd kl) d with
                 | Some [] | None => subject_                       (* absent or empty: falsy *)
                 | Some v => subject_ ++ bs "/" ++ fst kl ++ bs "=" ++ v
                 end) subject_keys [].



  (* ---------------------------------------------------------------- certificate generation *)
  (* "if not os.path.isfile(path): resp = <openssl command>; assert(resp is True)" *)
  Definition gen_step (path : bytes) (cmd : openssl_cmd) : M unit :=
    doM s <- get ;
    if mem_path path (fs s) then ret tt
    else
      emit (EOpenssl cmd) ;;;
      match openssl_run cmd with
      | RTrue => set_fs (cmd_out cmd :: fs s)          (* openssl wrote its -out file *)
      | RFalse => raise AssertionError_               (* assert(resp is True) *)
      | RRaise e => raise e
      end.

  Definition validity_in_days : N := 365 * 2.

  (* server.py gen_ca_signed_certificate(cert_file_path, certificate) *)
  Definition gen_ca_signed_certificate (fl : flags) (host cert_file_path : bytes)
             (certificate : option subject) : M unit :=
    assert_ (match host with [] => false | _ => true end && truthy (ca_cert_dir fl) &&
             truthy (ca_signing_key_file fl) && truthy (ca_key_file fl) && truthy (ca_cert_file fl)) ;;;
    match ca_cert_dir fl, ca_signing_key_file fl, ca_key_file fl, ca_cert_file fl with
    | Some dir, Some private_key_path, Some ca_key_path, Some ca_crt_path =>
        match certificate with
        | None => raise KeyError_                      (* certificate['subject'] on {} *)
        | Some peer_subject =>
            doM h <- text_m host ;
            let public_key_path := path_join dir (h ++ bs ".pub") in
            let subject_ := build_subject peer_subject in
            let alt_subj_names := Some [h] in
            gen_step public_key_path
                     (gen_public_key public_key_path private_key_path subject_ alt_subj_names validity_in_days) ;;;
            let csr_path := path_join dir (h ++ bs ".csr") in
            gen_step csr_path (gen_csr csr_path private_key_path public_key_path) ;;;
            gen_step cert_file_path
                     (sign_csr csr_path cert_file_path ca_key_path ca_crt_path alt_subj_names validity_in_days)
        end
    | _, _, _, _ => raise AssertionError_
    end.

  (* generated_cert_file_path(ca_cert_dir, host) *)
  Definition generated_cert_file_path (ca_cert_dir_ host : bytes) : bytes :=
    path_join ca_cert_dir_ (host ++ bs ".pem").

  (* server.py generate_upstream_certificate(certificate) -> cert_file_path *)
  Definition generate_upstream_certificate (fl : flags) (host : bytes) (certificate : option subject) : M bytes :=
    if negb (truthy (ca_cert_dir fl) && truthy (ca_signing_key_file fl) &&
             truthy (ca_cert_file fl) && truthy (ca_key_file fl))
    then raise HttpProtocolException_
    else match ca_cert_dir fl with
         | None => raise HttpProtocolException_
         | Some dir =>
             doM h <- text_m host ;
             let cert_file_path := generated_cert_file_path dir h in
             doM s <- get ;
             (if negb (mem_path cert_file_path (fs s))
              then gen_ca_signed_certificate fl host cert_file_path certificate
              else ret tt) ;;;
             ret cert_file_path
         end.

  (* ---------------------------------------------------------------- connection objects *)
  (* TcpServerConnection.wrap(hostname, ca_file, as_non_blocking, verify_mode) *)
  Definition server_conn_wrap (hostname : option bytes) (ca_file_ : option bytes) (vm : verify_mode) : M unit :=
    let c := {| wc_cafile := ca_file_;
                wc_check_hostname := if verify_mode_eqb vm CERT_NONE then false else is_some hostname;
                wc_verify_mode := vm;
                wc_server_hostname := hostname;
                wc_extra_trust := [];
                wc_settings_default := true |} in
    emit (EUpstreamWrap c) ;;;
    match handshake c with
    | HsOk p => set_up UpTls ;;; set_peer p
    | HsRaise e => set_up UpDead ;;; raise e
    end.

  (* TcpConnection.flush() as called by TcpClientConnection.wrap (blocking socket, no size limit given) *)
  Definition client_conn_flush : M unit :=
    doM s <- get ;
    match cl_buf s with
    | [] => ret tt
    | mv :: rest =>
        emit (EClientFlush mv) ;;;
        match client_flush mv with
        | FlushRaise e => raise e
        | FlushBlocking => ret tt
        | FlushSent sent =>
            set_cl_wire (cl_wire s ++ [(false, take sent mv)]) ;;;
            if sent =? len mv then set_cl_buf rest else set_cl_buf (drop sent mv :: rest)
        end
    end.

  (* TcpClientConnection.wrap(keyfile, certfile) *)
  Definition client_conn_wrap (keyfile certfile : bytes) : M unit :=
    client_conn_flush ;;;
    emit (EClientWrap keyfile certfile) ;;;
    match client_handshake keyfile certfile with
    | None => set_cl ClTls
    | Some e => set_cl ClDead ;;; raise e
    end.

  (* ---------------------------------------------------------------- interception *)
  (* server.py wrap_server() -> do_close *)
  Definition wrap_server (fl : flags) (host : bytes) : M bool :=
    doM s <- get ;
    assert_ (match up s with UpNone => false | _ => true end) ;;;
    catch
      (let vm := if insecure_tls_interception fl then CERT_NONE else CERT_REQUIRED in
       doM hostname <- text_m host ;
       let hostname := strip_brackets hostname in
       server_conn_wrap (Some hostname) (ca_file fl) vm ;;;
       ret false)
      (fun e =>
         if is_SSLCertVerificationError e then Some (ret true)       (* except ssl.SSLCertVerificationError *)
         else if is_SSLError e then Some (ret true)                  (* except ssl.SSLError *)
         else None).

  (* server.py wrap_client() -> do_close *)
  Definition wrap_client (fl : flags) (host : bytes) : M bool :=
    doM s <- get ;
    assert_ (match up s with UpNone => false | _ => true end && is_some (ca_signing_key_file fl)) ;;;
    assert_ (match up s with UpTls => true | _ => false end) ;;;
    match ca_signing_key_file fl with
    | None => raise AssertionError_
    | Some keyfile =>
        catch
          (doM generated_cert <- generate_upstream_certificate fl host (peer s) ;
           client_conn_wrap keyfile generated_cert ;;;
           ret false)
          (fun e =>
             if is_TimeoutExpired e then Some (ret true)
             else if is_SSLCertVerificationError e then Some (ret true)
             else if is_SSLEOFError e then Some (ret true)
             else if is_SSLError e then Some (ret true)
             else if is_BrokenPipeError e then Some (ret true)
             else if is_OSError e then Some (ret true)
             else None)
    end.

  (* server.py intercept() *)
  Definition intercept (fl : flags) (host : bytes) : M orc_ret :=
    doM teardown <- wrap_server fl host ;
    if teardown then ret (RetBool teardown) else
    doM teardown <- wrap_client fl host ;
    if teardown then ret (RetBool teardown) else
    ret RetSocket.

  (* server.py connect_upstream() (no connection pool, plugins resolve nothing) *)
  Definition connect_upstream (host : bytes) (port : N) : M unit :=
    if (match host with [] => false | _ => true end) && negb (port =? 0) then
      catch
        (doM h <- text_m host ;
         emit (EConnect h port) ;;;
         match connect h port with
         | None => set_up UpPlain
         | Some e => raise e
         end)
        (fun _ => Some (text_m host ;;; raise ProxyConnectionFailed))   (* except Exception: ... raise ProxyConnectionFailed(text_(host), ..) *)
    else raise HttpProtocolException_.

  Definition client_queue (pkt : bytes) : M unit :=
    doM s <- get ;
    emit (EClientQueue pkt) ;;;
    set_cl_buf (cl_buf s ++ [pkt]).

  (* server.py on_request_complete(), for a CONNECT request and plugins whose
     before_upstream_connection / handle_client_request hooks pass the request through *)
  Definition on_request_complete (fl : flags) (host : bytes) (port : N) (answers : list bool) : M orc_ret :=
    connect_upstream host port ;;;
    client_queue PROXY_TUNNEL_ESTABLISHED_RESPONSE_PKT ;;;
    if tls_intercept_enabled_ fl answers then intercept fl host
    else ret (RetBool false).

  (* ---------------------------------------------------------------- handler glue and relay *)
  Variable PS : Type.       (* state of the parser of decrypted follow-up requests (C02's subject) *)
  Variable RS : Type.       (* state of the response parser *)
  Variable pipeline_step : PS -> bytes -> (PS * list bytes) + pipe_failure.
      (* on_client_data, intercepted branch: parse; every completed request is rebuilt and queued.
         inr = the parser / a plugin raised *)
  Variable response_step : RS -> bytes -> option RS.
      (* read_from_descriptors: self.response.parse(raw) bookkeeping; None = it raised (the guarded try
         block of fix ba95ac6 swallows that: the parser only serves the access log) *)

  Inductive hmode :=
  | Running          (* handler reads from the client and from the upstream *)
  | MustFlush        (* handle_data returned True with output pending: client no longer read,
                        plugin.read_from_descriptors still called; closes once flushed *)
  | ReadsTeared      (* reads_teared: nothing is read any more (the upstream buffer is still flushed);
                        closes once the client buffer is flushed *)
  | WritesTeared     (* writes_teared (and hence reads_teared): write_to_descriptors returned True with
                        output pending for the client; nothing but the client flush happens any more *)
  | Closed.          (* handle_events returned True or raised: the work is shut down *)

  Record hstate := mkH {
    ps : pst;
    mode : hmode;
    escaped : option pyexn;                 (* the exception that left handle_events, if any *)
    pipe : PS;
    resp : RS
  }.

  Definition with_ps (h : hstate) (s : pst) : hstate :=
    mkH s (mode h) (escaped h) (pipe h) (resp h).
  Definition with_mode (h : hstate) (m : hmode) : hstate :=
    mkH (ps h) m (escaped h) (pipe h) (resp h).

  Definition init_pst (fs0 : list bytes) : pst := mkPst [] fs0 ClPlain [] [] UpNone [] [] None.
  Definition init_h (fs0 : list bytes) (p0 : PS) (r0 : RS) : hstate :=
    mkH (init_pst fs0) Running None p0 r0.

  (* after handle_data returned True: BaseTcpServerHandler.handle_readables *)
  Definition after_handle_data_true (s : pst) : hmode :=
    match cl_buf s with [] => Closed | _ => MustFlush end.
  (* after HttpProtocolHandler.handle_readables returned True (reads_teared) *)
  Definition after_reads_teared (s : pst) : hmode :=
    match cl_buf s with [] => Closed | _ => ReadsTeared end.

  (* the handle_events call that receives the complete CONNECT request:
     _parse_first_request -> on_request_complete, and the routing of its result or exception *)
  Definition handle_connect (fl : flags) (host : bytes) (port : N) (answers : list bool) (h : hstate) : hstate :=
    match on_request_complete fl host port answers (ps h) with
    | (s, Ret RetSocket) => with_ps h s                                  (* work._conn = output; False *)
    | (s, Ret (RetBool false)) => with_ps h s
    | (s, Ret (RetBool true)) => with_mode (with_ps h s) (after_handle_data_true s)
    | (s, Raise e) =>
        if is_HttpProtocolException e then
          (* handle_data: response = e.response(request); queue it if any; return True *)
          let s' := match e with
                    | ProxyConnectionFailed =>
                        fst (client_queue (bad_gateway_pkt fl) s)
                    | _ => s
                    end in
          with_mode (with_ps h s') (after_handle_data_true s')
        else if is_SSLWantReadError e then
          (* HttpProtocolHandler.handle_readables: except ssl.SSLWantReadError -> return False *)
          with_ps h s
        else if is_OSError e then
          (* HttpProtocolHandler.handle_readables: except socket.error -> return True *)
          with_mode (with_ps h s) (after_reads_teared s)
        else
          mkH s Closed (Some e) (pipe h) (resp h)
    end.

  (* "if self.reads_teared and not self.work.has_buffer(): return True" *)
  Definition teared (h : hstate) (m : hmode) : hstate :=
    match cl_buf (ps h) with [] => with_mode h Closed | _ => with_mode h m end.
  Definition escape (h : hstate) (e : pyexn) : hstate := mkH (ps h) Closed (Some e) (pipe h) (resp h).

  (* server.py on_client_data(raw); [answers] = the plugins' do_intercept answers at this call;
     with the routing of an exception by its callers HttpProtocolHandler.handle_data (except
     HttpProtocolException: queue e.response() if any, return True -> BaseTcpServerHandler.handle_readables
     arms must_flush_before_shutdown when output is pending) and HttpProtocolHandler.handle_readables
     (except ssl.SSLWantReadError: return False / except socket.error: return True) *)
  Definition on_client_data (fl : flags) (answers : list bool) (raw : bytes) (h : hstate) : hstate :=
    let s := ps h in
    match up s with
    | UpNone => h
    | _ =>
        if tls_intercept_enabled_ fl answers then
          match pipeline_step (pipe h) raw with
          | inl (p', outs) =>
              mkH (fst (set_up_buf (up_buf s ++ outs) s)) (mode h) (escaped h) p' (resp h)
          | inr (PipeProtocol outs) =>
              let s' := fst (set_up_buf (up_buf s ++ outs) s) in
              with_mode (with_ps h s') (after_handle_data_true s')
          | inr (PipeRaise e) =>
              if is_SSLWantReadError e then h
              else if is_OSError e then teared h ReadsTeared
              else escape h e
          end
        else with_ps h (fst (set_up_buf (up_buf s ++ [raw]) s))
    end.

  (* server.py read_from_descriptors, the branch in which the upstream descriptor is readable
     and recv() returned [raw].  The response parser is bookkeeping only: whether it digests the chunk
     or raises (try / except Exception, fix ba95ac6), the chunk is queued for the client and the relay
     goes on.  (After a raise the parser object is in whatever state the failure left; nothing
     observable depends on it, the model keeps the previous abstract state.) *)
  Definition read_from_descriptors (fl : flags) (answers : list bool) (raw : bytes) (h : hstate) : hstate :=
    let s := ps h in
    if tls_intercept_enabled_ fl answers then
      let r' := match response_step (resp h) raw with Some r' => r' | None => resp h end in
      mkH (fst (set_cl_buf (cl_buf s ++ [raw]) s)) (mode h) (escaped h) (pipe h) r'
    else with_ps h (fst (set_cl_buf (cl_buf s ++ [raw]) s)).

  (* outcome of one send() *)
  Inductive send_outcome := SendOk (k : N) | SendRaise (e : pyexn).

  Inductive event :=
  | ClientData (answers : list bool) (raw : bytes)     (* the client socket is readable, recv() = raw *)
  | UpstreamData (answers : list bool) (raw : bytes)   (* the origin has sent raw *)
  | FlushClient                                        (* the client socket accepts everything queued *)
  | FlushUpstream                                      (* the upstream socket accepts everything queued *)
  (* single I/O calls with their outcome, faults included *)
  | ClientWrite (o : send_outcome)       (* client writable: one flush(max_sendbuf_size) in handle_writables *)
  | UpstreamWrite (o : send_outcome)     (* upstream writable: one flush(max_sendbuf_size) in write_to_descriptors *)
  | ClientRecvRaise (e : pyexn)          (* client readable, recv() raises *)
  | UpstreamRecvRaise (e : pyexn)        (* upstream readable, recv() raises *)
  | UpstreamEOF.                         (* upstream readable, recv() returns b'' *)

  Definition is_tls_cl (c : cl_state) : bool := match c with ClTls => true | _ => false end.
  Definition is_tls_up (u : up_state) : bool := match u with UpTls => true | _ => false end.
  Definition up_fd_valid (u : up_state) : bool := match u with UpPlain | UpTls => true | _ => false end.

  (* TcpConnection.flush(max_send_size): one send() of the head of the buffer *)
  Inductive flush_step := FsNoop | FsSent (data : bytes) (buf' : list bytes) | FsRaise (e : pyexn).
  Definition conn_flush (max_send : N) (buf : list bytes) (o : send_outcome) : flush_step :=
    match buf with
    | [] => FsNoop                                         (* not has_buffer() *)
    | mv :: rest =>
        let offered := take (if max_send =? 0 then DEFAULT_MAX_SEND_SIZE else max_send) mv in
        match o with
        | SendRaise e => if is_BlockingIOError e then FsNoop else FsRaise e     (* except BlockingIOError: return 0 *)
        | SendOk k =>
            let sent := N.min k (len offered) in
            FsSent (take sent mv) (if sent =? len mv then rest else drop sent mv :: rest)
        end
    end.

  Definition step (fl : flags) (h : hstate) (ev : event) : hstate :=
    match mode h with
    | Closed => h
    | m =>
        match ev with
        | ClientData answers raw =>
            (* get_events registers the client for reading only while must_flush_before_shutdown is
               False; handle_events skips handle_readables once reads_teared *)
            match m with
            | Running => on_client_data fl answers raw h
            | _ => h
            end
        | UpstreamData answers raw =>
            (* the upstream descriptor is offered to the selector only while it is a valid fd, and
               plugin.read_from_descriptors is skipped once reads_teared *)
            match m with
            | Running | MustFlush =>
                if up_fd_valid (up (ps h)) then read_from_descriptors fl answers raw h else h
            | _ => h
            end
        | FlushClient =>
            let s := ps h in
            match cl s, cl_buf s with
            | ClDead, _ => h
            | _, [] => h
            | c, buf =>
                let s' := fst ((set_cl_wire (cl_wire s ++ map (fun d => (is_tls_cl c, d)) buf) ;;; set_cl_buf []) s) in
                match m with
                | Running => with_ps h s'
                | _ => with_mode (with_ps h s') Closed
                end
            end
        | FlushUpstream =>
            (* plugin.write_to_descriptors is called until writes_teared *)
            let s := ps h in
            match m with
            | Running | MustFlush | ReadsTeared =>
                if up_fd_valid (up s) then
                  with_ps h (fst ((set_up_wire (up_wire s ++ map (fun d => (is_tls_up (up s), d)) (up_buf s)) ;;;
                                   set_up_buf []) s))
                else h
            | _ => h
            end
        | ClientWrite o =>
            (* HttpProtocolHandler.handle_writables -> BaseTcpServerHandler.handle_writables *)
            let s := ps h in
            match cl s with
            | ClDead => h
            | c =>
                match conn_flush (max_sendbuf_size fl) (cl_buf s) o with
                | FsNoop => h
                | FsSent data buf' =>
                    let s' := fst ((set_cl_wire (cl_wire s ++ [(is_tls_cl c, data)]) ;;; set_cl_buf buf') s) in
                    match m, buf' with
                    | Running, _ => with_ps h s'
                    | _, [] => with_mode (with_ps h s') Closed      (* must_flush / reads_teared and drained *)
                    | _, _ => with_ps h s'
                    end
                | FsRaise e =>
                    (* except ssl.SSLWantWriteError: return False (3a87c83) /
                       except BrokenPipeError: return True / except OSError: return True *)
                    if is_SSLWantWriteError e then h
                    else if is_OSError e then with_mode h Closed else escape h e
                end
            end
        | UpstreamWrite o =>
            (* HttpProxyPlugin.write_to_descriptors, the branch with the upstream descriptor writable *)
            let s := ps h in
            match m with
            | Running | MustFlush | ReadsTeared =>
                if up_fd_valid (up s) then
                  match conn_flush (max_sendbuf_size fl) (up_buf s) o with
                  | FsNoop => h
                  | FsSent data buf' =>
                      with_ps h (fst ((set_up_wire (up_wire s ++ [(is_tls_up (up s), data)]) ;;; set_up_buf buf') s))
                  | FsRaise e =>
                      if is_SSLWantWriteError e then h                 (* except ssl.SSLWantWriteError: return False *)
                      else if is_OSError e then teared h WritesTeared  (* BrokenPipeError / OSError: _close_and_release() *)
                      else escape h e
                  end
                else h
            | _ => h
            end
        | ClientRecvRaise e =>
            match m, cl (ps h) with
            | Running, ClDead => h
            | Running, _ =>
                if is_SSLWantReadError e then h                        (* try again later *)
                else if is_OSError e then teared h ReadsTeared         (* reset, timeout, any socket.error *)
                else escape h e
            | _, _ => h
            end
        | UpstreamRecvRaise e =>
            match m with
            | Running | MustFlush =>
                if up_fd_valid (up (ps h)) then
                  if is_SSLWantReadError e then h
                  else if is_OSError e then teared h ReadsTeared       (* TimeoutError(ETIMEDOUT) / OSError *)
                  else escape h e
                else h
            | _ => h
            end
        | UpstreamEOF =>
            match m with
            | Running | MustFlush =>
                if up_fd_valid (up (ps h)) then teared h ReadsTeared else h
            | _ => h
            end
        end
    end.

  (* a whole connection: the CONNECT request, then any sequence of events *)
  Definition run (fl : flags) (host : bytes) (port : N) (answers : list bool) (fs0 : list bytes)
             (p0 : PS) (r0 : RS) (evs : list event) : hstate :=
    fold_left (step fl) evs (handle_connect fl host port answers (init_h fs0 p0 r0)).

  (* application bytes that reached a peer, regardless of channel *)
  Definition wire_bytes (w : list (bool * bytes)) : bytes := concat (map snd w).
End Model.

(* ------------------------------------------------------------------ vocabulary of the theorems *)
Definition K200 := PROXY_TUNNEL_ESTABLISHED_RESPONSE_PKT.

(* the ssl context settings the verification policy prescribes for the upstream handshake *)
Definition policy_call (fl : flags) (h : bytes) : wrap_call :=
  {| wc_cafile := ca_file fl;
     wc_check_hostname := negb (insecure_tls_interception fl);
     wc_verify_mode := if insecure_tls_interception fl then CERT_NONE else CERT_REQUIRED;
     wc_server_hostname := Some (strip_brackets h);
     wc_extra_trust := [];
     wc_settings_default := true |}.

(* an openssl command that is "about host h": file names derived from h below ca_cert_dir, the
   subjectAltName of h, the configured leaf key and signing CA *)
Definition good_cmd (is_ip_literal : bytes -> bool) (fl : flags) (h : bytes) (c : openssl_cmd) : Prop :=
  exists dir key cakey cacrt,
    ca_cert_dir fl = Some dir /\ ca_signing_key_file fl = Some key /\
    ca_key_file fl = Some cakey /\ ca_cert_file fl = Some cacrt /\
    match c with
    | CmdReqX509 subj k out days cfg he =>
        k = key /\ out = path_join dir (h ++ bs ".pub") /\
        cfg = LF :: bs "[PROXY]" ++ LF :: bs "subjectAltName=" ++ get_alt_name is_ip_literal h /\ he = true /\
        exists peer_subject, subj = build_subject peer_subject
    | CmdX509ToReq crt k out =>
        crt = path_join dir (h ++ bs ".pub") /\ k = key /\ out = path_join dir (h ++ bs ".csr")
    | CmdSign ca_crt ca_key csr out days ext =>
        ca_crt = cacrt /\ ca_key = cakey /\ csr = path_join dir (h ++ bs ".csr") /\
        out = generated_cert_file_path dir h /\ ext = LF :: bs "subjectAltName=" ++ get_alt_name is_ip_literal h
    end.

(* the calls wrap_client may make *)
Definition client_side_effect (is_ip_literal : bytes -> bool) (fl : flags) (h : bytes) (e : effect) : Prop :=
  match e with
  | EOpenssl c => good_cmd is_ip_literal fl h c
  | EClientFlush _ => True
  | EClientWrap k cert =>
      ca_signing_key_file fl = Some k /\ exists dir, ca_cert_dir fl = Some dir /\ cert = generated_cert_file_path dir h
  | _ => False
  end.

Definition is_openssl (e : effect) : bool := match e with EOpenssl _ => true | _ => false end.
Definition is_up_wrap (e : effect) : bool := match e with EUpstreamWrap _ => true | _ => false end.
Definition count_up_wraps (t : trace) : nat := length (filter is_up_wrap t).

Definition plain_wire (w : list (bool * bytes)) : Prop := Forall (fun x => fst x = false) w.
Definition tls_wire (w : list (bool * bytes)) : Prop := Forall (fun x => fst x = true) w.

(* What is assumed of openssl's verification (the part of the property that is not proxy.py's logic):
   [chain_ok cafile] - the origin's certificate chain verifies against that trust store and nothing else
   (issuer known, within its validity period; no further trust anchors loaded into the context); [name_ok host] - the certificate names that host.
   With CERT_REQUIRED a bad chain fails the handshake, and with check_hostname a wrong name does. *)
Definition openssl_spec (handshake : wrap_call -> hs_result)
           (chain_ok : option bytes -> bool) (name_ok : bytes -> bool) : Prop :=
  (forall c, wc_verify_mode c = CERT_REQUIRED -> wc_extra_trust c = [] -> wc_settings_default c = true ->
             chain_ok (wc_cafile c) = false ->
             handshake c = HsRaise SSLCertVerificationError) /\
  (forall c hn, wc_verify_mode c = CERT_REQUIRED -> wc_check_hostname c = true ->
                wc_server_hostname c = Some hn -> name_ok hn = false ->
                handshake c = HsRaise SSLCertVerificationError).

(* the chunks an event list delivers *)
Definition client_chunks (evs : list event) : list bytes :=
  flat_map (fun ev => match ev with ClientData _ raw => [raw] | _ => [] end) evs.
Definition upstream_chunks (evs : list event) : list bytes :=
  flat_map (fun ev => match ev with UpstreamData _ raw => [raw] | _ => [] end) evs.
(* the do_intercept answers given at an event *)
Definition event_answers (ev : event) : option (list bool) :=
  match ev with ClientData a _ | UpstreamData a _ => Some a | _ => None end.
Definition is_FlushClient (ev : event) : bool := match ev with FlushClient => true | _ => false end.

(* events that must not disturb an exchange: data, flushes, short writes and every "would block, try
   again later" answer of a non-blocking socket (plain: BlockingIOError on send; TLS: SSLWantWriteError on
   either send, SSLWantReadError on either recv) *)
Definition benign (ev : event) : Prop :=
  match ev with
  | ClientData _ _ | UpstreamData _ _ | FlushClient | FlushUpstream => True
  | ClientWrite (SendOk _) | UpstreamWrite (SendOk _) => True
  | ClientWrite (SendRaise e) | UpstreamWrite (SendRaise e) => e = BlockingIOError_ \/ e = SSLWantWriteError
  | ClientRecvRaise e | UpstreamRecvRaise e => e = SSLWantReadError
  | UpstreamEOF => False
  end.

(* an event at which interception is (still) declined: flags incomplete or some plugin answers False *)
Definition declined (fl : flags) (ev : event) : Prop :=
  forall a, event_answers ev = Some a -> tls_intercept_enabled_ fl a = false.
Definition engaged_at (fl : flags) (ev : event) : Prop :=
  forall a, event_answers ev = Some a -> tls_intercept_enabled_ fl a = true.

(* both sides wrapped and the handler running *)
Definition established {PS RS : Type} (h : hstate PS RS) : Prop :=
  mode PS RS h = Running /\ cl (ps PS RS h) = ClTls /\ up (ps PS RS h) = UpTls.

Section Reference.
  Variable PS RS : Type.
  Variable pipeline_step : PS -> bytes -> (PS * list bytes) + pipe_failure.
  Variable response_step : RS -> bytes -> option RS.
  (* what on_client_data queues for the origin when fed these decrypted chunks in order (C02's subject) *)
  Fixpoint pipeline_outs (p : PS) (raws : list bytes) : option (list bytes) :=
    match raws with
    | [] => Some []
    | raw :: t =>
        match pipeline_step p raw with
        | inl (p', outs) => option_map (app outs) (pipeline_outs p' t)
        | inr _ => None
        end
    end.
  Fixpoint responses_ok (r : RS) (raws : list bytes) : bool :=
    match raws with
    | [] => true
    | raw :: t => match response_step r raw with Some r' => responses_ok r' t | None => false end
    end.
End Reference.
Arguments pipeline_outs {PS} pipeline_step p raws.
Arguments responses_ok {RS} response_step r raws.

Arguments ps {PS RS} h.
Arguments mode {PS RS} h.
Arguments escaped {PS RS} h.
Arguments pipe {PS RS} h.
Arguments resp {PS RS} h.
Arguments mkH {PS RS}.
Arguments with_ps {PS RS}.
Arguments with_mode {PS RS}.
Arguments init_h {PS RS}.
