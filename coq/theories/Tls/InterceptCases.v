(* Correspondence relation for C11: a case carries the configuration, the scripted oracle
   outcomes (the same script drives the fake ssl / openssl / sockets around the real
   HttpProxyPlugin), the event list, and everything the implementation was observed to do;
   check_case runs the model on the same script and compares.

   The scripted openssl ("sim_handshake") decides the outcome of the upstream handshake from the
   context settings the code actually passed, so a change of policy in the code changes what happens. *)
From PM Require Import Lib.Bytes Lib.PyStr Tls.Intercept.

(* ---- equality tests ---- *)
Definition obytes_eqb := option_eqb bytes_eqb.

Fixpoint list_eqb_ {A} (eqb : A -> A -> bool) (x y : list A) : bool :=
  match x, y with
  | [], [] => true
  | a :: x', c :: y' => eqb a c && list_eqb_ eqb x' y'
  | _, _ => false
  end.

Definition wrap_call_eqb (a c : wrap_call) : bool :=
  obytes_eqb (wc_cafile a) (wc_cafile c) && Bool.eqb (wc_check_hostname a) (wc_check_hostname c) &&
  verify_mode_eqb (wc_verify_mode a) (wc_verify_mode c) &&
  obytes_eqb (wc_server_hostname a) (wc_server_hostname c) &&
  list_eqb_ bytes_eqb (wc_extra_trust a) (wc_extra_trust c) &&
  Bool.eqb (wc_settings_default a) (wc_settings_default c).

Definition cmd_eqb (a c : openssl_cmd) : bool :=
  match a, c with
  | CmdReqX509 s k o d cfg he, CmdReqX509 s' k' o' d' cfg' he' =>
      bytes_eqb s s' && bytes_eqb k k' && bytes_eqb o o' && (d =? d') && bytes_eqb cfg cfg' && Bool.eqb he he'
  | CmdX509ToReq c k o, CmdX509ToReq c' k' o' => bytes_eqb c c' && bytes_eqb k k' && bytes_eqb o o'
  | CmdSign cc ck csr o d ext, CmdSign cc' ck' csr' o' d' ext' =>
      bytes_eqb cc cc' && bytes_eqb ck ck' && bytes_eqb csr csr' && bytes_eqb o o' && (d =? d') && bytes_eqb ext ext'
  | _, _ => false
  end.

Definition effect_eqb (a c : effect) : bool :=
  match a, c with
  | EConnect h p, EConnect h' p' => bytes_eqb h h' && (p =? p')
  | EClientQueue x, EClientQueue y => bytes_eqb x y
  | EUpstreamWrap x, EUpstreamWrap y => wrap_call_eqb x y
  | EOpenssl x, EOpenssl y => cmd_eqb x y
  | EClientFlush x, EClientFlush y => bytes_eqb x y
  | EClientWrap k c1, EClientWrap k' c1' => bytes_eqb k k' && bytes_eqb c1 c1'
  | _, _ => false
  end.

Fixpoint list_eqb {A} (eqb : A -> A -> bool) (x y : list A) : bool :=
  match x, y with
  | [], [] => true
  | a :: x', c :: y' => eqb a c && list_eqb eqb x' y'
  | _, _ => false
  end.

(* ---- the scripted world ---- *)
Inductive chain :=
| ChainTrustedBy (cafile : bytes)     (* verifies against exactly this trust store, within its validity period *)
| ChainPlatform                       (* issuer is only in OpenSSL's default verify paths (platform store) *)
| ChainUntrusted                      (* self-signed / unknown issuer *)
| ChainExpired.                       (* issuer trusted but notAfter is in the past *)

Record script := mkScript {
  sc_ip_literals : list bytes;            (* the texts ipaddress.ip_address accepts, among those asked *)
  sc_connect : option pyexn;
  sc_chain : chain;
  sc_names : list bytes;                  (* names / addresses the origin's certificate is valid for *)
  sc_transport : option pyexn;            (* raised by the handshake whatever the certificate *)
  sc_peer : option subject;
  sc_req : run_result; sc_x509toreq : run_result; sc_sign : run_result;    (* outcome per openssl command *)
  sc_flush : flush_result;
  sc_client_hs : option pyexn;
  sc_pipeline : list (bytes * list bytes);  (* intercepted mode: decrypted client chunk -> requests queued upstream *)
  sc_pipeline_raises : list bytes;          (* chunks on which the request parser raises HttpProtocolException *)
  sc_response_raises : list bytes           (* chunks on which the response parser raises *)
}.

Fixpoint mem_bytes (x : bytes) (l : list bytes) : bool :=
  match l with [] => false | y :: t => bytes_eqb x y || mem_bytes x t end.

Definition sim_handshake (sc : script) (c : wrap_call) : hs_result :=
  match sc_transport sc with
  | Some e => HsRaise e
  | None =>
      (* effective trust store = cafile + whatever was loaded into the context afterwards *)
      let chain_ok := match sc_chain sc with
                      | ChainTrustedBy ca =>
                          obytes_eqb (wc_cafile c) (Some ca) ||
                          mem_bytes (bs "load_verify_locations:" ++ ca) (wc_extra_trust c)
                      | ChainPlatform =>
                          mem_bytes (bs "load_default_certs") (wc_extra_trust c) ||
                          mem_bytes (bs "set_default_verify_paths") (wc_extra_trust c)
                      | _ => false
                      end in
      let name_ok := match wc_server_hostname c with
                     | Some h => mem_bytes h (sc_names sc)
                     | None => false
                     end in
      if verify_mode_eqb (wc_verify_mode c) CERT_NONE then HsOk (sc_peer sc)
      else if negb chain_ok then HsRaise SSLCertVerificationError
      else if wc_check_hostname c && negb name_ok then HsRaise SSLCertVerificationError
      else HsOk (sc_peer sc)
  end.

Definition sim_openssl (sc : script) (c : openssl_cmd) : run_result :=
  match c with
  | CmdReqX509 _ _ _ _ _ _ => sc_req sc
  | CmdX509ToReq _ _ _ => sc_x509toreq sc
  | CmdSign _ _ _ _ _ _ => sc_sign sc
  end.

Fixpoint assoc_bytes {V} (k : bytes) (l : list (bytes * V)) : option V :=
  match l with [] => None | (k', v) :: t => if bytes_eqb k k' then Some v else assoc_bytes k t end.

Definition sim_pipeline (sc : script) (_ : unit) (raw : bytes) : (unit * list bytes) + pipe_failure :=
  let outs := match assoc_bytes raw (sc_pipeline sc) with Some outs => outs | None => [] end in
  (* a chunk on which the request parser raises HttpProtocolException; what had been queued for the
     origin before (requests completed earlier in the same chunk) is the chunk's entry in sc_pipeline *)
  if mem_bytes raw (sc_pipeline_raises sc) then inr (PipeProtocol outs)
  else inl (tt, outs).
Definition sim_response (sc : script) (_ : unit) (raw : bytes) : option unit :=
  if mem_bytes raw (sc_response_raises sc) then None else Some tt.

Definition sim_run (sc : script) (fl : flags) (host : bytes) (port : N) (answers : list bool)
           (fs0 : list bytes) (evs : list (event)) : hstate unit unit :=
  run (fun h => mem_bytes h (sc_ip_literals sc))
      (fun _ _ => sc_connect sc)
      (sim_handshake sc)
      (sim_openssl sc)
      (fun _ => sc_flush sc)
      (fun _ _ => sc_client_hs sc)
      unit unit (sim_pipeline sc) (sim_response sc)
      fl host port answers fs0 tt tt evs.

(* ---- what was observed on the implementation ---- *)
Record observed := mkObs {
  o_mode : N;                 (* 0 running, 1 must-flush, 2 reads-teared, 3 closed *)
  o_escaped : option N;       (* pyexn_code of the exception that left handle_events *)
  o_cl : N;                   (* 0 plain, 1 tls, 2 dead *)
  o_up : N;                   (* 0 none, 1 plain, 2 tls, 3 dead *)
  o_cl_buf : list bytes;
  o_up_buf : list bytes;
  o_cl_plain : bytes; o_cl_tls : bytes;     (* bytes the client received outside / inside TLS *)
  o_up_plain : bytes; o_up_tls : bytes;     (* bytes the origin received outside / inside TLS *)
  o_files : list bytes        (* files present below ca_cert_dir afterwards, sorted *)
}.

Definition mode_code (m : hmode) : N :=
  match m with Running => 0 | MustFlush => 1 | ReadsTeared => 2 | Closed => 3 | WritesTeared => 4 end.
Definition cl_code (c : cl_state) : N := match c with ClPlain => 0 | ClTls => 1 | ClDead => 2 end.
Definition up_code (u : up_state) : N := match u with UpNone => 0 | UpPlain => 1 | UpTls => 2 | UpDead => 3 end.

Definition channel (tls : bool) (w : list (bool * bytes)) : bytes :=
  concat (map snd (filter (fun x => Bool.eqb (fst x) tls) w)).

(* insertion sort on byte strings (lexicographic), for comparing file sets *)
Fixpoint bytes_leb (x y : bytes) : bool :=
  match x, y with
  | [], _ => true
  | _ :: _, [] => false
  | a :: x', c :: y' => if a <? c then true else if c <? a then false else bytes_leb x' y'
  end.
Fixpoint insert_sorted (x : bytes) (l : list bytes) : list bytes :=
  match l with
  | [] => [x]
  | y :: t => if bytes_leb x y then (if bytes_eqb x y then l else x :: l) else y :: insert_sorted x t
  end.
Definition sort_paths (l : list bytes) : list bytes := fold_right insert_sorted [] l.

(* one connection: the observed call trace, the state right after the CONNECT request was handled,
   and the state after the whole event list *)
Inductive case :=
| CRun (sc : script) (fl : flags) (host : bytes) (port : N) (answers : list bool) (fs0 : list bytes)
       (evs : list event) (expected_trace : trace) (after_connect : observed) (final : observed).

Definition obs_matches (h : hstate unit unit) (o : observed) : bool :=
  let s := ps h in
  (mode_code (mode h) =? o_mode o) &&
  option_eqb N.eqb (option_map pyexn_code (escaped h)) (o_escaped o) &&
  (cl_code (cl s) =? o_cl o) && (up_code (up s) =? o_up o) &&
  list_eqb bytes_eqb (cl_buf s) (o_cl_buf o) && list_eqb bytes_eqb (up_buf s) (o_up_buf o) &&
  bytes_eqb (channel false (cl_wire s)) (o_cl_plain o) && bytes_eqb (channel true (cl_wire s)) (o_cl_tls o) &&
  bytes_eqb (channel false (up_wire s)) (o_up_plain o) && bytes_eqb (channel true (up_wire s)) (o_up_tls o) &&
  list_eqb bytes_eqb (sort_paths (fs s)) (o_files o).

Definition check_case (c : case) : bool :=
  match c with
  | CRun sc fl host port answers fs0 evs expected_trace after_connect final =>
      let h1 := sim_run sc fl host port answers fs0 [] in
      let h2 := sim_run sc fl host port answers fs0 evs in
      list_eqb effect_eqb (tr (ps h1)) expected_trace && list_eqb effect_eqb (tr (ps h2)) expected_trace &&
      obs_matches h1 after_connect && obs_matches h2 final
  end.

(* what the model does on a case (for replay files) *)
Definition obs_of (h : hstate unit unit) : observed :=
  let s := ps h in
  mkObs (mode_code (mode h)) (option_map pyexn_code (escaped h)) (cl_code (cl s)) (up_code (up s))
        (cl_buf s) (up_buf s) (channel false (cl_wire s)) (channel true (cl_wire s))
        (channel false (up_wire s)) (channel true (up_wire s)) (sort_paths (fs s)).
Definition model_obs (c : case) : trace * observed * observed :=
  match c with
  | CRun sc fl host port answers fs0 evs _ _ _ =>
      let h1 := sim_run sc fl host port answers fs0 [] in
      let h2 := sim_run sc fl host port answers fs0 evs in
      (tr (ps h2), obs_of h1, obs_of h2)
  end.


(* ================================================================== examples and the outcome table *)
Definition ex_flags : flags :=
  mkFlags (Some (bs "/x/ca.key")) (Some (bs "/certs")) (Some (bs "/x/sign.key")) (Some (bs "/x/ca.pem"))
          (Some (bs "/x/trust.pem")) false (bs "HTTP/1.1 502 Bad Gateway") 65536.

(* a script in which everything but the origin's certificate is fine; requests are forwarded as they are *)
Definition ex_script (ch : chain) (names : list bytes) : script :=
  mkScript [bs "::1"; bs "10.1.2.3"] None ch names None (Some [(bs "commonName", bs "up.example")])
           RTrue RTrue RTrue (FlushSent 39) None
           [(bs "request-1", [bs "request-1"]); (bs "request-2", [bs "request-2"])] [] [].

Definition events_with (a : list bool) : list event :=
  [ClientData a (bs "request-1"); FlushUpstream; UpstreamData a (bs "response-1"); FlushClient;
   ClientData a (bs "request-2"); UpstreamData a (bs "response-2"); FlushUpstream; FlushClient].
Definition ex_events : list event := events_with [true].
Definition ex_events_optout : list event := events_with [true; false].

(* ---- the finite outcome table ---- *)
Record scenario := mkScenario { sn_script : script; sn_flags : flags; sn_answers : list bool; sn_fs0 : list bytes }.

Definition sweep_hosts : list (bytes * bool) :=        (* CONNECT host, is it an IP literal *)
  [(bs "example.com", false); (bs "10.1.2.3", true); (bs "[::1]", true)].

Definition cert_dir : bytes := bs "/certs".
Definition pem_of (host : bytes) : bytes := path_join cert_dir (host ++ bs ".pem").
Definition pub_of (host : bytes) : bytes := path_join cert_dir (host ++ bs ".pub").

Definition sweep_flags : list flags :=
  flat_map (fun ins =>
    [mkFlags (Some (bs "/x/ca.key")) (Some cert_dir) (Some (bs "/x/sign.key")) (Some (bs "/x/ca.pem"))
             (Some (bs "/x/trust.pem")) ins (bs "502") 65536;
     mkFlags (Some (bs "/x/ca.key")) (Some cert_dir) None (Some (bs "/x/ca.pem"))
             (Some (bs "/x/trust.pem")) ins (bs "502") 65536]) [false; true].

Definition sweep_openssl : list (run_result * run_result * run_result) :=
  [(RTrue, RTrue, RTrue); (RFalse, RTrue, RTrue); (RTrue, RTrue, RFalse); (RTrue, RRaise TimeoutExpired, RTrue)].

Definition sweep_pipeline : list (bytes * list bytes) :=
  [(bs "request-1", [bs "request-1"]); (bs "request-2", [bs "request-2"])].

(* the decision tree, branch by branch: an outcome is only varied where the call that produces it is reached *)
Definition sweep_scripts (hostp : bytes * bool) : list script :=
  let host := fst hostp in
  let bare := strip_brackets host in
  let ips := if snd hostp then [bare] else [] in
  let good := ChainTrustedBy (bs "/x/trust.pem") in
  let subj := Some [(bs "commonName", bs "up.example")] in
  (* the origin cannot be connected *)
  [mkScript ips (Some OSErrorOther) good [bare] None subj RTrue RTrue RTrue (FlushSent 39) None sweep_pipeline [] []] ++
  (* the upstream handshake fails whatever the certificate: SSLError-class, OSError-class, other *)
  map (fun e => mkScript ips None good [bare] (Some e) subj RTrue RTrue RTrue (FlushSent 39) None sweep_pipeline [] [])
      [SSLEOFError; ConnectionResetError; AssertionError_] ++
  (* the handshake depends on the certificate and the policy; everything downstream varies *)
  flat_map (fun ch =>
  flat_map (fun names =>
  flat_map (fun peer_ =>
  flat_map (fun ossl : run_result * run_result * run_result =>
  flat_map (fun fl_ =>
  map (fun chs =>
    mkScript ips None ch names None peer_ (fst (fst ossl)) (snd (fst ossl)) (snd ossl) fl_ chs sweep_pipeline [] [])
    [None; Some SSLEOFError; Some AssertionError_])
    [FlushSent 39; FlushSent 10; FlushRaise BrokenPipeError])
    sweep_openssl)
    [None; subj])
    [[bare]; [bs "other.example"]])
    [good; ChainTrustedBy (bs "/x/other.pem"); ChainPlatform; ChainUntrusted; ChainExpired].

Definition sweep_table (hostp : bytes * bool) : list scenario :=
  let host := fst hostp in
  flat_map (fun sc =>
  flat_map (fun fl =>
  flat_map (fun answers =>
  map (fun fs0 => mkScenario sc fl answers fs0)
    [[]; [pem_of host]; [pub_of host]])
    [[]; [true]; [true; false]])
    sweep_flags)
    (sweep_scripts hostp).

Definition trace_eqb := list_eqb effect_eqb.
Definition is_none {A} (o : option A) : bool := match o with None => true | Some _ => false end.
Definition all_tagged (b : bool) (w : list (bool * bytes)) : bool := forallb (fun x => Bool.eqb (fst x) b) w.

(* the statements of Props/C11.v as boolean tests of one scenario *)
Definition sweep_check (hostp : bytes * bool) (sn : scenario) : bool :=
  let host := fst hostp in
  let bare := strip_brackets host in
  let sc := sn_script sn in
  let fl := sn_flags sn in
  let a := sn_answers sn in
  let evs := events_with a in
  let h := sim_run sc fl host 443 a (sn_fs0 sn) evs in
  let s := ps h in
  let engaged := tls_intercept_enabled_ fl a in
  let connected := is_none (sc_connect sc) in
  let chain_ok := match sc_chain sc with ChainTrustedBy t => obytes_eqb (ca_file fl) (Some t) | _ => false end in
  let cert_good := chain_ok && mem_bytes bare (sc_names sc) in
  let raises := negb (is_none (sc_transport sc)) || (negb (insecure_tls_interception fl) && negb cert_good) in
  let any_tls := is_tls_cl (cl s) || is_tls_up (up s) ||
                 negb (all_tagged false (cl_wire s)) || negb (all_tagged false (up_wire s)) in
  let reqs := bs "request-1" ++ bs "request-2" in
  let resps := bs "response-1" ++ bs "response-2" in
  let alt := if snd hostp then bs "IP:" ++ bare else bs "DNS:" ++ host in
  (* never trust a bad upstream / any failed upstream handshake: nothing relayed, torn down *)
  implb (connected && engaged && raises)
        (list_eqb bytes_eqb (up_buf s) [] && bytes_eqb (wire_bytes (up_wire s)) [] &&
         list_eqb bytes_eqb (map snd (cl_wire s) ++ cl_buf s) [K200] && all_tagged false (cl_wire s) &&
         trace_eqb (tr s) [EConnect host 443; EClientQueue K200; EUpstreamWrap (policy_call fl host)] &&
         (mode_code (mode h) =? 3)) &&
  (* TLS towards anybody only after a handshake that passed under the policy *)
  implb any_tls (connected && engaged && negb raises) &&
  (* the policy *)
  forallb (fun e => match e with EUpstreamWrap c => wrap_call_eqb c (policy_call fl host) | _ => true end) (tr s) &&
  Nat.leb (count_up_wraps (tr s)) 1 &&
  (* opt-out / off: opaque tunnel *)
  implb (connected && negb engaged)
        (trace_eqb (tr s) [EConnect host 443; EClientQueue K200] && (cl_code (cl s) =? 0) && (up_code (up s) =? 1) &&
         all_tagged false (cl_wire s) && all_tagged false (up_wire s) &&
         bytes_eqb (wire_bytes (up_wire s) ++ concat (up_buf s)) reqs &&
         bytes_eqb (wire_bytes (cl_wire s) ++ concat (cl_buf s)) (K200 ++ resps)) &&
  (* certificate names the host, cache respected *)
  forallb (fun e =>
    match e with
    | EOpenssl (CmdReqX509 _ k out _ cfg he) =>
        bytes_eqb out (pub_of host) && he &&
        bytes_eqb cfg (LF :: bs "[PROXY]" ++ LF :: bs "subjectAltName=" ++ alt)
    | EOpenssl (CmdSign cc ck _ out _ ext) =>
        bytes_eqb out (pem_of host) && bytes_eqb ext (LF :: bs "subjectAltName=" ++ alt) &&
        obytes_eqb (Some cc) (ca_cert_file fl) && obytes_eqb (Some ck) (ca_key_file fl)
    | EClientWrap k cert => bytes_eqb cert (pem_of host) && obytes_eqb (Some k) (ca_signing_key_file fl)
    | _ => true
    end) (tr s) &&
  implb (mem_bytes (pem_of host) (sn_fs0 sn)) (forallb (fun e => negb (is_openssl e)) (tr s)) &&
  (* established: the exchange happens inside TLS on both sides, the response returns intact *)
  implb (is_tls_cl (cl s))
        ((mode_code (mode h) =? 0) && is_tls_up (up s) &&
         bytes_eqb (channel true (up_wire s)) reqs && bytes_eqb (channel false (up_wire s)) [] &&
         bytes_eqb (wire_bytes (cl_wire s)) (K200 ++ resps) &&
         mem_bytes (pem_of host) (fs s)).
