(* C11 — lemmas and proofs about Tls/Intercept.v *)
From PM Require Import Lib.Bytes Lib.BytesFacts Lib.PyStr Tls.Intercept.

(* ------------------------------------------------------------------ small computations *)
Lemma certverif_is_ssl e : is_SSLCertVerificationError e = true -> is_SSLError e = true.
Proof. destruct e; simpl; congruence. Qed.
Lemma ssl_is_os e : is_SSLError e = true -> is_OSError e = true.
Proof. destruct e; simpl; congruence. Qed.
Lemma ssl_not_http e : is_SSLError e = true -> is_HttpProtocolException e = false.
Proof. destruct e; simpl; congruence. Qed.

Lemma take_len l : take (len l) l = l.
Proof. unfold take, len. rewrite Nat2N.id. apply firstn_all. Qed.

Section PkiFacts.
  Variable is_ip_literal : bytes -> bool.

  Lemma get_ext_config_single h :
    get_ext_config is_ip_literal (Some [h]) None = LF :: bs "subjectAltName=" ++ get_alt_name is_ip_literal h.
  Proof. reflexivity. Qed.

  Lemma ssl_config_single h :
    ssl_config is_ip_literal (Some [h]) None =
    (LF :: bs "[PROXY]" ++ LF :: bs "subjectAltName=" ++ get_alt_name is_ip_literal h, true).
  Proof. reflexivity. Qed.

  (* the subjectAltName entry: IP: exactly for IP literals (brackets stripped), DNS: otherwise *)
  Lemma get_alt_name_spec h :
    get_alt_name is_ip_literal h =
    if is_ip_literal (strip_brackets h) then bs "IP:" ++ strip_brackets h else bs "DNS:" ++ h.
  Proof. reflexivity. Qed.
End PkiFacts.

(* _tls_intercept_enabled is: flags complete and no plugin said False *)
Lemma tls_intercept_enabled_spec fl answers :
  tls_intercept_enabled_ fl answers = tls_interception_enabled fl && forallb (fun a => a) answers.
Proof.
  unfold tls_intercept_enabled_. destruct (tls_interception_enabled fl); simpl; [|reflexivity].
  assert (G : forall acc, acc = true -> do_intercept_loop acc answers = forallb (fun a => a) answers).
  { induction answers as [|a t IH]; intros acc Hacc; simpl; [assumption|].
    destruct a; simpl; [apply IH; reflexivity|reflexivity]. }
  apply G; reflexivity.
Qed.

Lemma mem_path_cons p q l : mem_path p (q :: l) = bytes_eqb p q || mem_path p l.
Proof. reflexivity. Qed.

Local Opaque PROXY_TUNNEL_ESTABLISHED_RESPONSE_PKT text_ strip_brackets path_join build_subject
      ssl_config get_ext_config validity_in_days mem_path get_alt_name generated_cert_file_path.

(* destruct the scrutinee of an innermost match in a hypothesis / the goal *)
Ltac case_match_hyp H :=
  match type of H with
  | context [match ?x with _ => _ end] =>
      lazymatch x with
      | context [match _ with _ => _ end] => fail
      | _ => destruct x eqn:?
      end
  end.
Ltac case_match_goal :=
  match goal with
  | |- context [match ?x with _ => _ end] =>
      lazymatch x with
      | context [match _ with _ => _ end] => fail
      | _ => destruct x eqn:?
      end
  end.
Ltac inv H := inversion H; subst; clear H.

Lemma mbind_inv {A B} (m : M A) (f : A -> M B) s s' r :
  mbind m f s = (s', r) ->
  (exists s1 a, m s = (s1, Ret a) /\ f a s1 = (s', r)) \/ (exists e, m s = (s', Raise e) /\ r = Raise e).
Proof.
  unfold mbind. destruct (m s) as [s1 [a|e]]; intros H.
  - left; eauto.
  - right; inv H; eauto.
Qed.

Section Facts.
  Variable is_ip_literal : bytes -> bool.
  Variable connect : bytes -> N -> option pyexn.
  Variable handshake : wrap_call -> hs_result.
  Variable openssl_run : openssl_cmd -> run_result.
  Variable client_flush : bytes -> flush_result.
  Variable client_handshake : bytes -> bytes -> option pyexn.
  Variable PS RS : Type.
  Variable pipeline_step : PS -> bytes -> option (PS * list bytes).
  Variable response_step : RS -> bytes -> option RS.

  Notation wrap_server_ := (wrap_server handshake).
  Notation wrap_client_ := (wrap_client is_ip_literal openssl_run client_flush client_handshake).
  Notation intercept_ := (intercept is_ip_literal handshake openssl_run client_flush client_handshake).
  Notation on_request_complete_ := (on_request_complete is_ip_literal connect handshake openssl_run client_flush client_handshake).
  Notation handle_connect_ := (handle_connect is_ip_literal connect handshake openssl_run client_flush client_handshake PS RS).
  Notation step_ := (step PS RS pipeline_step response_step).
  Notation run_ := (run is_ip_literal connect handshake openssl_run client_flush client_handshake PS RS pipeline_step response_step).
  Notation alt_name := (get_alt_name is_ip_literal).

  (* ================================================================ wrap_server *)
  (* the context settings wrap_server asks for: the verification policy *)
  Definition policy_call (fl : flags) (h : bytes) : wrap_call :=
    {| wc_cafile := ca_file fl;
       wc_check_hostname := negb (insecure_tls_interception fl);
       wc_verify_mode := if insecure_tls_interception fl then CERT_NONE else CERT_REQUIRED;
       wc_server_hostname := Some (strip_brackets h) |}.

  Lemma wrap_server_spec fl host s s' r :
    wrap_server_ fl host s = (s', r) ->
    fs s' = fs s /\ cl s' = cl s /\ cl_buf s' = cl_buf s /\ cl_wire s' = cl_wire s /\
    up_buf s' = up_buf s /\ up_wire s' = up_wire s /\
    match r with
    | Ret false => exists h p, text_ host = Ok h /\ handshake (policy_call fl h) = HsOk p /\
                               up s' = UpTls /\ peer s' = p /\ tr s' = tr s ++ [EUpstreamWrap (policy_call fl h)]
    | Ret true => exists h e, text_ host = Ok h /\ handshake (policy_call fl h) = HsRaise e /\ is_SSLError e = true /\
                              up s' = UpDead /\ tr s' = tr s ++ [EUpstreamWrap (policy_call fl h)]
    | Raise e => (up s' = up s /\ tr s' = tr s) \/
                 (exists h, text_ host = Ok h /\ handshake (policy_call fl h) = HsRaise e /\ is_SSLError e = false /\
                            up s' = UpDead /\ tr s' = tr s ++ [EUpstreamWrap (policy_call fl h)])
    end.
  Proof.
    unfold wrap_server, server_conn_wrap, catch, mbind, get, assert_, text_m, emit, set_up, set_peer, ret, raise, policy_call.
    intros H.
    destruct (insecure_tls_interception fl);
      repeat (case_match_hyp H; simpl in H); inv H; simpl;
      repeat match goal with H : is_SSLCertVerificationError _ = true |- _ => apply certverif_is_ssl in H end;
      (repeat split; try reflexivity; eauto 10).
  Qed.

  (* ================================================================ wrap_client *)
  Definition good_cmd (fl : flags) (h : bytes) (c : openssl_cmd) : Prop :=
    exists dir key cakey cacrt,
      ca_cert_dir fl = Some dir /\ ca_signing_key_file fl = Some key /\
      ca_key_file fl = Some cakey /\ ca_cert_file fl = Some cacrt /\
      match c with
      | CmdReqX509 subj k out days cfg he =>
          k = key /\ out = path_join dir (h ++ bs ".pub") /\
          cfg = LF :: bs "[PROXY]" ++ LF :: bs "subjectAltName=" ++ alt_name h /\ he = true /\
          exists peer_subject, subj = build_subject peer_subject
      | CmdX509ToReq crt k out =>
          crt = path_join dir (h ++ bs ".pub") /\ k = key /\ out = path_join dir (h ++ bs ".csr")
      | CmdSign ca_crt ca_key csr out days ext =>
          ca_crt = cacrt /\ ca_key = cakey /\ csr = path_join dir (h ++ bs ".csr") /\
          out = generated_cert_file_path dir h /\ ext = LF :: bs "subjectAltName=" ++ alt_name h
      end.

  Definition client_side_effect (fl : flags) (h : bytes) (e : effect) : Prop :=
    match e with
    | EOpenssl c => good_cmd fl h c
    | EClientFlush _ => True
    | EClientWrap k cert =>
        ca_signing_key_file fl = Some k /\ exists dir, ca_cert_dir fl = Some dir /\ cert = generated_cert_file_path dir h
    | _ => False
    end.

  Definition is_openssl (e : effect) : bool := match e with EOpenssl _ => true | _ => false end.

  (* gen_step: runs at most its own command; the file system only grows, by the -out file of a
     command that succeeded *)
  Lemma gen_step_spec path cmd s s' r :
    gen_step openssl_run path cmd s = (s', r) ->
    cl s' = cl s /\ cl_buf s' = cl_buf s /\ cl_wire s' = cl_wire s /\ up s' = up s /\
    up_buf s' = up_buf s /\ up_wire s' = up_wire s /\ peer s' = peer s /\
    exists t, tr s' = tr s ++ t /\ (t = [] \/ t = [EOpenssl cmd]) /\
      (forall p, mem_path p (fs s') = true ->
                 mem_path p (fs s) = true \/
                 (bytes_eqb p (cmd_out cmd) = true /\ openssl_run cmd = RTrue /\ In (EOpenssl cmd) t)) /\
      (forall p, mem_path p (fs s) = true -> mem_path p (fs s') = true) /\
      (r = Ret tt -> cmd_out cmd = path -> mem_path path (fs s') = true) /\
      (mem_path path (fs s) = true -> t = [] /\ fs s' = fs s /\ r = Ret tt).
  Proof.
    unfold gen_step, mbind, get, emit, set_fs, ret, raise. intros H.
    destruct (mem_path path (fs s)) eqn:Hm; simpl in H.
    - inv H. repeat split; auto. exists []. rewrite app_nil_r. repeat split; auto.
    - destruct (openssl_run cmd) eqn:Ho; simpl in H; inv H; simpl; repeat split; auto;
        exists [EOpenssl cmd]; (split; [reflexivity|]); (split; [now right|]); repeat split; auto; try discriminate.
      + intros p Hp. rewrite mem_path_cons in Hp. apply orb_true_iff in Hp as [Hp|Hp]; [right|left; assumption].
        repeat split; auto. now left.
      + intros p Hp. rewrite mem_path_cons, Hp. apply orb_true_r.
      + intros _ <-. rewrite mem_path_cons, bytes_eqb_refl. reflexivity.
  Qed.

  Lemma client_conn_flush_spec s s' r :
    client_conn_flush client_flush s = (s', r) ->
    fs s' = fs s /\ cl s' = cl s /\ up s' = up s /\ up_buf s' = up_buf s /\ up_wire s' = up_wire s /\ peer s' = peer s /\
    (exists t, tr s' = tr s ++ t /\ Forall (fun e => match e with EClientFlush _ => True | _ => False end) t) /\
    (exists w, cl_wire s' = cl_wire s ++ w /\ Forall (fun x => fst x = false) w /\
               concat (map snd w) ++ concat (cl_buf s') = concat (cl_buf s)).
  Proof.
    unfold client_conn_flush, mbind, get, emit, set_cl_buf, set_cl_wire, ret, raise. intros H.
    assert (Hnil : forall A (l : list A), l = l ++ []) by (intros; now rewrite app_nil_r).
    destruct (cl_buf s) as [|mv rest] eqn:Hbuf; simpl in H.
    - inv H. repeat split; auto.
      + exists []. split; [apply Hnil|constructor].
      + exists []. split; [apply Hnil|split; [constructor|now rewrite Hbuf]].
    - destruct (client_flush mv) as [sent| |e] eqn:Hf; simpl in H.
      + destruct (sent =? len mv) eqn:Hk; simpl in H; inv H; simpl; repeat split; auto.
        * eexists; split; [reflexivity|repeat constructor].
        * eexists; split; [reflexivity|split; [repeat constructor|]]. simpl.
          apply N.eqb_eq in Hk. rewrite Hk, take_len, app_nil_r. reflexivity.
        * eexists; split; [reflexivity|repeat constructor].
        * eexists; split; [reflexivity|split; [repeat constructor|]]. simpl.
          rewrite app_nil_r, app_assoc, take_drop. reflexivity.
      + inv H; simpl; repeat split; auto.
        * eexists; split; [reflexivity|repeat constructor].
        * exists []. split; [apply Hnil|split; [constructor|now rewrite Hbuf]].
      + inv H; simpl; repeat split; auto.
        * eexists; split; [reflexivity|repeat constructor].
        * exists []. split; [apply Hnil|split; [constructor|now rewrite Hbuf]].
  Qed.

  Definition openssl_effect (fl : flags) (h : bytes) (e : effect) : Prop :=
    match e with EOpenssl c => good_cmd fl h c | _ => False end.

  (* three chained gen_steps *)
  Lemma gen_ca_signed_certificate_spec fl host h dir certificate s s' r :
    text_ host = Ok h -> ca_cert_dir fl = Some dir ->
    gen_ca_signed_certificate is_ip_literal openssl_run fl host (generated_cert_file_path dir h) certificate s = (s', r) ->
    cl s' = cl s /\ cl_buf s' = cl_buf s /\ cl_wire s' = cl_wire s /\ up s' = up s /\
    up_buf s' = up_buf s /\ up_wire s' = up_wire s /\ peer s' = peer s /\
    exists t, tr s' = tr s ++ t /\ Forall (openssl_effect fl h) t /\
      (forall p, mem_path p (fs s') = true ->
                 mem_path p (fs s) = true \/
                 exists c, In (EOpenssl c) t /\ bytes_eqb p (cmd_out c) = true /\ openssl_run c = RTrue) /\
      (r = Ret tt -> mem_path (generated_cert_file_path dir h) (fs s') = true).
  Proof.
    intros Htext Hdir. unfold gen_ca_signed_certificate, assert_, text_m.
    rewrite Hdir, Htext.
    assert (Hnil : forall A (l : list A), l = l ++ []) by (intros; now rewrite app_nil_r).
    assert (Htriv : forall s0 e, cl s0 = cl s0 /\ cl_buf s0 = cl_buf s0 /\ cl_wire s0 = cl_wire s0 /\ up s0 = up s0 /\
              up_buf s0 = up_buf s0 /\ up_wire s0 = up_wire s0 /\ peer s0 = peer s0 /\
              exists t, tr s0 = tr s0 ++ t /\ Forall (openssl_effect fl h) t /\
                (forall p, mem_path p (fs s0) = true -> mem_path p (fs s0) = true \/
                   exists c, In (EOpenssl c) t /\ bytes_eqb p (cmd_out c) = true /\ openssl_run c = RTrue) /\
                (@Raise unit e = Ret tt -> mem_path (generated_cert_file_path dir h) (fs s0) = true)).
    { intros s0 e. repeat split; auto. exists []. split; [apply Hnil|]. split; [constructor|]. split; [auto|discriminate]. }
    intros H. apply mbind_inv in H as [(s1 & [] & H1 & H)|(e & H1 & ->)].
    2:{ unfold ret, raise in H1. match type of H1 with (if ?c then _ else _) _ = _ => destruct c end; inv H1. apply Htriv. }
    assert (s1 = s) as -> by (unfold ret, raise in H1; match type of H1 with (if ?c then _ else _) _ = _ => destruct c end; now inv H1).
    clear H1.
    destruct (ca_signing_key_file fl) as [key|] eqn:Hkey; [|inv H; apply Htriv].
    destruct (ca_key_file fl) as [cakey|] eqn:Hcakey; [|inv H; apply Htriv].
    destruct (ca_cert_file fl) as [cacrt|] eqn:Hcacrt; [|inv H; apply Htriv].
    destruct certificate as [peer_subject|]; [|inv H; apply Htriv].
    unfold mbind at 1 in H. unfold ret at 1 in H.
    assert (G1 : good_cmd fl h (gen_public_key is_ip_literal (path_join dir (h ++ bs ".pub")) key (build_subject peer_subject) (Some [h]) validity_in_days)).
    { unfold gen_public_key. rewrite ssl_config_single.
      exists dir, key, cakey, cacrt. repeat split; eauto. }
    assert (G2 : good_cmd fl h (gen_csr (path_join dir (h ++ bs ".csr")) key (path_join dir (h ++ bs ".pub")))).
    { exists dir, key, cakey, cacrt. repeat split; auto. }
    assert (G3 : good_cmd fl h (sign_csr is_ip_literal (path_join dir (h ++ bs ".csr")) (generated_cert_file_path dir h) cakey cacrt (Some [h]) validity_in_days)).
    { unfold sign_csr. rewrite get_ext_config_single. exists dir, key, cakey, cacrt. repeat split; auto. }
    set (c1 := gen_public_key _ _ _ _ _ _) in *. set (c2 := gen_csr _ _ _) in *. set (c3 := sign_csr _ _ _ _ _ _ _) in *.
    (* generic step: extend an accumulated description by one gen_step *)
    assert (Step : forall path cmd sa sb rb ta,
      good_cmd fl h cmd ->
      gen_step openssl_run path cmd sa = (sb, rb) ->
      (cl sa = cl s /\ cl_buf sa = cl_buf s /\ cl_wire sa = cl_wire s /\ up sa = up s /\
       up_buf sa = up_buf s /\ up_wire sa = up_wire s /\ peer sa = peer s) ->
      tr sa = tr s ++ ta -> Forall (openssl_effect fl h) ta ->
      (forall p, mem_path p (fs sa) = true -> mem_path p (fs s) = true \/
           exists c, In (EOpenssl c) ta /\ bytes_eqb p (cmd_out c) = true /\ openssl_run c = RTrue) ->
      (cl sb = cl s /\ cl_buf sb = cl_buf s /\ cl_wire sb = cl_wire s /\ up sb = up s /\
       up_buf sb = up_buf s /\ up_wire sb = up_wire s /\ peer sb = peer s) /\
      exists tb, tr sb = tr s ++ tb /\ Forall (openssl_effect fl h) tb /\
        (forall p, mem_path p (fs sb) = true -> mem_path p (fs s) = true \/
           exists c, In (EOpenssl c) tb /\ bytes_eqb p (cmd_out c) = true /\ openssl_run c = RTrue) /\
        (rb = Ret tt -> cmd_out cmd = path -> mem_path path (fs sb) = true)).
    { intros path cmd sa sb rb ta Hgood Hg (A1 & A2 & A3 & A4 & A5 & A6 & A7) Hta Hall Hfs.
      apply gen_step_spec in Hg as (B1 & B2 & B3 & B4 & B5 & B6 & B7 & t & Ht & Hcase & Hgrow & _ & Hpost & _).
      split; [repeat split; congruence|].
      exists (ta ++ t). split; [rewrite Ht, Hta; now rewrite app_assoc|].
      split; [apply Forall_app; split; [assumption|destruct Hcase as [->| ->]; repeat constructor; assumption]|].
      split; [|assumption].
      intros p Hp. apply Hgrow in Hp as [Hp|(Hp & Ho & Hin)].
      - apply Hfs in Hp as [Hp|(c & Hin & Hc)]; [now left|right]. exists c. split; [apply in_or_app; now left|assumption].
      - right. exists cmd. split; [apply in_or_app; now right|split; assumption]. }
    assert (Frame0 : cl s = cl s /\ cl_buf s = cl_buf s /\ cl_wire s = cl_wire s /\ up s = up s /\
       up_buf s = up_buf s /\ up_wire s = up_wire s /\ peer s = peer s) by (repeat split).
    assert (Hfs0 : forall p, mem_path p (fs s) = true -> mem_path p (fs s) = true \/
           exists c, In (EOpenssl c) [] /\ bytes_eqb p (cmd_out c) = true /\ openssl_run c = RTrue) by (intros; now left).
    apply mbind_inv in H as [(s1 & [] & H1 & H)|(e & H1 & ->)].
    2:{ destruct (Step _ _ _ _ _ [] G1 H1 Frame0 (Hnil _ _) (Forall_nil _) Hfs0) as (Fr & tb & Htb & Hall & Hfs & _).
        destruct Fr as (? & ? & ? & ? & ? & ? & ?). repeat split; auto. exists tb. repeat split; auto. discriminate. }
    destruct (Step _ _ _ _ _ [] G1 H1 Frame0 (Hnil _ _) (Forall_nil _) Hfs0) as (Fr1 & t1 & Ht1 & Hall1 & Hfs1 & _).
    apply mbind_inv in H as [(s2 & [] & H2 & H)|(e & H2 & ->)].
    2:{ destruct (Step _ _ _ _ _ t1 G2 H2 Fr1 Ht1 Hall1 Hfs1) as (Fr & tb & Htb & Hall & Hfs & _).
        destruct Fr as (? & ? & ? & ? & ? & ? & ?). repeat split; auto. exists tb. repeat split; auto. discriminate. }
    destruct (Step _ _ _ _ _ t1 G2 H2 Fr1 Ht1 Hall1 Hfs1) as (Fr2 & t2 & Ht2 & Hall2 & Hfs2 & _).
    destruct (Step _ _ _ _ _ t2 G3 H Fr2 Ht2 Hall2 Hfs2) as (Fr3 & t3 & Ht3 & Hall3 & Hfs3 & Hpost).
    destruct Fr3 as (? & ? & ? & ? & ? & ? & ?). repeat split; auto. exists t3. repeat split; auto.
  Qed.
End Facts.
